(* EnumProofs.v — theorems about the enum-rule scanner model (Enum/EnumScanner.v):
   P1 no panic (scan, Len, Check); P2 spans and error positions lie inside the input;
   P3 Len returns a stable prefix length; P4 agreement with the JSON scanner on plain JSON
   arrays; P5 a text that ends right after the first byte of // or /* is refused
   (fix 0219b8c).

   Plan:
   0. generalities: byte classes, [text] (the slice data[b:idx]), [pf] (process_finds without
      accumulator);
   1. the literal-text predicate [L]: what the bytes of an unfinished literal look like in
      every literal state; a finished literal can always be classified (enum_item <> None);
   2. the reachable-configuration invariant [Inv] and its preservation by one step;
   3. a generic invariant principle for [run]; no panic;
   4. spans; 5. Len; 6. simulation by the JSON scanner; 7. the unfinished annotation opener.
   [etail] (section 3) is the end-of-input rule of [scan]: the refusal of the unfinished
   opener, else [tail]. *)
From Coq Require Import List NArith ZArith Bool Arith Lia.
From Coq Require Import ZifyBool ZifyNat ZifyN.
From Coq Require Import Strings.Byte.
Import ListNotations.
From JS Require Import Common.Wire Enum.EnumScanner.
From JS Require Json.Scanner Json.ScannerProofs Json.EventsProofs Text.Unquote Num.NumModel Num.NumSpec Num.NumProofs.

(* ================================================================== *)
(* 0. generalities                                                     *)
(* ================================================================== *)
Ltac bsolve :=
  unfold is_newline, ch, is_blank, is_digit, is_digit19, is_hex, is_ctl,
    Scanner.ch, Scanner.is_blank, Scanner.is_digit, Scanner.is_digit19, Scanner.is_hex, Scanner.is_ctl,
    bN, Scanner.bN in *;
  repeat match goal with |- context [Byte.to_N ?c] => generalize dependent (Byte.to_N c); intros end;
  lia.

Lemma frev_rev {A} (l : list A) : frev l = rev l.
Proof. unfold frev. symmetry. apply rev_alt. Qed.

Lemma ch_eq c n b : Byte.to_N b = n -> ch c n = true -> c = b.
Proof.
  intros Hb H. apply NumProofs.to_N_inj. unfold ch, Scanner.ch, Scanner.bN in H.
  apply N.eqb_eq in H. congruence.
Qed.

Lemma newline_blank c : is_newline c = true -> is_blank c = true.
Proof. bsolve. Qed.

(* ---- the slice data[b:idx] ---- *)
Definition text (data : bytes) (b idx : N) : bytes :=
  firstn (N.to_nat (idx - b)) (skipn (N.to_nat b) data).

Lemma slice_text data b idx : (b <= idx)%N -> (idx <= N.of_nat (length data))%N ->
  slice data b idx = Some (text data b idx).
Proof.
  intros H1 H2. unfold slice, text.
  replace (N.leb b idx && N.leb idx (N.of_nat (length data)))%bool with true by lia. reflexivity.
Qed.

Lemma firstn_S_nth {A} (l : list A) : forall k c, nth_error l k = Some c ->
  firstn (S k) l = firstn k l ++ [c].
Proof.
  induction l as [|x l IH]; intros [|k] c H; cbn in H; try discriminate.
  - inversion H; reflexivity.
  - rewrite !firstn_cons. rewrite (IH k c H). reflexivity.
Qed.

Lemma nth_error_skipn {A} (l : list A) : forall b k, nth_error (skipn b l) k = nth_error l (b + k).
Proof.
  induction l as [|x l IH]; intros [|b] k; cbn [skipn plus nth_error]; try reflexivity.
  - destruct k; reflexivity.
  - apply IH.
Qed.

Lemma text_snoc data b idx c : (b <= idx)%N -> nth_error data (N.to_nat idx) = Some c ->
  text data b (N.succ idx) = text data b idx ++ [c].
Proof.
  intros Hb Hn. unfold text.
  replace (N.to_nat (N.succ idx - b)) with (S (N.to_nat (idx - b))) by lia.
  apply firstn_S_nth. rewrite nth_error_skipn.
  replace (N.to_nat b + N.to_nat (idx - b)) with (N.to_nat idx) by lia. exact Hn.
Qed.

Lemma text_one data idx c : nth_error data (N.to_nat idx) = Some c ->
  text data idx (N.succ idx) = [c].
Proof.
  intros Hn. rewrite (text_snoc data idx idx c (N.le_refl _) Hn).
  unfold text. rewrite N.sub_diag. reflexivity.
Qed.

(* ---- process_finds without accumulator ---- *)
Fixpoint pf (i : N) (stk : list (ev * N)) (fs : list ev) : option (list (ev * N) * list lexev) :=
  match fs with
  | [] => Some (stk, [])
  | e :: r =>
    match process_found i stk e with
    | None => None
    | Some (stk', x) =>
      match pf i stk' r with
      | None => None
      | Some (s2, l) => Some (s2, x :: l)
      end
    end
  end.

Lemma process_finds_pf i fs : forall stk racc,
  match pf i stk fs with
  | Some (s2, l) => process_finds i stk fs racc = (s2, rev l ++ racc, true)
  | None => snd (process_finds i stk fs racc) = false
  end.
Proof.
  induction fs as [|e r IH]; intros stk racc; cbn [process_finds pf].
  - reflexivity.
  - destruct (process_found i stk e) as [[stk' x]|]; [|reflexivity].
    specialize (IH stk' (x :: racc)).
    destruct (pf i stk' r) as [[s2 l]|]; [|exact IH].
    rewrite IH. cbn [rev]. rewrite <- app_assoc. reflexivity.
Qed.

Lemma pf_app i f1 : forall f2 stk,
  pf i stk (f1 ++ f2) =
  match pf i stk f1 with
  | None => None
  | Some (s1, l1) => match pf i s1 f2 with None => None | Some (s2, l2) => Some (s2, l1 ++ l2) end
  end.
Proof.
  induction f1 as [|e r IH]; intros f2 stk; cbn [pf app].
  - destruct (pf i stk f2) as [[s2 l2]|]; reflexivity.
  - destruct (process_found i stk e) as [[stk' x]|]; [|reflexivity].
    rewrite IH. destruct (pf i stk' r) as [[s1 l1]|]; [|reflexivity].
    destruct (pf i s1 f2) as [[s2 l2]|]; reflexivity.
Qed.

(* ================================================================== *)
(* 1. the bytes of a literal                                           *)
(* ================================================================== *)
Definition nc (c : byte) : bool := (is_digit c || ch c 45 || ch c 46)%bool.
Definition numish (t : bytes) : bool := forallb nc t.
Definition sign_bytes := NumProofs.sign_bytes.

Definition L (q : st) (t : bytes) : Prop :=
  match q with
  | InString | InStringEsc | InStringEscU | InStringEscU1 | InStringEscU12 | InStringEscU123 =>
    exists a r, t = a :: r /\ ch a 34 = true
  | EndValue =>
    (exists a r z, t = a :: r ++ [z] /\ ch a 34 = true /\ ch z 34 = true) \/
    t = lit_true \/ t = lit_false \/ t = lit_null
  | ST => t = [x74] | STr => t = [x74; x72] | STru => t = [x74; x72; x75]
  | SF => t = [x66] | SFa => t = [x66; x61] | SFal => t = [x66; x61; x6c]
  | SFals => t = [x66; x61; x6c; x73]
  | SN => t = [x6e] | SNu => t = [x6e; x75] | SNul => t = [x6e; x75; x6c]
  | Neg => t = [x2d]
  | S0 => exists neg, t = sign_bytes neg ++ [x30]
  | S1 => exists neg c ds, t = sign_bytes neg ++ c :: ds /\ is_digit19 c = true /\ forallb is_digit ds = true
  | Dot => exists t0, t = t0 ++ [x2e] /\ numish t0 = true /\ t0 <> []
  | Dot0 => exists t1 d, t = t1 ++ [d] /\ is_digit d = true /\ numish t1 = true /\
                         existsb (fun c => ch c 46) t1 = true /\ t1 <> []
  | _ => False
  end.

Definition final (q : st) : bool :=
  match q with EndValue | S0 | S1 | Dot0 => true | _ => false end.

(* head and last byte are not blanks: TrimSpaces does nothing *)
Lemma drop_blank_nb c r : is_blank c = false -> drop_blank (c :: r) = c :: r.
Proof. intros H. cbn [drop_blank]. rewrite H. reflexivity. Qed.

Lemma trim_spaces_id a m z : is_blank a = false -> is_blank z = false ->
  trim_spaces (a :: m ++ [z]) = a :: m ++ [z].
Proof.
  intros Ha Hz. unfold trim_spaces. rewrite (drop_blank_nb a _ Ha).
  rewrite !frev_rev. cbn [rev]. rewrite rev_app_distr. cbn [rev app].
  rewrite (drop_blank_nb z _ Hz).
  change (z :: rev m ++ [a]) with ((z :: rev m) ++ [a]).
  rewrite rev_app_distr. cbn [rev app]. rewrite rev_involutive. reflexivity.
Qed.

Lemma trim_spaces_one a : is_blank a = false -> trim_spaces [a] = [a].
Proof. intros Ha. unfold trim_spaces. rewrite (drop_blank_nb a _ Ha). cbn. rewrite Ha. reflexivity. Qed.

Lemma json_type_some t :
  (Unquote.in_quotes t = true \/ NumModel.dot_without_exp t = true \/
   exists n, NumModel.scan t = Some n) -> json_type t <> None.
Proof.
  intros H. unfold json_type.
  destruct (bytes_eqb t [x7b]); [discriminate|].
  destruct (bytes_eqb t [x5b]); [discriminate|].
  destruct (Unquote.in_quotes t) eqn:Eq; [discriminate|].
  destruct (bytes_eqb t lit_true || bytes_eqb t lit_false)%bool; [discriminate|].
  destruct (bytes_eqb t lit_null); [discriminate|].
  unfold NumModel.is_integer, NumModel.is_float.
  destruct (NumModel.dot_without_exp t) eqn:Ed; [discriminate|].
  destruct H as [H|[H|[n H]]]; try discriminate H.
  rewrite H. destruct (Nat.eqb (NumModel.n_exp n) 0); cbn [negb]; discriminate.
Qed.

Lemma enum_item_some t : trim_spaces t = t -> json_type t <> None -> enum_item t <> None.
Proof.
  intros Ht Hj. unfold enum_item. rewrite Ht.
  destruct (json_type t) as [j|]; [|congruence]. destruct j; discriminate.
Qed.

(* integer literals are numbers for the number library *)
Lemma scan_int neg ip : NumSpec.wf_ip ip = true ->
  exists n, NumModel.scan (sign_bytes neg ++ ip) = Some n.
Proof.
  intros Hw. unfold NumModel.scan.
  destruct (NumProofs.nrun_sign neg (ip ++ [])) as [st0 [Hst0 Hr]].
  rewrite app_nil_r in Hr. unfold sign_bytes. rewrite Hr.
  destruct (NumProofs.nrun_ip st0 neg false (length (NumProofs.sign_bytes neg)) ip [] Hst0 Hw)
    as [st1 [_ Hr2]].
  rewrite app_nil_r in Hr2. rewrite Hr2. cbn [NumModel.nrun].
  cbn [NumModel.a_finished NumModel.a_expBegin NumModel.a_intLen NumModel.a_fraLen NumModel.a_negative
       negb Nat.eqb].
  (* setExp's bound (max_exponent_zeros): no exponent, nothing to refuse *)
  match goal with |- context [orb (Z.ltb ?a ?b) (Z.ltb ?c ?d)] =>
    replace (orb (Z.ltb a b) (Z.ltb c d)) with false
      by (symmetry; unfold NumModel.max_exponent_zeros; apply orb_false_iff; split; apply Z.ltb_ge; lia) end.
  replace (Z.ltb (Z.of_nat (length ip) + 0) 0) with false by lia.
  cbn [Z.sub Z.add Z.opp Z.ltb Z.compare Z.to_nat].
  unfold NumModel.normalise.
  replace (Nat.ltb (length (NumModel.append_digits (NumProofs.sign_bytes neg ++ ip))) 0) with false
    by (symmetry; apply Nat.ltb_ge; lia).
  match goal with |- context [Nat.ltb ?x 0] => replace (Nat.ltb x 0) with false
    by (symmetry; apply Nat.ltb_ge; lia) end.
  cbn [NumModel.trim_trailing_rev]. eexists. reflexivity.
Qed.

Lemma forallb_digit_all ds : forallb is_digit ds = true -> NumSpec.all_digits ds = true.
Proof. intros H. exact H. Qed.

Lemma numish_no_exp t : numish t = true ->
  NumModel.has_byte (fun c => (byte_eqb c x65 || byte_eqb c x45)%bool) t = false.
Proof.
  unfold numish, NumModel.has_byte. induction t as [|c t IH]; [reflexivity|].
  cbn [forallb existsb]. intros H. apply andb_true_iff in H. destruct H as [Hc Ht].
  rewrite (IH Ht), orb_false_r. unfold nc in Hc. unfold byte_eqb. cbn [Byte.to_N].
  bsolve.
Qed.

Lemma has_dot_app t d : existsb (fun c => ch c 46) t = true ->
  NumModel.has_byte (fun c => byte_eqb c x2e) (t ++ [d]) = true.
Proof.
  unfold NumModel.has_byte. intros H. rewrite existsb_app. apply orb_true_iff. left.
  exact H.
Qed.

Lemma numish_head t : numish t = true -> t <> [] -> exists a r, t = a :: r /\ is_blank a = false.
Proof.
  destruct t as [|a r]; [congruence|]. intros H _. exists a, r. split; [reflexivity|].
  cbn [numish forallb] in H. apply andb_true_iff in H. destruct H as [H _]. unfold nc in H. bsolve.
Qed.

Lemma L_final q t : final q = true -> L q t -> enum_item t <> None.
Proof.
  destruct q; try discriminate; intros _ H; cbn [L] in H.
  - (* EndValue *)
    destruct H as [[a [r [z [E [Ha Hz]]]]]|[E|[E|E]]]; subst t;
      [|vm_compute; discriminate|vm_compute; discriminate|vm_compute; discriminate].
    apply enum_item_some.
    + apply trim_spaces_id; bsolve.
    + apply json_type_some. left. unfold Unquote.in_quotes.
      rewrite frev_rev, rev_app_distr. cbn [rev app].
      unfold ch, Scanner.ch, Scanner.bN in Ha, Hz. unfold Unquote.bN. rewrite Ha, Hz. reflexivity.
  - (* S1 *)
    destruct H as [neg [c [ds [-> [Hc Hd]]]]].
    assert (Hw : NumSpec.wf_ip (c :: ds) = true).
    { destruct ds as [|d ds]; cbn [NumSpec.wf_ip].
      - unfold NumModel.is_digit. bsolve.
      - apply andb_true_iff. split; [exact Hc|].
        unfold NumSpec.all_digits. cbn [forallb]. apply andb_true_iff. split; [|exact Hd].
        unfold NumModel.is_digit. bsolve. }
    apply enum_item_some.
    + destruct neg; cbn [sign_bytes NumProofs.sign_bytes app].
      * destruct (@exists_last _ (c :: ds)) as [m [z Hm]]; [discriminate|]. rewrite Hm.
        assert (Hz : is_blank z = false).
        { assert (Hall : forallb is_digit (c :: ds) = true).
          { cbn [forallb]. rewrite Hd, andb_true_r. bsolve. }
          rewrite Hm, forallb_app in Hall. apply andb_true_iff in Hall. destruct Hall as [_ Hall].
          cbn [forallb] in Hall. rewrite andb_true_r in Hall. bsolve. }
        apply trim_spaces_id; [vm_compute; reflexivity|exact Hz].
      * destruct ds as [|d ds]; [apply trim_spaces_one; bsolve|].
        destruct (@exists_last _ (d :: ds)) as [m [z Hm]]; [discriminate|]. rewrite Hm.
        assert (Hz : is_blank z = false).
        { rewrite Hm, forallb_app in Hd. apply andb_true_iff in Hd. destruct Hd as [_ Hd].
          cbn [forallb] in Hd. rewrite andb_true_r in Hd. bsolve. }
        apply trim_spaces_id; [bsolve|exact Hz].
    + apply json_type_some. right. right. apply scan_int. exact Hw.
  - (* S0 *)
    destruct H as [neg ->]. destruct neg; vm_compute; discriminate.
  - (* Dot0 *)
    destruct H as [t1 [d [-> [Hd [Hn [He Hne]]]]]].
    destruct (numish_head t1 Hn Hne) as [a [r [-> Ha]]].
    apply enum_item_some.
    + cbn [app]. apply trim_spaces_id; [exact Ha|bsolve].
    + apply json_type_some. right. left. unfold NumModel.dot_without_exp.
      rewrite (has_dot_app _ d He). cbn [andb].
      assert (Hn2 : numish ((a :: r) ++ [d]) = true).
      { unfold numish. rewrite forallb_app. unfold numish in Hn. rewrite Hn. cbn [forallb andb].
        unfold nc. rewrite Hd. reflexivity. }
      rewrite (numish_no_exp _ Hn2). reflexivity.
Qed.

(* ================================================================== *)
(* 2. the reachable configurations                                     *)
(* ================================================================== *)
Definition base (r : st) : option (list ev) :=
  match r with
  | FoundArrayItemBeginOrEmpty | FoundArrayItemBegin | AfterArrayItem => Some [ArrayBegin]
  | SEndTop => Some []
  | _ => None
  end.
Definition base_ret (ret : list st) : option (list ev) :=
  match ret with [r] => base r | _ => None end.
Definition litstk : list ev := [LiteralBegin; ArrayItemBegin; ArrayBegin].

Definition cinv (q : st) (ret : list st) (stk : list ev) (ann : bool) : Prop :=
  match q with
  | SBegin | SEndTop => ret = [] /\ stk = [] /\ ann = false
  | FoundArrayItemBeginOrEmpty | FoundArrayItemBegin | AfterArrayItem =>
    ret = [] /\ stk = [ArrayBegin] /\ ann = false
  | EndValue => ret = [] /\ (stk = litstk \/ stk = []) /\ ann = false
  | InStringEscU | InStringEscU1 | InStringEscU12 | InStringEscU123 =>
    ret = [InString] /\ stk = litstk /\ ann = false
  | StAnyAnnotationStart => base_ret ret = Some stk /\ ann = false
  | StInlineAnnotation =>
    exists b, base_ret ret = Some b /\ stk = InlineAnnotationBegin :: b /\ ann = true
  | StInlineAnnotationText =>
    exists b, base_ret ret = Some b /\
              stk = InlineAnnotationTextBegin :: InlineAnnotationBegin :: b /\ ann = true
  | StMultiLineAnnotation =>
    exists b, base_ret ret = Some b /\ stk = MultiLineAnnotationBegin :: b /\ ann = true
  | StMultiLineAnnotationText =>
    exists b, base_ret ret = Some b /\
              stk = MultiLineAnnotationTextBegin :: MultiLineAnnotationBegin :: b /\ ann = true
  | StMultiLineAnnotationEnd =>
    exists b, base_ret ret = Some b /\ stk = MultiLineAnnotationBegin :: b /\ ann = true
  | _ => ret = [] /\ stk = litstk /\ ann = false
  end.

(* the first byte of a literal *)
Definition Lbegin (q : st) (c : byte) : bool :=
  match q with
  | InString => ch c 34 | Neg => ch c 45 | S0 => ch c 48 | S1 => is_digit19 c
  | ST => ch c 116 | SF => ch c 102 | SN => ch c 110
  | _ => false
  end.

(* the finds of one step: closing events, then opening events and new lines; the one
   exception is the empty text of a multi-line annotation *)
Definition opn (e : ev) : bool :=
  (is_opening e || match e with NewLine | EndTop => true | _ => false end)%bool.
Fixpoint shape (fs : list ev) : bool :=
  match fs with
  | [] => true
  | e :: r => if opn e then forallb opn r else shape r
  end.
Definition noet (fs : list ev) : bool :=
  forallb (fun e => match e with EndTop => false | _ => true end) fs.
Definition shape_ok (fs : list ev) : Prop :=
  shape fs = true \/ fs = [MultiLineAnnotationTextBegin; MultiLineAnnotationTextEnd].

Lemma validate_cases data idx s b rest :
  s_stack s = (LiteralBegin, b) :: rest ->
  (exists v, slice data b idx = Some v /\ enum_item v <> None) ->
  validate_value data idx s = inl (SErr code_duplication_in_enum b) \/
  exists k, validate_value data idx s = inr (set_uniq (k :: s_uniq s) s).
Proof.
  intros Hs [v [Hv He]]. unfold validate_value. rewrite Hs, Hv.
  destruct (enum_item v) as [k|]; [|congruence].
  destruct (existsb (key_eqb k) (s_uniq s)); [left; reflexivity|right; exists k; reflexivity].
Qed.

Ltac inv_map :=
  repeat match goal with
  | H : map fst ?l = _ :: _ |- _ =>
    destruct l as [|[? ?] ?]; cbn [map fst] in H; [discriminate H|];
    let H1 := fresh "Hty" in injection H as H1 H; subst
  | H : map fst ?l = [] |- _ => apply map_eq_nil in H; subst
  | H : _ :: _ = map fst ?l |- _ => symmetry in H
  | H : [] = map fst ?l |- _ => symmetry in H
  end.

Ltac unfold_step :=
  unfold step1; cbn [s_step];
  unfold state0, end_value, found_array_item_begin_or_empty, found_item_literal, begin_value,
    after_array_item, end_top, found_array_end, switch_to_annotation, new_line, expect, expect_last,
    pop_ret, multi_line_annotation_text, inline_annotation_text, err_char, found;
  cbn [s_step s_ret s_stack s_uniq s_finds s_ann s_unf s_trail
       set_step set_ret set_stack set_uniq set_finds set_ann set_unf set_trail app negb].

Ltac brk_goal :=
  repeat match goal with
  | |- context [match ?n with Some _ => _ | None => _ end] => is_var n; destruct n
  | |- context [if ?b then _ else _] =>
    match type of b with bool => destruct b eqn:? end
  end.

Definition step_post (idx : N) (stk : list (ev * N)) (c : byte) (s1 : sc) : Prop :=
  s_stack s1 = stk /\ shape_ok (s_finds s1) /\ noet (s_finds s1) = true /\
  exists stk' evs, pf idx stk (s_finds s1) = Some (stk', evs) /\
    cinv (s_step s1) (s_ret s1) (map fst stk') (s_ann s1) /\
    (map fst stk' = litstk ->
     (s_finds s1 = [] /\ map fst stk = litstk) \/
     (s_finds s1 = [ArrayItemBegin; LiteralBegin] /\ Lbegin (s_step s1) c = true)).

Ltac inv_base :=
  match goal with
  | H : base_ret ?ret = Some _ |- _ =>
    destruct ret as [|?r [|? ?]]; cbn [base_ret] in H; try discriminate H;
    match type of H with base ?r = _ => destruct r; cbn [base] in H; try discriminate H end;
    injection H as H
  end.

Ltac decomp :=
  repeat match goal with
  | H : _ /\ _ |- _ => destruct H
  | H : exists _, _ |- _ => destruct H
  | H : _ \/ _ |- _ => destruct H
  end.

Ltac cbn_sc :=
  cbn [s_step s_ret s_stack s_uniq s_finds s_ann s_unf s_trail
       set_step set_ret set_stack set_uniq set_finds set_ann set_unf set_trail app negb].

Ltac fin_post :=
  unfold step_post; cbn_sc;
  cbn [pf process_found is_opening nonscalar_pair scalar_pair];
  split; [reflexivity|]; split; [first [left; reflexivity | right; reflexivity]|];
  split; [reflexivity|];
  do 2 eexists; split; [reflexivity|]; cbn [map fst cinv base_ret base]; split;
  [ try (eexists; split; [reflexivity|]);
    repeat split; first [reflexivity | left; reflexivity | right; reflexivity]
  | let HH := fresh in intros HH;
    first [ discriminate HH
          | left; split; reflexivity
          | right; split; [reflexivity| cbn [Lbegin]; assumption] ] ].

Ltac fin_case :=
  lazymatch goal with
  | |- True => exact I
  | |- False => fail
  | |- _ = _ \/ _ => first [left; reflexivity | right; do 2 eexists; reflexivity]
  | |- _ => fin_post
  end.

Lemma step1_ctl lc data idx q ret stk uniq ann unf trail c nxt :
  cinv q ret (map fst stk) ann ->
  (forall b rest, stk = (LiteralBegin, b) :: rest -> final q = true ->
     exists v, slice data b idx = Some v /\ enum_item v <> None) ->
  match step1 lc data idx (mksc q ret stk uniq [] ann unf trail) c nxt with
  | SOk s1 => step_post idx stk c s1
  | SErr _ pos => pos = idx \/ exists e rest, stk = (e, pos) :: rest
  | SEos => True
  | SPanic | SRedo _ => False
  end.
Proof.
  intros Hc Hv.
  destruct q; cbn [cinv] in Hc; unfold litstk in *; decomp; try inv_base; subst; inv_map.
  all: unfold_step.
  all: try match goal with |- context [validate_value ?d ?i ?s'] =>
    let Hvv := fresh "Hvv" in let k := fresh "k" in
    destruct (validate_cases d i s' _ _ eq_refl (Hv _ _ eq_refl eq_refl)) as [Hvv|[k Hvv]];
    rewrite Hvv end.
  all: cbn_sc.
  all: brk_goal.
  all: fin_case.
Qed.

Lemma validate_shape data idx s :
  match validate_value data idx s with
  | inl (SOk _) | inl (SRedo _) | inl SEos => False
  | inl _ => True
  | inr s2 => exists k, s2 = set_uniq k s
  end.
Proof.
  unfold validate_value. destruct (s_stack s) as [|[e b] r]; [exact I|].
  destruct (slice data b idx) as [v|]; [|exact I]. destruct (enum_item v) as [k|]; [|exact I].
  destruct (existsb (key_eqb k) (s_uniq s)); [exact I|]. eexists; reflexivity.
Qed.

Ltac brk_hyp H :=
  repeat match type of H with
  | context [match ?n with Some _ => _ | None => _ end] => is_var n; destruct n
  | context [if ?b then _ else _] =>
    match type of b with bool => destruct b eqn:? end
  end.

Ltac cbn_sc_in H :=
  cbn [s_step s_ret s_stack s_uniq s_finds s_ann s_unf s_trail
       set_step set_ret set_stack set_uniq set_finds set_ann set_unf set_trail app negb] in H.

Definition Lstr (t : bytes) : Prop := exists a r, t = a :: r /\ ch a 34 = true.
Lemma Lstr_snoc t c : Lstr t -> Lstr (t ++ [c]).
Proof. intros [a [r [-> Ha]]]. exists a, (r ++ [c]). split; [reflexivity|exact Ha]. Qed.
Lemma Lstr_close t c : Lstr t -> ch c 34 = true -> L EndValue (t ++ [c]).
Proof. intros [a [r [-> Ha]]] Hc. left. exists a, r, c. auto. Qed.

Lemma numish_app a b : numish (a ++ b) = (numish a && numish b)%bool.
Proof. apply forallb_app. Qed.
Lemma numish_sign neg : numish (sign_bytes neg) = true.
Proof. destruct neg; reflexivity. Qed.
Lemma numish_digits ds : forallb is_digit ds = true -> numish ds = true.
Proof.
  unfold numish. induction ds as [|d ds IH]; [reflexivity|]. cbn [forallb]. intros H.
  apply andb_true_iff in H. destruct H as [H1 H2]. rewrite (IH H2), andb_true_r.
  unfold nc. rewrite H1. reflexivity.
Qed.

Lemma L_neg_s0 t c : L Neg t -> ch c 48 = true -> L S0 (t ++ [c]).
Proof. cbn [L]. intros -> H. exists true. rewrite (ch_eq c 48 x30 eq_refl H). reflexivity. Qed.
Lemma L_neg_s1 t c : L Neg t -> is_digit19 c = true -> L S1 (t ++ [c]).
Proof. cbn [L]. intros -> H. exists true, c, []. auto. Qed.
Lemma L_s1_s1 t c : L S1 t -> is_digit c = true -> L S1 (t ++ [c]).
Proof.
  cbn [L]. intros [neg [c0 [ds [-> [H1 H2]]]]] H. exists neg, c0, (ds ++ [c]).
  split; [rewrite <- app_assoc; reflexivity|]. split; [exact H1|].
  rewrite forallb_app, H2. cbn [forallb]. rewrite H. reflexivity.
Qed.
Lemma L_s0_dot t c : L S0 t -> ch c 46 = true -> L Dot (t ++ [c]).
Proof.
  cbn [L]. intros [neg ->] H. exists (sign_bytes neg ++ [x30]).
  rewrite (ch_eq c 46 x2e eq_refl H). split; [reflexivity|].
  split; [destruct neg; reflexivity|destruct neg; discriminate].
Qed.
Lemma L_s1_dot t c : L S1 t -> ch c 46 = true -> L Dot (t ++ [c]).
Proof.
  cbn [L]. intros [neg [c0 [ds [-> [H1 H2]]]]] H. exists (sign_bytes neg ++ c0 :: ds).
  rewrite (ch_eq c 46 x2e eq_refl H). split; [reflexivity|]. split.
  - rewrite numish_app, numish_sign. cbn [andb]. apply (numish_digits (c0 :: ds)).
    cbn [forallb]. rewrite H2, andb_true_r. bsolve.
  - destruct neg; discriminate.
Qed.
Lemma L_dot_dot0 t c : L Dot t -> is_digit c = true -> L Dot0 (t ++ [c]).
Proof.
  cbn [L]. intros [t0 [-> [H1 H2]]] H. exists (t0 ++ [x2e]), c.
  split; [reflexivity|]. split; [exact H|]. split; [rewrite numish_app, H1; reflexivity|].
  split; [rewrite existsb_app; apply orb_true_iff; right; reflexivity|].
  destruct t0; discriminate.
Qed.
Lemma L_dot0_dot0 t c : L Dot0 t -> is_digit c = true -> L Dot0 (t ++ [c]).
Proof.
  cbn [L]. intros [t1 [d [-> [H1 [H2 [H3 H4]]]]]] H. exists (t1 ++ [d]), c.
  split; [reflexivity|]. split; [exact H|].
  split; [rewrite numish_app, H2; cbn; unfold nc; rewrite H1; reflexivity|].
  split; [rewrite existsb_app, H3; reflexivity|]. destruct t1; discriminate.
Qed.

Ltac kw := subst; unfold lit_true, lit_false, lit_null; cbn [app]; repeat f_equal; eapply ch_eq; [|eassumption]; reflexivity.

Lemma step1_lit lc data idx s c nxt s1 t b rest :
  s_finds s = [] -> s_stack s = (LiteralBegin, b) :: rest ->
  (s_step s = InStringEscU123 -> s_ret s = [InString]) ->
  step1 lc data idx s c nxt = SOk s1 -> s_finds s1 = [] ->
  L (s_step s) t -> L (s_step s1) (t ++ [c]).
Proof.
  destruct s as [q ret stk uniq finds ann unf trail]. cbn_sc. intros -> -> Hr H Hf HL.
  destruct q; cbn [L] in HL; try contradiction; try (rewrite (Hr eq_refl) in H);
    revert H; unfold_step.
  all: try match goal with |- context [validate_value ?d ?i ?s'] =>
    let Hvs := fresh "Hvs" in
    pose proof (validate_shape d i s') as Hvs;
    destruct (validate_value d i s') as [r|s2];
    [destruct r; try contradiction
    |let k := fresh "k" in destruct Hvs as [k ->]; cbn_sc; destruct rest as [|[[] ?] ?]] end.
  all: cbn_sc; intros H; brk_hyp H; try discriminate H.
  all: repeat match type of H with
       | context [match ?r with [] => _ | _ :: _ => _ end] => destruct r
       end; try discriminate H.
  all: try (injection H as H; subst s1; cbn_sc; cbn_sc_in Hf; try discriminate Hf).
  all: first
    [ exact (Lstr_snoc _ _ HL)
    | eapply Lstr_close; eassumption
    | eapply L_neg_s0; eassumption
    | eapply L_neg_s1; eassumption
    | eapply L_s1_s1; eassumption
    | eapply L_s0_dot; eassumption
    | eapply L_s1_dot; eassumption
    | eapply L_dot_dot0; eassumption
    | eapply L_dot0_dot0; eassumption
    | cbn [L]; kw
    | cbn [L]; right; left; kw
    | cbn [L]; right; right; left; kw
    | cbn [L]; right; right; right; kw
    ].
Qed.

Definition top_text_ok (data : bytes) (idx : N) (s : sc) : Prop :=
  match s_stack s with
  | (LiteralBegin, b) :: _ => L (s_step s) (text data b idx)
  | _ => True
  end.

Definition below (n : N) (pb : ev * N) : Prop := (snd pb < n)%N.

Record Inv (data : bytes) (idx : N) (s : sc) : Prop := mkInv {
  inv_finds : s_finds s = [];
  inv_c : cinv (s_step s) (s_ret s) (map fst (s_stack s)) (s_ann s);
  inv_below : Forall (below idx) (s_stack s);
  inv_text : top_text_ok data idx s }.

Lemma process_found_stack i stk e stk' x : process_found i stk e = Some (stk', x) ->
  stk' = stk \/ stk' = (e, i) :: stk \/ exists pb, stk = pb :: stk'.
Proof.
  unfold process_found. destruct e; cbn [is_opening]; intros H;
    try (inversion H; subst; auto; fail);
    (destruct stk as [|[p b] rest]; [discriminate H|]);
    (destruct (nonscalar_pair p _); [|destruct (scalar_pair p _); [|discriminate H]]);
    inversion H; subst; right; right; eexists; reflexivity.
Qed.

Lemma pf_below i : forall fs stk stk' evs, Forall (below i) stk ->
  pf i stk fs = Some (stk', evs) -> Forall (below (N.succ i)) stk'.
Proof.
  assert (M : forall l, Forall (below i) l -> Forall (below (N.succ i)) l).
  { intros l. apply Forall_impl. intros a. unfold below. lia. }
  assert (G : forall fs stk stk' evs, Forall (below (N.succ i)) stk ->
              pf i stk fs = Some (stk', evs) -> Forall (below (N.succ i)) stk').
  { induction fs as [|e r IH]; intros stk stk' evs Hs H; cbn [pf] in H.
    - inversion H; subst. exact Hs.
    - destruct (process_found i stk e) as [[s1 x]|] eqn:Ep; [|discriminate H].
      destruct (pf i s1 r) as [[s2 l]|] eqn:Ep2; [|discriminate H]. inversion H; subst.
      apply (IH s1 stk' l); [|exact Ep2].
      destruct (process_found_stack _ _ _ _ _ Ep) as [->|[->|[pb ->]]].
      + exact Hs.
      + constructor; [unfold below; cbn [snd]; lia|exact Hs].
      + inversion Hs; assumption. }
  intros fs stk stk' evs Hs H. apply (G fs stk stk' evs); [apply M; exact Hs|exact H].
Qed.

Lemma Lbegin_L q c : Lbegin q c = true -> L q [c].
Proof.
  destruct q; cbn [Lbegin]; try discriminate; intros H; cbn [L].
  - exists c, []. auto.
  - rewrite (ch_eq c 45 x2d eq_refl H). reflexivity.
  - exists false, c, []. auto.
  - exists false. rewrite (ch_eq c 48 x30 eq_refl H). reflexivity.
  - rewrite (ch_eq c 116 x74 eq_refl H). reflexivity.
  - rewrite (ch_eq c 102 x66 eq_refl H). reflexivity.
  - rewrite (ch_eq c 110 x6e eq_refl H). reflexivity.
Qed.

Lemma cinv_lit_top q ret x ann : cinv q ret (LiteralBegin :: x) ann -> LiteralBegin :: x = litstk.
Proof.
  intros H. destruct q; cbn [cinv] in H; decomp; try inv_base; try discriminate;
    try assumption; try congruence.
Qed.

Lemma dispatch_eq f lc data idx s c nxt :
  (forall s', step1 lc data idx s c nxt <> SRedo s') ->
  dispatch f lc data idx s c nxt = step1 lc data idx s c nxt.
Proof.
  intros H. destruct f; cbn [dispatch]; destruct (step1 lc data idx s c nxt); try reflexivity;
    exfalso; eapply H; reflexivity.
Qed.

Definition step_good (data : bytes) (idx : N) (s : sc) (c : byte) (r : sres) : Prop :=
  match r with
  | SOk s1 =>
    s_stack s1 = s_stack s /\ shape_ok (s_finds s1) /\ noet (s_finds s1) = true /\
    exists stk' evs, pf idx (s_stack s) (s_finds s1) = Some (stk', evs) /\
                     Inv data (N.succ idx) (set_finds [] (set_stack stk' s1))
  | SErr _ pos => pos = idx \/ exists e rest, s_stack s = (e, pos) :: rest
  | SEos => True
  | SPanic | SRedo _ => False
  end.

Lemma step1_good lc data idx s c nxt : Inv data idx s ->
  nth_error data (N.to_nat idx) = Some c ->
  step_good data idx s c (step1 lc data idx s c nxt).
Proof.
  intros [Hf Hc Hb Ht] Hn.
  assert (Hlen : (idx < N.of_nat (length data))%N).
  { assert (N.to_nat idx < length data) by (apply nth_error_Some; congruence). lia. }
  destruct s as [q ret stk uniq finds ann unf trail]. cbn_sc_in Hf. cbn_sc_in Hc. cbn_sc_in Hb.
  unfold top_text_ok in Ht. cbn_sc_in Ht. subst finds.
  pose proof (step1_ctl lc data idx q ret stk uniq ann unf trail c nxt Hc) as A.
  assert (Hv : forall b rest, stk = (LiteralBegin, b) :: rest -> final q = true ->
               exists v, slice data b idx = Some v /\ enum_item v <> None).
  { intros b rest -> Hfin. exists (text data b idx).
    pose proof (Forall_inv Hb) as Hb1. unfold below in Hb1. cbn [snd] in Hb1.
    split; [apply slice_text; lia|]. apply (L_final q); assumption. }
  specialize (A Hv). unfold step_good.
  destruct (step1 lc data idx (mksc q ret stk uniq [] ann unf trail) c nxt) as [s1| | | |] eqn:E;
    try exact A.
  destruct A as [A1 [A2 [A2' [stk' [evs [A3 [A4 A5]]]]]]]. cbn_sc.
  split; [exact A1|]. split; [exact A2|]. split; [exact A2'|]. exists stk', evs. split; [exact A3|].
  constructor; cbn_sc.
  - reflexivity.
  - exact A4.
  - eapply pf_below; eassumption.
  - unfold top_text_ok. cbn_sc.
    destruct stk' as [|[e b'] rest']; [exact I|]. destruct e; try exact I.
    cbn [map fst] in A4, A5. specialize (A5 (cinv_lit_top _ _ _ _ A4)).
    destruct A5 as [[F1 F2]|[F1 F2]].
    + clear A1. rewrite F1 in A3. cbn [pf] in A3. injection A3 as Es Ee. subst stk.
      pose proof (Forall_inv Hb) as Hb1. unfold below in Hb1. cbn [snd] in Hb1.
      rewrite (text_snoc data b' idx c) by (try lia; exact Hn).
      apply (step1_lit lc data idx (mksc q ret ((LiteralBegin, b') :: rest') uniq [] ann unf trail)
               c nxt s1 _ b' rest'); cbn_sc; try reflexivity; try assumption.
      intros ->. cbn [cinv] in Hc. tauto.
    + clear A1. rewrite F1 in A3. cbn [pf process_found is_opening] in A3.
      injection A3 as Es Eb Ee. subst b'.
      rewrite (text_one data idx c Hn). apply Lbegin_L. exact F2.
Qed.

Lemma step_good_step lc data idx s c nxt : Inv data idx s ->
  nth_error data (N.to_nat idx) = Some c ->
  step lc data idx s c nxt = step1 lc data idx s c nxt /\
  step_good data idx s c (step lc data idx s c nxt).
Proof.
  intros HI Hn. pose proof (step1_good lc data idx s c nxt HI Hn) as G.
  assert (E : step lc data idx s c nxt = step1 lc data idx s c nxt).
  { unfold step. apply dispatch_eq. intros s' E. rewrite E in G. exact G. }
  rewrite E. split; [reflexivity|exact G].
Qed.

(* ================================================================== *)
(* 3. the run                                                          *)
(* ================================================================== *)
Definition rres := (list lexev * outcome * sc * N)%type.
Definition r_evs (r : rres) : list lexev := fst (fst (fst r)).
Definition r_out (r : rres) : outcome := snd (fst (fst r)).
Definition r_sc (r : rres) : sc := snd (fst r).
Definition r_idx (r : rres) : N := snd r.

(* [run] with an explicit look-ahead byte after the last consumed byte: lets a run be cut
   in two *)
Fixpoint runl (lc : bool) (data : bytes) (s : sc) (idx : N) (bs : bytes) (la : option byte)
         (racc : list lexev) : rres :=
  match bs with
  | [] => (racc, Done, s, idx)
  | c :: r =>
    match step lc data idx s c (match r with [] => la | d :: _ => Some d end) with
    | SOk s1 =>
      let '(stk', racc', ok) := process_finds idx (s_stack s1) (s_finds s1) racc in
      if ok then runl lc data (set_finds [] (set_stack stk' s1)) (N.succ idx) r la racc'
      else (racc', Panic, s1, idx)
    | SErr code pos => (racc, Err code pos, s, idx)
    | SEos => (racc, Eos, s, idx)
    | SPanic | SRedo _ => (racc, Panic, s, idx)
    end
  end.

Lemma run_runl lc data : forall bs s idx racc,
  run lc data s idx bs racc = runl lc data s idx bs None racc.
Proof.
  induction bs as [|c r IH]; intros s idx racc; cbn [run runl]; [reflexivity|].
  replace (match r with [] => None | d :: _ => Some d end) with (hd_error r) by (destruct r; reflexivity).
  destruct (step lc data idx s c (hd_error r)); try reflexivity.
  destruct (process_finds idx (s_stack s0) (s_finds s0) racc) as [[stk' racc'] ok].
  destruct ok; [apply IH|reflexivity].
Qed.

Lemma runl_app lc data : forall b1 b2 s idx la racc,
  runl lc data s idx (b1 ++ b2) la racc =
  let r1 := runl lc data s idx b1 (match b2 with [] => la | d :: _ => Some d end) racc in
  match r_out r1 with
  | Done => runl lc data (r_sc r1) (r_idx r1) b2 la (r_evs r1)
  | _ => r1
  end.
Proof.
  induction b1 as [|c r IH]; intros b2 s idx la racc.
  - reflexivity.
  - cbn [app runl].
    replace (match r ++ b2 with [] => la | d :: _ => Some d end)
      with (match r with [] => match b2 with [] => la | d :: _ => Some d end | d :: _ => Some d end)
      by (destruct r; reflexivity).
    destruct (step lc data idx s c _); try reflexivity.
    destruct (process_finds idx (s_stack s0) (s_finds s0) racc) as [[stk' racc'] ok].
    destruct ok; [apply IH|reflexivity].
Qed.

Lemma skipn_cons_nth {A} (l : list A) : forall n c r, skipn n l = c :: r ->
  nth_error l n = Some c /\ skipn (S n) l = r.
Proof.
  induction l as [|x l IH]; intros [|n] c r H; cbn [skipn] in H; try discriminate.
  - inversion H; subst. split; reflexivity.
  - destruct (IH n c r H) as [H1 H2]. split; [exact H1|exact H2].
Qed.

Lemma hd_skipn {A} (l : list A) n : hd_error (skipn n l) = nth_error l n.
Proof.
  revert n. induction l as [|x l IH]; intros [|n]; cbn [skipn nth_error hd_error]; try reflexivity.
  apply IH.
Qed.

Lemma Nsucc_nat n : N.to_nat (N.succ n) = S (N.to_nat n).
Proof. lia. Qed.

(* how a run ends: after its last byte, or at a byte whose step reports an error *)
Definition run_end_at (lc : bool) (data : bytes) (last : N) (r : rres) : Prop :=
  let at_byte (x : sres) :=
    (r_idx r < last)%N /\
    exists c, nth_error data (N.to_nat (r_idx r)) = Some c /\
      step1 lc data (r_idx r) (r_sc r) c (nth_error data (S (N.to_nat (r_idx r)))) = x in
  match r_out r with
  | Done => r_idx r = last
  | Err c p => at_byte (SErr c p)
  | Eos => at_byte SEos
  | Panic => False
  end.
Definition run_end (lc : bool) (data : bytes) (r : rres) : Prop :=
  run_end_at lc data (N.of_nat (length data)) r.

Section RunInv.
Variable lc : bool.
Variable data : bytes.
Variable J : N -> sc -> list lexev -> Prop.
Hypothesis Jstep : forall idx s racc c s1 stk' evs,
  Inv data idx s -> J idx s racc ->
  nth_error data (N.to_nat idx) = Some c ->
  step1 lc data idx s c (nth_error data (S (N.to_nat idx))) = SOk s1 ->
  pf idx (s_stack s) (s_finds s1) = Some (stk', evs) ->
  shape_ok (s_finds s1) -> noet (s_finds s1) = true ->
  J (N.succ idx) (set_finds [] (set_stack stk' s1)) (rev evs ++ racc).

Lemma runl_invariant : forall bs s idx la racc,
  firstn (length bs) (skipn (N.to_nat idx) data) = bs ->
  (N.to_nat idx + length bs <= length data) ->
  la = nth_error data (N.to_nat idx + length bs) ->
  Inv data idx s -> J idx s racc ->
  let r := runl lc data s idx bs la racc in
  Inv data (r_idx r) (r_sc r) /\ J (r_idx r) (r_sc r) (r_evs r) /\
  run_end_at lc data (idx + N.of_nat (length bs))%N r /\
  (idx <= r_idx r <= idx + N.of_nat (length bs))%N.
Proof.
  induction bs as [|c r IH]; intros s idx la racc Hsk Hle Hla HI HJ; cbn [runl].
  - cbv zeta. unfold run_end_at; unfold r_idx, r_sc, r_evs, r_out. cbn [fst snd length].
    split; [exact HI|]. split; [exact HJ|]. split; lia.
  - cbn [length] in Hsk, Hle, Hla.
    destruct (skipn (N.to_nat idx) data) as [|c0 t] eqn:Esk; [discriminate Hsk|].
    cbn [firstn] in Hsk. injection Hsk as Hc0 Hsk. subst c0.
    destruct (skipn_cons_nth data _ c t Esk) as [Hn Hsk'].
    assert (Hnx : match r with [] => la | d :: _ => Some d end = nth_error data (S (N.to_nat idx))).
    { rewrite <- (hd_skipn data), Hsk'. destruct r as [|d r'].
      - rewrite Hla, <- (hd_skipn data). cbn [length].
        replace (N.to_nat idx + 1) with (S (N.to_nat idx)) by lia. rewrite Hsk'. reflexivity.
      - destruct t; [discriminate Hsk|]. cbn [length firstn] in Hsk. injection Hsk as -> _. reflexivity. }
    rewrite Hnx.
    destruct (step_good_step lc data idx s c (nth_error data (S (N.to_nat idx))) HI Hn) as [Es G].
    rewrite Es in G. rewrite Es.
    destruct (step1 lc data idx s c (nth_error data (S (N.to_nat idx)))) as [s1|code pos| | |] eqn:E1;
      cbn [step_good] in G; try contradiction.
    + destruct G as [G1 [G2 [G2' [stk' [evs [G3 G4]]]]]].
      pose proof (process_finds_pf idx (s_finds s1) (s_stack s1) racc) as P.
      rewrite G1, G3 in P. rewrite G1, P.
      specialize (IH (set_finds [] (set_stack stk' s1)) (N.succ idx) la (rev evs ++ racc)).
      rewrite Nsucc_nat in IH. rewrite Hsk' in IH.
      specialize (IH Hsk ltac:(lia) ltac:(rewrite Hla; f_equal; lia) G4
        (Jstep idx s racc c s1 stk' evs HI HJ Hn E1 G3 G2 G2')).
      cbv zeta in IH. destruct IH as [I1 [I2 [I3 I4]]].
      split; [exact I1|]. split; [exact I2|]. split.
      * replace (idx + N.of_nat (length (c :: r)))%N with (N.succ idx + N.of_nat (length r))%N
          by (cbn [length]; lia).
        exact I3.
      * cbn [length]. lia.
    + cbv zeta. unfold run_end_at; unfold r_idx, r_sc, r_evs, r_out. cbn [fst snd].
      split; [exact HI|]. split; [exact HJ|]. split; [|cbn [length]; lia].
      split; [cbn [length]; lia|]. exists c. split; assumption.
    + cbv zeta. unfold run_end_at; unfold r_idx, r_sc, r_evs, r_out. cbn [fst snd].
      split; [exact HI|]. split; [exact HJ|]. split; [|cbn [length]; lia].
      split; [cbn [length]; lia|]. exists c. split; assumption.
Qed.
End RunInv.

Lemma Inv0 data : Inv data 0%N sc0.
Proof. constructor; cbn; auto. Qed.

Lemma tail_out unf stk : forall index size racc,
  snd (tail unf stk index size racc) = Eos \/ exists c p, snd (tail unf stk index size racc) = Err c p.
Proof.
  induction stk as [|[t b] rest IH]; intros index size racc; cbn [tail].
  - left; reflexivity.
  - destruct t; try (right; do 2 eexists; reflexivity); try apply IH.
    destruct unf; [right; do 2 eexists; reflexivity|apply IH].
Qed.

Lemma run0_invariant lc bs (J : N -> sc -> list lexev -> Prop) :
  (forall idx s racc c s1 stk' evs,
    Inv bs idx s -> J idx s racc ->
    nth_error bs (N.to_nat idx) = Some c ->
    step1 lc bs idx s c (nth_error bs (S (N.to_nat idx))) = SOk s1 ->
    pf idx (s_stack s) (s_finds s1) = Some (stk', evs) ->
    shape_ok (s_finds s1) -> noet (s_finds s1) = true ->
    J (N.succ idx) (set_finds [] (set_stack stk' s1)) (rev evs ++ racc)) ->
  J 0%N sc0 [] ->
  let r := run lc bs sc0 0%N bs [] in
  Inv bs (r_idx r) (r_sc r) /\ J (r_idx r) (r_sc r) (r_evs r) /\ run_end lc bs r /\
  (r_idx r <= N.of_nat (length bs))%N.
Proof.
  intros Hstep H0. rewrite run_runl.
  pose proof (runl_invariant lc bs J Hstep bs sc0 0%N None []) as H.
  cbn [N.to_nat skipn plus] in H. rewrite firstn_all in H.
  specialize (H eq_refl (le_n _)).
  assert (Hla : None = nth_error bs (length bs)).
  { symmetry. apply nth_error_None. lia. }
  specialize (H Hla (Inv0 bs) H0).
  cbv zeta in *. destruct H as [H1 [H2 [H3 H4]]].
  split; [exact H1|]. split; [exact H2|]. split; [exact H3|lia].
Qed.

(* the end-of-input rule of [scan]: a text that ends right after the first byte of // or /*
   is refused before processTail looks at the stack (fix 0219b8c) *)
Definition etail (s : sc) (idx : N) (racc : list lexev) : list lexev * outcome :=
  match s_step s with
  | StAnyAnnotationStart => (racc, Err code_unexpected_eof (idx - 1)%N)
  | _ => tail (s_unf s) (s_stack s) idx idx racc
  end.

Lemma etail_cases s idx racc :
  (s_step s = StAnyAnnotationStart /\ etail s idx racc = (racc, Err code_unexpected_eof (idx - 1)%N)) \/
  (s_step s <> StAnyAnnotationStart /\ etail s idx racc = tail (s_unf s) (s_stack s) idx idx racc).
Proof.
  unfold etail. destruct (s_step s); try (right; split; [discriminate|reflexivity]).
  left. split; reflexivity.
Qed.

Lemma etail_out s idx racc :
  snd (etail s idx racc) = Eos \/ exists c p, snd (etail s idx racc) = Err c p.
Proof.
  destruct (etail_cases s idx racc) as [[_ ->]|[_ ->]]; [right; do 2 eexists; reflexivity|apply tail_out].
Qed.

Lemma scan_cases lc bs :
  scan lc bs =
  let r := run lc bs sc0 0%N bs [] in
  match r_out r with
  | Done => let t := etail (r_sc r) (r_idx r) (r_evs r) in
            (frev (fst t), snd t)
  | o => (frev (r_evs r), o)
  end.
Proof.
  unfold scan. destruct (run lc bs sc0 0%N bs []) as [[[racc o] s] idx].
  unfold r_out, r_sc, r_idx, r_evs. cbn [fst snd].
  destruct o; try reflexivity.
  unfold etail. destruct (s_step s); try reflexivity;
    destruct (tail (s_unf s) (s_stack s) idx idx racc) as [racc' o']; reflexivity.
Qed.

(* P1 *)
Theorem enum_scan_no_panic : forall lc bs, snd (scan lc bs) <> Panic.
Proof.
  intros lc bs. rewrite scan_cases. cbv zeta.
  destruct (run0_invariant lc bs (fun _ _ _ => True)) as [_ [_ [H _]]]; [auto|exact I|].
  unfold run_end, run_end_at in H.
  destruct (r_out (run lc bs sc0 0%N bs [])) eqn:Eo; cbn [snd]; try discriminate.
  - destruct (etail_out (r_sc (run lc bs sc0 0%N bs [])) (r_idx (run lc bs sc0 0%N bs []))
              (r_evs (run lc bs sc0 0%N bs []))) as [->|[c [p ->]]]; discriminate.
  - contradiction.
Qed.

(* ================================================================== *)
(* 4. spans                                                            *)
(* ================================================================== *)
Definition good (n : N) (e : lexev) : Prop :=
  (e_begin e < n /\ e_end e < n /\ e_begin e <= e_end e + 1 /\
   (e_type e <> MultiLineAnnotationTextEnd -> e_begin e <= e_end e))%N.

Lemma good_mono n m e : (n <= m)%N -> good n e -> good m e.
Proof. unfold good. intros H [H1 [H2 [H3 H4]]]. split; [lia|]. split; [lia|]. split; [lia|exact H4]. Qed.

Lemma process_found_open i stk e : opn e = true ->
  exists stk', process_found i stk e = Some (stk', mkev e i i) /\ (stk' = stk \/ stk' = (e, i) :: stk).
Proof.
  intros H. destruct e; try discriminate H; eexists; (split; [reflexivity|]); auto.
Qed.

Lemma process_found_close i stk e stk' x : opn e = false -> process_found i stk e = Some (stk', x) ->
  exists p b, stk = (p, b) :: stk' /\ e_type x = e /\ e_begin x = b /\
              (e_end x = i \/ e_end x = (i - 1)%N) /\
              (nonscalar_pair p e = true -> e_end x = i) /\
              (nonscalar_pair p e = false -> e_end x = (i - 1)%N) /\
              (nonscalar_pair p e || scalar_pair p e)%bool = true.
Proof.
  intros Ho H.
  destruct e; try discriminate Ho; cbn [process_found is_opening] in H;
    (destruct stk as [|[p b] rest]; [discriminate H|]);
    (destruct (nonscalar_pair p _) eqn:E1;
     [|destruct (scalar_pair p _) eqn:E2; [|discriminate H]]);
    inversion H; subst; exists p, b; rewrite ?E1, ?E2; cbn [e_type e_begin e_end orb];
    repeat split; auto; discriminate.
Qed.

Lemma pf_open i : forall fs stk stk' evs, forallb opn fs = true ->
  pf i stk fs = Some (stk', evs) -> Forall (good (N.succ i)) evs.
Proof.
  induction fs as [|e r IH]; intros stk stk' evs Ho H; cbn [pf] in H.
  - inversion H; subst. constructor.
  - cbn [forallb] in Ho. apply andb_true_iff in Ho. destruct Ho as [Ho1 Ho2].
    destruct (process_found_open i stk e Ho1) as [s1 [Hp _]]. rewrite Hp in H.
    destruct (pf i s1 r) as [[s2 l]|] eqn:Ep; [|discriminate H]. inversion H; subst.
    constructor; [|eapply IH; eassumption].
    unfold good. cbn [e_begin e_end]. repeat split; lia.
Qed.

Lemma pf_spans_shape i : forall fs stk stk' evs, shape fs = true ->
  Forall (below i) stk -> pf i stk fs = Some (stk', evs) -> Forall (good (N.succ i)) evs.
Proof.
  induction fs as [|e r IH]; intros stk stk' evs Hsh Hs H.
  - cbn [pf] in H. inversion H; subst. constructor.
  - cbn [shape] in Hsh. destruct (opn e) eqn:Ho.
    + apply (pf_open i (e :: r) stk stk' evs); [cbn [forallb]; rewrite Ho, Hsh; reflexivity|exact H].
    + cbn [pf] in H. destruct (process_found i stk e) as [[s1 x]|] eqn:Ep; [|discriminate H].
      destruct (pf i s1 r) as [[s2 l]|] eqn:Ep2; [|discriminate H]. inversion H; subst.
      destruct (process_found_close i stk e s1 x Ho Ep) as [p [b [Hst [_ [Hb [He _]]]]]].
      subst stk. pose proof (Forall_inv Hs) as Hb1. pose proof (Forall_inv_tail Hs) as Hs1.
      unfold below in Hb1. cbn [snd] in Hb1.
      constructor; [|eapply IH; eassumption].
      unfold good. destruct He as [He|He]; rewrite He; repeat split; lia.
Qed.

Lemma pf_spans i fs stk stk' evs : shape_ok fs ->
  Forall (below i) stk -> pf i stk fs = Some (stk', evs) -> Forall (good (N.succ i)) evs.
Proof.
  intros [Hsh| ->] Hs H; [eapply pf_spans_shape; eassumption|].
  cbn [pf process_found is_opening nonscalar_pair scalar_pair] in H. inversion H; subst.
  constructor; [|constructor; [|constructor]]; unfold good; cbn [e_begin e_end e_type];
    repeat split; try lia; intros X; congruence.
Qed.

Definition Jspan (idx : N) (s : sc) (racc : list lexev) : Prop := Forall (good idx) racc.

Lemma Jspan_step lc data idx s racc c s1 stk' evs :
  Inv data idx s -> Jspan idx s racc ->
  nth_error data (N.to_nat idx) = Some c ->
  step1 lc data idx s c (nth_error data (S (N.to_nat idx))) = SOk s1 ->
  pf idx (s_stack s) (s_finds s1) = Some (stk', evs) ->
  shape_ok (s_finds s1) -> noet (s_finds s1) = true ->
  Jspan (N.succ idx) (set_finds [] (set_stack stk' s1)) (rev evs ++ racc).
Proof.
  intros HI HJ _ _ Hp Hsh _. unfold Jspan in *. apply Forall_app. split.
  - apply Forall_rev. eapply pf_spans; [exact Hsh|exact (inv_below _ _ _ HI)|exact Hp].
  - eapply Forall_impl; [|exact HJ]. intros a. apply good_mono. lia.
Qed.

(* the end-of-input rule *)
Lemma tail_acc unf stk : forall index size racc,
  tail unf stk index size racc =
  (fst (tail unf stk index size []) ++ racc, snd (tail unf stk index size [])).
Proof.
  induction stk as [|[t b] rest IH]; intros index size racc; cbn [tail]; [reflexivity|].
  destruct t; try reflexivity;
    try (rewrite IH; rewrite (IH _ _ [_]); cbn [fst snd]; rewrite <- app_assoc; reflexivity).
  destruct unf; [reflexivity|].
  rewrite IH; rewrite (IH _ _ [_]); cbn [fst snd]; rewrite <- app_assoc; reflexivity.
Qed.

Lemma etail_acc s idx racc :
  etail s idx racc = (fst (etail s idx []) ++ racc, snd (etail s idx [])).
Proof.
  destruct (etail_cases s idx racc) as [[E ->]|[E ->]];
    destruct (etail_cases s idx []) as [[E' ->]|[E' ->]]; try contradiction.
  - reflexivity.
  - apply tail_acc.
Qed.

Definition span_ok (size : N) (e : lexev) : Prop :=
  (e_begin e < size)%N /\
  match e_type e with
  | MultiLineAnnotationTextEnd => (e_begin e <= e_end e + 1)%N
  | _ => (e_begin e <= e_end e)%N
  end /\
  match e_type e with
  | InlineAnnotationEnd => (e_end e <= size)%N
  | _ => (e_end e < size)%N
  end.

Lemma good_span_ok n size e : (n <= size)%N -> good n e -> span_ok size e.
Proof.
  unfold good, span_ok. intros H [H1 [H2 [H3 H4]]]. split; [lia|]. split.
  - destruct (e_type e); try (apply H4; discriminate). exact H3.
  - destruct (e_type e); lia.
Qed.

Lemma tail_spec data size s : Inv data size s ->
  Forall (span_ok size) (fst (tail (s_unf s) (s_stack s) size size [])) /\
  (snd (tail (s_unf s) (s_stack s) size size []) = Eos \/
   exists c, snd (tail (s_unf s) (s_stack s) size size []) = Err c (size - 1)%N /\ (0 < size)%N).
Proof.
  intros [Hf Hc Hb Ht]. destruct s as [q ret stk uniq finds ann unf trail].
  cbn_sc_in Hc. cbn_sc_in Hb. cbn_sc. clear Ht Hf.
  destruct q; cbn [cinv] in Hc; unfold litstk in *; decomp; try inv_base; subst; inv_map;
    cbn [tail]; try (destruct unf); cbn [tail fst snd];
    repeat match goal with
    | H : Forall (below _) (_ :: _) |- _ =>
      let H1 := fresh "Hb" in pose proof (Forall_inv H) as H1; apply Forall_inv_tail in H;
      unfold below in H1; cbn [snd] in H1
    end;
    (split;
     [ repeat constructor; unfold span_ok; cbn [e_begin e_end e_type]; lia
     | first [left; reflexivity | right; eexists; split; [reflexivity|lia]] ]).
Qed.

(* nothing has been read yet only in the first state: the position idx - 1 of the refusal
   of an unfinished annotation opener exists *)
Lemma etail_spec data size s : Inv data size s -> (size = 0%N -> s_step s = SBegin) ->
  Forall (span_ok size) (fst (etail s size [])) /\
  (snd (etail s size []) = Eos \/
   exists c, snd (etail s size []) = Err c (size - 1)%N /\ (0 < size)%N).
Proof.
  intros HI H0. destruct (etail_cases s size []) as [[E ->]|[E ->]]; [|apply (tail_spec data); exact HI].
  cbn [fst snd]. split; [constructor|]. right. eexists. split; [reflexivity|].
  destruct (N.eq_dec size 0) as [Z|Z]; [|lia]. rewrite (H0 Z) in E. discriminate E.
Qed.

Lemma run_spans lc bs :
  let r := run lc bs sc0 0%N bs [] in
  Inv bs (r_idx r) (r_sc r) /\
  (Forall (good (r_idx r)) (r_evs r) /\ (r_idx r = 0%N -> s_step (r_sc r) = SBegin)) /\
  run_end lc bs r /\
  (r_idx r <= N.of_nat (length bs))%N.
Proof.
  apply (run0_invariant lc bs (fun idx s racc => Jspan idx s racc /\ (idx = 0%N -> s_step s = SBegin))).
  - intros idx s racc c s1 stk' evs HI [HJ _] Hn Hs Hp Hsh Hne. split.
    + eapply Jspan_step; eassumption.
    + intros Z. exfalso. lia.
  - split; [constructor|reflexivity].
Qed.

(* P2 *)
Theorem enum_spans_inside : forall lc bs evs o, scan lc bs = (evs, o) ->
  Forall (span_ok (N.of_nat (length bs))) evs.
Proof.
  intros lc bs evs o H. rewrite scan_cases in H. cbv zeta in H.
  destruct (run_spans lc bs) as [HI [[HG H0] [HE Hle]]]. cbv zeta in *.
  set (r := run lc bs sc0 0%N bs []) in *.
  assert (G0 : Forall (span_ok (N.of_nat (length bs))) (r_evs r)).
  { eapply Forall_impl; [|exact HG]. intros a. apply good_span_ok. exact Hle. }
  destruct (r_out r) eqn:Eo.
  - unfold run_end, run_end_at in HE. rewrite Eo in HE. rewrite HE in *.
    rewrite etail_acc in H. cbn [fst snd] in H. inversion H; subst evs.
    rewrite frev_rev. apply Forall_rev. apply Forall_app. split; [|exact G0].
    exact (proj1 (etail_spec bs _ _ HI H0)).
  - inversion H; subst. rewrite frev_rev. apply Forall_rev. exact G0.
  - inversion H; subst. rewrite frev_rev. apply Forall_rev. exact G0.
  - inversion H; subst. rewrite frev_rev. apply Forall_rev. exact G0.
Qed.

Theorem enum_error_position_inside : forall lc bs c p,
  snd (scan lc bs) = Err c p -> (N.to_nat p < length bs)%nat.
Proof.
  intros lc bs c p H. rewrite scan_cases in H. cbv zeta in H.
  destruct (run_spans lc bs) as [HI [[_ H0] [HE Hle]]]. cbv zeta in *.
  set (r := run lc bs sc0 0%N bs []) in *.
  unfold run_end, run_end_at in HE. destruct (r_out r) eqn:Eo; cbn [snd] in H; try discriminate H.
  - rewrite HE in *. rewrite etail_acc in H. cbn [snd] in H.
    destruct (etail_spec bs _ _ HI H0) as [_ [T|[c' [T Hpos]]]].
    + rewrite T in H. discriminate H.
    + rewrite T in H. inversion H; subst. lia.
  - inversion H; subst code pos. destruct HE as [_ [ch [Hn Hs]]].
    assert (Hlt : N.to_nat (r_idx r) < length bs) by (apply nth_error_Some; congruence).
    pose proof (step1_good lc bs (r_idx r) (r_sc r) ch (nth_error bs (S (N.to_nat (r_idx r)))) HI Hn) as G.
    rewrite Hs in G. cbn [step_good] in G. destruct G as [->|[e [rest Hst]]]; [exact Hlt|].
    pose proof (inv_below _ _ _ HI) as Hb. rewrite Hst in Hb. apply Forall_inv in Hb.
    unfold below in Hb. cbn [snd] in Hb. lia.
Qed.

(* the exceptions of [span_ok] are real *)
Example enum_span_exceptions :
  (* an unterminated inline annotation: the closing event ends at the size *)
  map (fun e => (e_type e, e_begin e, e_end e)) (fst (scan false [x5b; x5d; x2f; x2f; x61]))
  = [(ArrayBegin, 0, 0); (ArrayEnd, 0, 1); (InlineAnnotationBegin, 3, 3);
     (InlineAnnotationTextBegin, 4, 4); (InlineAnnotationTextEnd, 4, 4);
     (InlineAnnotationEnd, 3, 5)]%N /\
  (* the empty multi-line annotation: the text ends before it begins *)
  map (fun e => (e_type e, e_begin e, e_end e)) (fst (scan false [x5b; x5d; x2f; x2a; x2a; x2f]))
  = [(ArrayBegin, 0, 0); (ArrayEnd, 0, 1); (MultiLineAnnotationBegin, 3, 3);
     (MultiLineAnnotationTextBegin, 4, 4); (MultiLineAnnotationTextEnd, 4, 3);
     (MultiLineAnnotationEnd, 3, 5)]%N.
Proof. vm_compute. split; reflexivity. Qed.

(* ---- P1 for the consumers ---- *)
Lemma scan_not_done lc bs : snd (scan lc bs) <> Done.
Proof.
  rewrite scan_cases. cbv zeta.
  destruct (r_out (run lc bs sc0 0%N bs [])) eqn:Eo; cbn [snd]; try discriminate.
  match goal with |- snd (etail ?s ?i ?a) <> _ =>
    destruct (etail_out s i a) as [->|[c [p ->]]]; discriminate end.
Qed.

Lemma length_loop_le size : forall evs len, Forall (span_ok size) evs -> (len <= size)%N ->
  (length_loop size evs len <= size)%N.
Proof.
  induction evs as [|e r IH]; intros len Hs Hl; cbn [length_loop]; [exact Hl|].
  pose proof (Forall_inv Hs) as [H1 [H2 H3]]. apply Forall_inv_tail in Hs.
  destruct (e_type e) eqn:Et; try (apply IH; [exact Hs|];
    destruct (N.eqb (e_end e) size) eqn:Ee; lia).
  lia.
Qed.

Theorem enum_len_no_panic : forall bs, fst (enum_len bs) <> VPanic.
Proof.
  intros bs. unfold enum_len.
  pose proof (enum_scan_no_panic true bs) as Hp. pose proof (scan_not_done true bs) as Hd.
  pose proof (enum_spans_inside true bs) as Hs.
  destruct (scan true bs) as [evs o]. cbn [snd] in Hp, Hd. specialize (Hs evs o eq_refl).
  destruct o; try congruence; cbn [fst]; try discriminate.
  pose proof (length_loop_le (N.of_nat (length bs)) evs 0%N Hs ltac:(lia)) as Hl.
  replace (N.ltb (N.of_nat (length bs)) (length_loop (N.of_nat (length bs)) evs 0)) with false by lia.
  cbn [fst]. discriminate.
Qed.

Lemma check_events_no_panic bs : forall evs last,
  Forall (span_ok (N.of_nat (length bs))) evs -> last <> VPanic ->
  check_events bs evs last <> VPanic.
Proof.
  induction evs as [|e r IH]; intros last Hs Hl; cbn [check_events]; [exact Hl|].
  pose proof (Forall_inv Hs) as [H1 [H2 H3]]. apply Forall_inv_tail in Hs.
  assert (Hsl : e_type e = LiteralEnd \/ e_type e = InlineAnnotationTextEnd \/
                e_type e = MultiLineAnnotationTextEnd ->
                slice bs (e_begin e) (e_end e + 1) <> None).
  { intros Ht. unfold slice.
    replace (N.leb (e_begin e) (e_end e + 1) && N.leb (e_end e + 1) (N.of_nat (length bs)))%bool
      with true; [discriminate|].
    destruct Ht as [Ht|[Ht|Ht]]; rewrite Ht in H2, H3; lia. }
  unfold check_event.
  destruct (e_type e) eqn:Et; try (apply IH; assumption);
    (destruct (slice bs (e_begin e) (e_end e + 1)) as [v|] eqn:Es; [|exfalso; apply Hsl; auto]).
  - destruct (guess_schema_type_ok v); [apply IH; assumption|discriminate].
  - apply IH; assumption.
  - apply IH; assumption.
Qed.

Theorem enum_check_no_panic : forall bs, enum_check bs <> VPanic.
Proof.
  intros bs. unfold enum_check.
  pose proof (enum_scan_no_panic false bs) as Hp. pose proof (scan_not_done false bs) as Hd.
  pose proof (enum_spans_inside false bs) as Hs.
  destruct (scan false bs) as [evs o]. cbn [snd] in Hp, Hd. specialize (Hs evs o eq_refl).
  apply check_events_no_panic; [exact Hs|]. destruct o; try congruence; discriminate.
Qed.

(* ================================================================== *)
(* 5. Len                                                              *)
(* ================================================================== *)
Definition trimlen (l : bytes) : nat := length (trim_blank_rev (frev l)).

Lemma trim_blank_rev_spec rl : exists bl, rl = bl ++ trim_blank_rev rl /\ forallb is_blank bl = true /\
  match trim_blank_rev rl with [] => True | c :: _ => is_blank c = false end.
Proof.
  induction rl as [|c r IH]; cbn [trim_blank_rev].
  - exists []. auto.
  - destruct (is_blank c) eqn:E.
    + destruct IH as [bl [H1 [H2 H3]]]. exists (c :: bl). cbn [app forallb]. rewrite E, H2.
      split; [f_equal; exact H1|]. split; [reflexivity|exact H3].
    + exists []. cbn [app forallb]. rewrite E. auto.
Qed.

(* l = kept ++ blanks, kept ends with a non-blank byte *)
Lemma trimlen_spec l : exists bl, l = firstn (trimlen l) l ++ bl /\ forallb is_blank bl = true /\
  trimlen l <= length l /\
  (0 < trimlen l -> exists c, nth_error l (trimlen l - 1) = Some c /\ is_blank c = false).
Proof.
  unfold trimlen. rewrite frev_rev.
  destruct (trim_blank_rev_spec (rev l)) as [bl [H1 [H2 H3]]].
  set (k := trim_blank_rev (rev l)) in *.
  assert (Hl : l = rev k ++ rev bl).
  { rewrite <- (rev_involutive l), H1, rev_app_distr. reflexivity. }
  exists (rev bl).
  assert (Hf : firstn (length k) l = rev k).
  { rewrite Hl at 1. rewrite <- (rev_length k), firstn_app, Nat.sub_diag, firstn_all. cbn [firstn].
    apply app_nil_r. }
  split; [rewrite Hf; exact Hl|]. split; [rewrite forallb_forall in *; intros x Hx; apply H2, in_rev; exact Hx|].
  assert (Hlen : length l = length k + length bl).
  { pose proof (f_equal (@length byte) Hl) as X. rewrite app_length, !rev_length in X. exact X. }
  split; [lia|].
  intros Hpos. destruct k as [|c k'] eqn:Ek; [cbn in Hpos; lia|]. exists c. split; [|exact H3].
  rewrite Hl. cbn [rev length]. rewrite nth_error_app1 by (rewrite app_length, rev_length; cbn; lia).
  rewrite nth_error_app2 by (rewrite rev_length; lia). rewrite rev_length.
  replace (S (length k') - 1 - length k') with 0 by lia. reflexivity.
Qed.

Lemma trimlen_app_blank l bl : forallb is_blank bl = true -> trimlen (l ++ bl) = trimlen l.
Proof.
  intros H. unfold trimlen. rewrite !frev_rev, rev_app_distr.
  assert (G : forall x y, forallb is_blank x = true -> trim_blank_rev (x ++ y) = trim_blank_rev y).
  { induction x as [|c x IH]; intros y Hx; [reflexivity|]. cbn [forallb] in Hx.
    apply andb_true_iff in Hx. destruct Hx as [Hc Hx]. cbn [app trim_blank_rev]. rewrite Hc. apply IH. exact Hx. }
  rewrite G; [reflexivity|]. rewrite forallb_forall in *. intros x Hx. apply H, in_rev. exact Hx.
Qed.

Lemma trimlen_snoc_nb l c : is_blank c = false -> trimlen (l ++ [c]) = S (length l).
Proof.
  intros H. unfold trimlen. rewrite frev_rev, rev_app_distr. cbn [rev app trim_blank_rev]. rewrite H.
  cbn [length]. rewrite rev_length. reflexivity.
Qed.

Lemma trimlen_all_blank l : forallb is_blank l = true -> trimlen l = 0.
Proof. intros H. rewrite <- (app_nil_l l). rewrite trimlen_app_blank by exact H. reflexivity. Qed.

Lemma trimlen_nonblank l p c : nth_error l p = Some c -> is_blank c = false -> p < trimlen l.
Proof.
  intros Hn Hc. destruct (trimlen_spec l) as [bl [H1 [H2 [H3 _]]]].
  destruct (Nat.lt_ge_cases p (trimlen l)) as [L1|L1]; [exact L1|exfalso].
  rewrite H1 in Hn. rewrite nth_error_app2 in Hn by (rewrite firstn_length; lia).
  apply nth_error_In in Hn. rewrite forallb_forall in H2. rewrite (H2 c Hn) in Hc. discriminate.
Qed.

(* length_loop looks at the last event only *)
Definition not_endtop (e : lexev) : Prop := e_type e <> EndTop.
Definition raw_of (size : N) (revs : list lexev) : N :=
  match revs with
  | [] => 0%N
  | e :: _ => if N.eqb (e_end e) size then e_end e else (e_end e + 1)%N
  end.

Lemma length_loop_last size : forall evs len, Forall not_endtop evs ->
  length_loop size evs len = match rev evs with [] => len | _ => raw_of size (rev evs) end.
Proof.
  induction evs as [|e r IH]; intros len H; [reflexivity|].
  pose proof (Forall_inv H) as He. apply Forall_inv_tail in H. cbn [length_loop].
  assert (E : length_loop size (e :: r) len =
              length_loop size r (if N.eqb (e_end e) size then e_end e else (e_end e + 1)%N)).
  { cbn [length_loop]. unfold not_endtop in He. destruct (e_type e); try reflexivity. congruence. }
  cbn [length_loop] in E. rewrite E. rewrite (IH _ H). cbn [rev].
  destruct (rev r) as [|x t]; reflexivity.
Qed.

(* ---- what one step does to the quantities Len depends on ---- *)
Definition LL (racc : list lexev) : N :=
  match racc with [] => 0%N | e :: _ => (e_end e + 1)%N end.
Definition idleb (q : st) (ts : list ev) : bool :=
  match ts with
  | [] => match q with EndValue | SEndTop => true | _ => false end
  | _ => false
  end.
(* the raw length if the input ended here (index m), when the end-of-input rule accepts *)
Definition closable (m : N) (stk : list (ev * N)) (racc : list lexev) : option N :=
  match map fst stk with
  | [] => Some (LL racc)
  | [InlineAnnotationBegin] => Some m
  | [InlineAnnotationTextBegin; InlineAnnotationBegin] => Some m
  | _ => None
  end.
Definition Bpost (idx : N) (c : byte) (q : st) (stk : list (ev * N)) (racc : list lexev) (raw' : N) : Prop :=
  (raw' = N.succ idx /\
   (is_blank c = true -> closable idx stk racc = Some idx \/ idleb q (map fst stk) = true)) \/
  (map fst stk = [] /\ raw' = LL racc).

Definition len_post (idx : N) (c : byte) (q : st) (stk : list (ev * N)) (s1 : sc) : Prop :=
  forall stk' evs, pf idx stk (s_finds s1) = Some (stk', evs) ->
  (q = SBegin ->
   (s_step s1 = SBegin /\ evs = [] /\ is_blank c = true) \/
   (s_step s1 <> SBegin /\ is_blank c = false /\ exists e, evs = [e] /\ e_end e = idx)) /\
  (q <> SBegin -> s_step s1 <> SBegin) /\
  (idleb (s_step s1) (map fst stk') = true ->
   (exists e l, rev evs = e :: l /\ e_end e = idx) \/
   (evs = [] /\ idleb q (map fst stk) = true /\ is_blank c = true)) /\
  (forall racc raw', closable (N.succ idx) stk' (rev evs ++ racc) = Some raw' ->
   Bpost idx c q stk racc raw').

Ltac norm_negb :=
  repeat match goal with
  | H : negb _ = false |- _ => apply negb_false_iff in H
  | H : negb _ = true |- _ => apply negb_true_iff in H
  end.

Ltac fin_len :=
  unfold len_post; cbn_sc;
  let stk' := fresh "stk'" in let evs := fresh "evs" in let Hpf := fresh "Hpf" in
  intros stk' evs Hpf;
  cbn [pf process_found is_opening nonscalar_pair scalar_pair] in Hpf;
  injection Hpf as <- <-;
  split; [| split; [| split]];
  [ let Hq := fresh in intros Hq;
    first [ discriminate Hq
          | left; split; [reflexivity|split; [reflexivity|assumption]]
          | right; split; [discriminate|split; [assumption|eexists; split; reflexivity]] ]
  | let Hq := fresh in intros Hq; first [exfalso; apply Hq; reflexivity | discriminate]
  | cbn [map fst idleb]; let Hi := fresh in intros Hi;
    first [ discriminate Hi
          | left; do 2 eexists; split; reflexivity
          | right; split; [reflexivity|split; [reflexivity|assumption]] ]
  | let racc := fresh "racc" in let raw' := fresh "raw'" in let Hr := fresh "Hr" in
    intros racc raw' Hr; cbn [closable map fst rev app LL e_end] in Hr;
    first [ discriminate Hr
          | injection Hr as <-;
            first [ right; split; reflexivity
                  | left; split; [lia|];
                    let Hb := fresh "Hb" in intros Hb;
                    first [ left; reflexivity | right; reflexivity | congruence
                          | exfalso; bsolve ] ] ] ].

Ltac fin_len_case :=
  lazymatch goal with
  | |- True => exact I
  | |- idleb _ _ = true => reflexivity
  | |- _ => fin_len
  end.

Lemma step1_len lc data idx q ret stk uniq ann unf trail c nxt :
  cinv q ret (map fst stk) ann ->
  match step1 lc data idx (mksc q ret stk uniq [] ann unf trail) c nxt with
  | SOk s1 => len_post idx c q stk s1
  | SEos => idleb q (map fst stk) = true
  | _ => True
  end.
Proof.
  intros Hc.
  destruct q; cbn [cinv] in Hc; unfold litstk in *; decomp; try inv_base; subst; inv_map.
  all: unfold_step.
  all: try match goal with |- context [validate_value ?d ?i ?s'] =>
    let Hvs := fresh "Hvs" in
    pose proof (validate_shape d i s') as Hvs;
    destruct (validate_value d i s') as [r|s2];
    [destruct r; try contradiction; try exact I
    |let k := fresh "k" in destruct Hvs as [k ->]] end.
  all: cbn_sc.
  all: brk_goal.
  all: norm_negb.
  all: fin_len_case.
Qed.

Lemma pf_types i : forall fs stk stk' evs, pf i stk fs = Some (stk', evs) -> map e_type evs = fs.
Proof.
  induction fs as [|e r IH]; intros stk stk' evs H; cbn [pf] in H.
  - inversion H; reflexivity.
  - destruct (process_found i stk e) as [[s1 x]|] eqn:Ep; [|discriminate H].
    destruct (pf i s1 r) as [[s2 l]|] eqn:Ep2; [|discriminate H]. inversion H; subst.
    cbn [map]. rewrite (IH _ _ _ Ep2). f_equal.
    destruct (opn e) eqn:Ho.
    + destruct (process_found_open i stk e Ho) as [s1' [Hp _]]. rewrite Hp in Ep. inversion Ep; reflexivity.
    + destruct (process_found_close i stk e s1 x Ho Ep) as [p [b [_ [Ht _]]]]. exact Ht.
Qed.

Lemma pf_ends i : forall fs stk stk' evs, pf i stk fs = Some (stk', evs) ->
  Forall (fun e => (i - 1 <= e_end e)%N) evs.
Proof.
  induction fs as [|e r IH]; intros stk stk' evs H; cbn [pf] in H.
  - inversion H; constructor.
  - destruct (process_found i stk e) as [[s1 x]|] eqn:Ep; [|discriminate H].
    destruct (pf i s1 r) as [[s2 l]|] eqn:Ep2; [|discriminate H]. inversion H; subst.
    constructor; [|eapply IH; eassumption].
    destruct (opn e) eqn:Ho.
    + destruct (process_found_open i stk e Ho) as [s1' [Hp _]]. rewrite Hp in Ep. inversion Ep; subst.
      cbn [e_end]. lia.
    + destruct (process_found_close i stk e s1 x Ho Ep) as [p [b [_ [_ [_ [He _]]]]]].
      destruct He as [-> | ->]; lia.
Qed.

Lemma noet_not_endtop fs evs : noet fs = true -> map e_type evs = fs -> Forall not_endtop evs.
Proof.
  intros H <-. unfold noet in H. rewrite forallb_forall in H. apply Forall_forall.
  intros e He. unfold not_endtop. intros E. specialize (H (e_type e) (in_map _ _ _ He)).
  rewrite E in H. discriminate H.
Qed.

Definition Jlen (data : bytes) (idx : N) (s : sc) (racc : list lexev) : Prop :=
  Forall not_endtop racc /\ Forall (good idx) racc /\
  (s_step s = SBegin -> racc = [] /\ forallb is_blank (firstn (N.to_nat idx) data) = true) /\
  (s_step s <> SBegin -> exists p c, (p < idx)%N /\ nth_error data (N.to_nat p) = Some c /\
      is_blank c = false /\ racc <> [] /\ Forall (fun e => (p <= e_end e)%N) racc) /\
  (idleb (s_step s) (map fst (s_stack s)) = true -> forall k c, (LL racc <= k < idx)%N ->
      nth_error data (N.to_nat k) = Some c -> is_blank c = true).

Lemma st_eq_SBegin (q : st) : q = SBegin \/ q <> SBegin.
Proof. destruct q; try (right; discriminate). left; reflexivity. Qed.

Lemma firstn_succ_nth (data : bytes) idx c : nth_error data (N.to_nat idx) = Some c ->
  firstn (N.to_nat (N.succ idx)) data = firstn (N.to_nat idx) data ++ [c].
Proof. intros H. rewrite Nsucc_nat. apply firstn_S_nth. exact H. Qed.

Lemma Jlen_step lc data idx s racc c s1 stk' evs :
  Inv data idx s -> Jlen data idx s racc ->
  nth_error data (N.to_nat idx) = Some c ->
  step1 lc data idx s c (nth_error data (S (N.to_nat idx))) = SOk s1 ->
  pf idx (s_stack s) (s_finds s1) = Some (stk', evs) ->
  shape_ok (s_finds s1) -> noet (s_finds s1) = true ->
  Jlen data (N.succ idx) (set_finds [] (set_stack stk' s1)) (rev evs ++ racc).
Proof.
  intros HI [J1 [J2 [J3 [J4 J5]]]] Hn Hs Hp Hsh Hne.
  pose proof (Jspan_step lc data idx s racc c s1 stk' evs HI J2 Hn Hs Hp Hsh Hne) as G2.
  unfold Jspan in G2.
  destruct HI as [Hf Hc Hb Ht].
  destruct s as [q ret stk uniq finds ann unf trail]. cbn_sc_in Hf. cbn_sc_in Hc. cbn_sc_in Hp.
  cbn_sc_in J3. cbn_sc_in J4. cbn_sc_in J5. subst finds.
  pose proof (step1_len lc data idx q ret stk uniq ann unf trail c (nth_error data (S (N.to_nat idx))) Hc) as A.
  rewrite Hs in A. destruct (A stk' evs Hp) as [A1 [A2 [A3 _]]].
  unfold Jlen. cbn_sc.
  split; [|split; [exact G2|split; [|split]]].
  - apply Forall_app. split; [|exact J1]. apply Forall_rev.
    eapply noet_not_endtop; [exact Hne|]. eapply pf_types; exact Hp.
  - intros Hq'.
    destruct (st_eq_SBegin q) as [Eq|Nq].
    + destruct (A1 Eq) as [[B1 [B2 B3]]|[B1 _]]; [|congruence].
      destruct (J3 Eq) as [-> Hbl]. subst evs. split; [reflexivity|].
      rewrite (firstn_succ_nth data idx c Hn), forallb_app, Hbl. cbn [forallb]. rewrite B3. reflexivity.
    + exfalso. apply (A2 Nq). exact Hq'.
  - intros Hq'.
    destruct (st_eq_SBegin q) as [Eq|Nq].
    + destruct (A1 Eq) as [[B1 _]|[B1 [B2 [e [-> B3]]]]]; [congruence|].
      destruct (J3 Eq) as [-> _]. exists idx, c.
      split; [lia|]. split; [exact Hn|]. split; [exact B2|]. split; [discriminate|].
      cbn [rev app]. constructor; [lia|constructor].
    + destruct (J4 Nq) as [p [c0 [P1 [P2 [P3 [P4 P5]]]]]]. exists p, c0.
      split; [lia|]. split; [exact P2|]. split; [exact P3|]. split.
      * intros E. apply app_eq_nil in E. destruct E as [_ E]. exact (P4 E).
      * apply Forall_app. split; [|exact P5]. apply Forall_rev.
        eapply Forall_impl; [|eapply pf_ends; exact Hp]. intros a Ha. cbn beta in Ha. lia.
  - intros Hi k c0 Hk Hnk. destruct (A3 Hi) as [[e [l [B1 B2]]]|[B1 [B2 B3]]].
    + rewrite B1 in Hk. cbn [app LL] in Hk. lia.
    + subst evs. cbn [rev app] in Hk.
      destruct (N.eq_dec k idx) as [->|Nk].
      * rewrite Hn in Hnk. inversion Hnk; subst. exact B3.
      * apply (J5 B2 k c0); [lia|exact Hnk].
Qed.

(* ---- Len as a function of the run ---- *)
Definition final_revs (r : rres) : list lexev :=
  match r_out r with
  | Done => fst (etail (r_sc r) (r_idx r) []) ++ r_evs r
  | _ => r_evs r
  end.
Definition final_out (r : rres) : outcome :=
  match r_out r with
  | Done => snd (etail (r_sc r) (r_idx r) [])
  | o => o
  end.

Lemma scan_final lc bs :
  scan lc bs = (rev (final_revs (run lc bs sc0 0%N bs [])), final_out (run lc bs sc0 0%N bs [])).
Proof.
  rewrite scan_cases. cbv zeta. unfold final_revs, final_out.
  destruct (r_out (run lc bs sc0 0%N bs [])); rewrite ?frev_rev; try reflexivity.
  rewrite etail_acc. reflexivity.
Qed.

Definition len_of (bs : bytes) (revs : list lexev) (o : outcome) : verdict * N :=
  match o with
  | Err c p => (VErr c p, 0%N)
  | Panic | Done => (VPanic, 0%N)
  | Eos =>
    let size := N.of_nat (length bs) in
    let raw := length_loop size (rev revs) 0%N in
    if N.ltb size raw then (VPanic, 0%N)
    else (VOk, N.of_nat (trimlen (firstn (N.to_nat raw) bs)))
  end.

Lemma enum_len_final bs :
  enum_len bs = len_of bs (final_revs (run true bs sc0 0%N bs [])) (final_out (run true bs sc0 0%N bs [])).
Proof. unfold enum_len. rewrite scan_final. reflexivity. Qed.

Lemma tail_not_endtop unf stk : forall index size,
  Forall not_endtop (fst (tail unf stk index size [])).
Proof.
  induction stk as [|[t b] rest IH]; intros index size; cbn [tail]; [constructor|].
  destruct t; try constructor;
    try (rewrite tail_acc; cbn [fst]; apply Forall_app; split; [apply IH|];
         constructor; [unfold not_endtop; cbn [e_type]; discriminate|constructor]).
  destruct unf; [constructor|].
  rewrite tail_acc; cbn [fst]; apply Forall_app; split; [apply IH|];
    constructor; [unfold not_endtop; cbn [e_type]; discriminate|constructor].
Qed.

Lemma tail_ends unf stk : forall index size, (size <= index)%N ->
  Forall (fun e => (size - 1 <= e_end e)%N) (fst (tail unf stk index size [])).
Proof.
  induction stk as [|[t b] rest IH]; intros index size Hle; cbn [tail]; [constructor|].
  destruct t; try constructor;
    try (rewrite tail_acc; cbn [fst]; apply Forall_app; split; [apply IH; lia|];
         constructor; [cbn [e_end]; lia|constructor]).
  destruct unf; [constructor|].
  rewrite tail_acc; cbn [fst]; apply Forall_app; split; [apply IH; lia|];
    constructor; [cbn [e_end]; lia|constructor].
Qed.

Lemma etail_not_endtop s idx : Forall not_endtop (fst (etail s idx [])).
Proof.
  destruct (etail_cases s idx []) as [[_ ->]|[_ ->]]; [constructor|apply tail_not_endtop].
Qed.

Lemma etail_ends s idx : Forall (fun e => (idx - 1 <= e_end e)%N) (fst (etail s idx [])).
Proof.
  destruct (etail_cases s idx []) as [[_ ->]|[_ ->]]; [constructor|apply tail_ends; lia].
Qed.

Lemma run_len bs :
  let r := run true bs sc0 0%N bs [] in
  Inv bs (r_idx r) (r_sc r) /\ Jlen bs (r_idx r) (r_sc r) (r_evs r) /\ run_end true bs r /\
  (r_idx r <= N.of_nat (length bs))%N.
Proof.
  apply (run0_invariant true bs (Jlen bs)).
  - intros. eapply Jlen_step; eassumption.
  - unfold Jlen. cbn. repeat split; try constructor; try congruence; try discriminate;
    try (intros H; exfalso; apply H; reflexivity).
Qed.

Lemma final_not_endtop bs : Forall not_endtop (final_revs (run true bs sc0 0%N bs [])).
Proof.
  destruct (run_len bs) as [_ [[J1 _] _]]. cbv zeta in J1. unfold final_revs.
  destruct (r_out (run true bs sc0 0%N bs [])); try exact J1.
  apply Forall_app. split; [apply etail_not_endtop|exact J1].
Qed.

Lemma raw_final bs :
  length_loop (N.of_nat (length bs)) (rev (final_revs (run true bs sc0 0%N bs []))) 0%N =
  raw_of (N.of_nat (length bs)) (final_revs (run true bs sc0 0%N bs [])).
Proof.
  rewrite length_loop_last by (apply Forall_rev; apply final_not_endtop).
  rewrite rev_involutive. destruct (final_revs (run true bs sc0 0%N bs [])); reflexivity.
Qed.

Lemma nth_error_firstn_lt {A} (l : list A) k i : i < k -> nth_error (firstn k l) i = nth_error l i.
Proof.
  revert k i. induction l as [|x l IH]; intros [|k] [|i] H; cbn [firstn nth_error]; try reflexivity; try lia.
  apply IH. lia.
Qed.

Lemma step1_sbegin_not_eos lc data idx s c nxt : s_step s = SBegin ->
  step1 lc data idx s c nxt <> SEos.
Proof.
  intros H. unfold step1. rewrite H. destruct (is_blank c); [discriminate|].
  destruct (negb (ch c 91)); discriminate.
Qed.

Theorem enum_len_prefix : forall bs n, enum_len bs = (VOk, n) ->
  (N.to_nat n <= length bs)%nat /\
  ((0 < n)%N -> forall c, nth_error bs (N.to_nat n - 1) = Some c -> is_blank c = false) /\
  ((0 < n)%N <-> forallb is_blank bs = false).
Proof.
  intros bs n H. rewrite enum_len_final in H.
  destruct (run_len bs) as [HI [HJ [HE Hle]]]. cbv zeta in *.
  set (r := run true bs sc0 0%N bs []) in *.
  unfold len_of in H. destruct (final_out r) eqn:Eo; try discriminate H.
  cbv zeta in H. fold r in H. unfold r in H. rewrite raw_final in H. fold r in H.
  set (size := N.of_nat (length bs)) in *. set (raw := raw_of size (final_revs r)) in *.
  destruct (N.ltb size raw) eqn:Elt; [discriminate H|]. inversion H as [Hn]. clear H.
  set (l := firstn (N.to_nat raw) bs) in *.
  destruct (trimlen_spec l) as [bl [T1 [T2 [T3 T4]]]].
  assert (Hll : length l <= length bs) by (unfold l; rewrite firstn_length; lia).
  assert (P2 : (0 < N.of_nat (trimlen l))%N -> forall c,
               nth_error bs (N.to_nat (N.of_nat (trimlen l)) - 1) = Some c -> is_blank c = false).
  { intros Hpos c Hc. destruct T4 as [c' [T5 T6]]; [lia|].
    rewrite Nat2N.id in Hc. unfold l in T5. rewrite nth_error_firstn_lt in T5.
    - fold l in T5. congruence.
    - fold l. assert (length l <= N.to_nat raw) by (unfold l; rewrite firstn_length; lia). lia. }
  split; [lia|]. split; [exact P2|].
  split.
  - intros Hpos. destruct (nth_error bs (N.to_nat (N.of_nat (trimlen l)) - 1)) as [c|] eqn:Ec.
    + specialize (P2 Hpos c eq_refl). apply not_true_iff_false. intros Hall.
      rewrite forallb_forall in Hall. apply nth_error_In in Ec. rewrite (Hall c Ec) in P2. discriminate.
    + apply nth_error_None in Ec. lia.
  - intros Hnb.
    destruct HJ as [_ [_ [J3 [J4 _]]]].
    destruct (st_eq_SBegin (s_step (r_sc r))) as [Eq|Nq].
    + exfalso. destruct (J3 Eq) as [_ Hbl]. unfold final_out in Eo.
      unfold run_end, run_end_at in HE.
      destruct (r_out r) eqn:Er; try discriminate Eo.
      * rewrite HE, Nat2N.id, firstn_all in Hbl. congruence.
      * destruct HE as [_ [c [_ HE]]]. exact (step1_sbegin_not_eos _ _ _ _ _ _ Eq HE).
    + destruct (J4 Nq) as [p [c [P1 [P3 [P4 [P5 P6]]]]]].
      assert (Hraw : (p < raw)%N).
      { unfold raw, final_revs. destruct (r_out r) eqn:Er.
        - pose proof (etail_ends (r_sc r) (r_idx r)) as Te.
          unfold run_end, run_end_at in HE. rewrite Er in HE.
          destruct (fst (etail (r_sc r) (r_idx r) [])) as [|e t].
          + cbn [app]. destruct (r_evs r) as [|e t]; [congruence|]. apply Forall_inv in P6.
            cbn [raw_of]. destruct (N.eqb (e_end e) size) eqn:Ee; lia.
          + apply Forall_inv in Te. cbn [app raw_of].
            destruct (N.eqb (e_end e) size) eqn:Ee; lia.
        - destruct (r_evs r) as [|e t]; [congruence|]. apply Forall_inv in P6.
          cbn [raw_of]. destruct (N.eqb (e_end e) size) eqn:Ee; lia.
        - destruct (r_evs r) as [|e t]; [congruence|]. apply Forall_inv in P6.
          cbn [raw_of]. destruct (N.eqb (e_end e) size) eqn:Ee; lia.
        - destruct (r_evs r) as [|e t]; [congruence|]. apply Forall_inv in P6.
          cbn [raw_of]. destruct (N.eqb (e_end e) size) eqn:Ee; lia. }
      assert (Hp : nth_error l (N.to_nat p) = Some c).
      { unfold l. rewrite nth_error_firstn_lt by lia. exact P3. }
      pose proof (trimlen_nonblank l _ c Hp P4). lia.
Qed.

(* the statement with an unconditional "0 < n" and an unconditional last byte is false:
   a blank text has Len 0 *)
Example enum_len_prefix_counterexample :
  enum_len [] = (VOk, 0%N) /\ enum_len [x20] = (VOk, 0%N) /\
  nth_error [x20] (N.to_nat 0 - 1) = Some x20 /\ is_blank x20 = true.
Proof. vm_compute. repeat split; reflexivity. Qed.

(* ---- Len of the text cut at index m, from the configuration reached there ---- *)
Definition cut_len (bs : bytes) (m : N) (s : sc) (racc : list lexev) : verdict * N :=
  len_of (firstn (N.to_nat m) bs)
         (fst (etail s m []) ++ racc)
         (snd (etail s m [])).

(* [closable] for a configuration: nothing is accepted right after the first byte of an
   annotation opener *)
Definition closable2 (m : N) (q : st) (stk : list (ev * N)) (racc : list lexev) : option N :=
  match q with
  | StAnyAnnotationStart => None
  | _ => closable m stk racc
  end.

Lemma closable2_some m q stk racc raw : closable2 m q stk racc = Some raw ->
  q <> StAnyAnnotationStart /\ closable m stk racc = Some raw.
Proof. destruct q; cbn [closable2]; intros H; try discriminate H; split; try discriminate; exact H. Qed.

Lemma closable2_other m q stk racc : q <> StAnyAnnotationStart ->
  closable2 m q stk racc = closable m stk racc.
Proof. destruct q; intros H; try reflexivity. congruence. Qed.

Lemma LL_le m racc : Forall (good m) racc -> (LL racc <= m)%N.
Proof.
  destruct racc as [|e t]; cbn [LL]; [lia|]. intros H. apply Forall_inv in H.
  destruct H as [_ [H _]]. lia.
Qed.

Lemma raw_of_LL m racc : Forall (good m) racc -> raw_of m racc = LL racc.
Proof.
  destruct racc as [|e t]; cbn [LL raw_of]; [reflexivity|]. intros H. apply Forall_inv in H.
  destruct H as [_ [H _]]. replace (N.eqb (e_end e) m) with false by lia. reflexivity.
Qed.

Lemma cut_len_closable bs m s racc :
  Inv bs m s -> Forall not_endtop racc -> Forall (good m) racc -> (N.to_nat m <= length bs) ->
  match closable2 m (s_step s) (s_stack s) racc with
  | Some raw => (raw <= m)%N /\
      cut_len bs m s racc = (VOk, N.of_nat (trimlen (firstn (N.to_nat raw) (firstn (N.to_nat m) bs))))
  | None => fst (cut_len bs m s racc) <> VOk
  end.
Proof.
  intros [Hf Hc Hb Ht] Hne Hg Hm. pose proof (LL_le m racc Hg) as HLL.
  pose proof (raw_of_LL m racc Hg) as Hraw.
  destruct s as [q ret stk uniq finds ann unf trail].
  cbn_sc_in Hc. cbn_sc_in Hb. unfold cut_len, etail. cbn_sc. clear Ht Hf.
  assert (Hsz : N.of_nat (length (firstn (N.to_nat m) bs)) = m).
  { rewrite firstn_length. lia. }
  assert (HOK : forall tl raw, Forall not_endtop tl -> raw_of m (tl ++ racc) = raw -> (raw <= m)%N ->
            len_of (firstn (N.to_nat m) bs) (tl ++ racc) Eos =
            (VOk, N.of_nat (trimlen (firstn (N.to_nat raw) (firstn (N.to_nat m) bs))))).
  { intros tl raw Htl Hr Hle. unfold len_of. cbv zeta. rewrite Hsz.
    rewrite length_loop_last by (apply Forall_rev, Forall_app; split; assumption).
    rewrite rev_involutive.
    replace (match tl ++ racc with [] => 0%N | _ :: _ => raw_of m (tl ++ racc) end) with raw
      by (rewrite <- Hr; destruct (tl ++ racc); reflexivity).
    replace (N.ltb m raw) with false by lia. reflexivity. }
  destruct q; cbn [cinv] in Hc; unfold litstk in *; decomp; try inv_base; subst; inv_map;
    cbn [closable2 closable map fst tail]; try (destruct unf); cbn [tail fst snd app]; try (unfold len_of; cbn [fst]; discriminate);
    repeat match goal with
    | H : Forall (below _) (_ :: _) |- _ =>
      let H1 := fresh "Hb" in pose proof (Forall_inv H) as H1; apply Forall_inv_tail in H;
      unfold below in H1; cbn [snd] in H1
    end;
    try (split; [lia|]);
    try (apply (HOK []); [constructor|exact Hraw|exact HLL]);
    try (match goal with |- len_of _ (?a :: ?b :: racc) Eos = _ => apply (HOK [a; b]) end;
         [repeat constructor; unfold not_endtop; cbn [e_type]; discriminate
         |cbn [app raw_of e_end]; replace (N.eqb (N.succ m - 1) m) with true by lia; lia|lia]);
    try (match goal with |- len_of _ (?a :: racc) Eos = _ => apply (HOK [a]) end;
         [repeat constructor; unfold not_endtop; cbn [e_type]; discriminate
         |cbn [app raw_of e_end]; replace (N.eqb (m - 1) m) with false by lia; lia|lia]).
Qed.

Lemma firstn_firstn_le (l : bytes) i j : i <= j -> firstn i (firstn j l) = firstn i l.
Proof. intros H. rewrite firstn_firstn. f_equal. lia. Qed.

(* the bytes between two indexes *)
Lemma firstn_split_blank (bs : bytes) a b : a <= b -> b <= length bs ->
  (forall k c, a <= k < b -> nth_error bs k = Some c -> is_blank c = true) ->
  exists mid, firstn b bs = firstn a bs ++ mid /\ forallb is_blank mid = true.
Proof.
  intros Hab Hb H. exists (firstn (b - a) (skipn a bs)). split.
  - rewrite <- (firstn_skipn a (firstn b bs)) at 1. rewrite firstn_firstn_le by lia.
    f_equal. rewrite skipn_firstn_comm. reflexivity.
  - apply forallb_forall. intros c Hc. apply In_nth_error in Hc. destruct Hc as [k Hk].
    assert (Hkl : k < b - a).
    { assert (k < length (firstn (b - a) (skipn a bs))) by (apply nth_error_Some; congruence).
      rewrite firstn_length in H0. lia. }
    rewrite nth_error_firstn_lt in Hk by exact Hkl. rewrite nth_error_skipn in Hk.
    apply (H (a + k) c); [lia|exact Hk].
Qed.

(* the byte after the first byte of an annotation opener: if the text may end after it, it
   is the second '/' of an inline annotation *)
Lemma step1_from_opener lc data idx s c nxt s1 stk' evs racc raw' :
  s_finds s = [] -> s_step s = StAnyAnnotationStart ->
  step1 lc data idx s c nxt = SOk s1 ->
  pf idx (s_stack s) (s_finds s1) = Some (stk', evs) ->
  closable (N.succ idx) stk' (rev evs ++ racc) = Some raw' ->
  raw' = N.succ idx /\ is_blank c = false.
Proof.
  destruct s as [q ret stk uniq finds ann unf trail]. cbn_sc. intros -> ->. unfold_step.
  intros H. brk_hyp H; try discriminate H; injection H as <-; cbn_sc;
    cbn [pf process_found is_opening]; intros Hp; injection Hp as <- <-;
    destruct stk as [|[e0 b0] rest]; cbn [closable map fst]; intros Hcl; try discriminate Hcl.
  injection Hcl as <-. split; [reflexivity|bsolve].
Qed.

Lemma back_step lc bs idx s racc c s1 stk' evs raw' n :
  Inv bs idx s -> Jlen bs idx s racc ->
  nth_error bs (N.to_nat idx) = Some c ->
  step1 lc bs idx s c (nth_error bs (S (N.to_nat idx))) = SOk s1 ->
  pf idx (s_stack s) (s_finds s1) = Some (stk', evs) ->
  closable2 (N.succ idx) (s_step s1) stk' (rev evs ++ racc) = Some raw' ->
  trimlen (firstn (N.to_nat raw') (firstn (N.to_nat (N.succ idx)) bs)) = n -> n <= N.to_nat idx ->
  exists raw, closable2 idx (s_step s) (s_stack s) racc = Some raw /\
              trimlen (firstn (N.to_nat raw) (firstn (N.to_nat idx) bs)) = n.
Proof.
  intros HI [J1 [J2 [J3 [J4 J5]]]] Hn Hs Hp Hcl2 Ht Hle.
  destruct (closable2_some _ _ _ _ _ Hcl2) as [_ Hcl].
  assert (Hlt0 : N.to_nat idx < length bs) by (apply nth_error_Some; congruence).
  assert (Hq : s_step s <> StAnyAnnotationStart).
  { intros Eq.
    destruct (step1_from_opener lc bs idx s c _ s1 stk' evs racc raw' (inv_finds _ _ _ HI) Eq Hs Hp Hcl)
      as [-> Hnb].
    rewrite firstn_all2 in Ht by (rewrite firstn_length; lia).
    rewrite (firstn_succ_nth bs idx c Hn) in Ht.
    rewrite trimlen_snoc_nb in Ht by exact Hnb. rewrite firstn_length in Ht. lia. }
  rewrite (closable2_other idx _ (s_stack s) racc Hq). clear Hq Hcl2.
  assert (Hlt : N.to_nat idx < length bs) by (apply nth_error_Some; congruence).
  pose proof (LL_le idx racc J2) as HLL.
  destruct HI as [Hf Hc Hb Htx].
  destruct s as [q ret stk uniq finds ann unf trail]. cbn_sc_in Hf. cbn_sc_in Hc. cbn_sc_in Hp.
  cbn_sc_in J5. cbn_sc. subst finds.
  pose proof (step1_len lc bs idx q ret stk uniq ann unf trail c (nth_error bs (S (N.to_nat idx))) Hc) as A.
  rewrite Hs in A. destruct (A stk' evs Hp) as [_ [_ [_ A4]]].
  destruct (A4 racc raw' Hcl) as [[B1 B2]|[B1 B2]].
  - subst raw'. rewrite firstn_all2 in Ht by (rewrite firstn_length; lia).
    rewrite (firstn_succ_nth bs idx c Hn) in Ht.
    destruct (is_blank c) eqn:Eb.
    + rewrite trimlen_app_blank in Ht by (cbn [forallb]; rewrite Eb; reflexivity).
      destruct (B2 eq_refl) as [B3|B3].
      * exists idx. split; [exact B3|]. rewrite firstn_all2 by (rewrite firstn_length; lia). exact Ht.
      * assert (Hst : map fst stk = []) by (destruct (map fst stk); [reflexivity|discriminate B3]).
        exists (LL racc). split; [unfold closable; rewrite Hst; reflexivity|].
        rewrite firstn_firstn_le by lia.
        destruct (firstn_split_blank bs (N.to_nat (LL racc)) (N.to_nat idx)) as [mid [M1 M2]]; [lia|lia| |].
        { intros k c0 Hk Hk2. apply (J5 B3 (N.of_nat k) c0); [lia|rewrite Nat2N.id; exact Hk2]. }
        rewrite M1, trimlen_app_blank in Ht by exact M2. exact Ht.
    + rewrite trimlen_snoc_nb in Ht by exact Eb. rewrite firstn_length in Ht. lia.
  - exists (LL racc). split; [unfold closable; rewrite B1; reflexivity|].
    subst raw'. rewrite firstn_firstn_le in Ht by lia. rewrite firstn_firstn_le by lia. exact Ht.
Qed.

Lemma step1_eos_idle lc data idx s c nxt : Inv data idx s ->
  step1 lc data idx s c nxt = SEos -> idleb (s_step s) (map fst (s_stack s)) = true.
Proof.
  intros [Hf Hc _ _] H. destruct s as [q ret stk uniq finds ann unf trail].
  cbn_sc_in Hf. cbn_sc_in Hc. cbn_sc. subst finds.
  pose proof (step1_len lc data idx q ret stk uniq ann unf trail c nxt Hc) as A.
  rewrite H in A. exact A.
Qed.

Lemma back_run bs n : forall rest s idx racc,
  skipn (N.to_nat idx) bs = rest -> (idx <= N.of_nat (length bs))%N ->
  Inv bs idx s -> Jlen bs idx s racc ->
  let r := run true bs s idx rest racc in
  len_of bs (final_revs r) (final_out r) = (VOk, N.of_nat n) -> n <= N.to_nat idx ->
  cut_len bs idx s racc = (VOk, N.of_nat n).
Proof.
  induction rest as [|c r IH]; intros s idx racc Hsk Hle HI HJ; cbn [run]; cbv zeta.
  - unfold final_revs, final_out, r_out, r_sc, r_idx, r_evs. cbn [fst snd]. intros H _.
    assert (Hl : N.to_nat idx = length bs).
    { assert (X : length (skipn (N.to_nat idx) bs) = 0) by (rewrite Hsk; reflexivity).
      rewrite skipn_length in X. lia. }
    unfold cut_len. rewrite Hl, firstn_all. exact H.
  - destruct (skipn_cons_nth bs _ c r Hsk) as [Hn Hsk'].
    assert (Hnx : hd_error r = nth_error bs (S (N.to_nat idx))).
    { rewrite <- Hsk'. apply hd_skipn. }
    assert (Hlt : N.to_nat idx < length bs) by (apply nth_error_Some; congruence).
    destruct (step_good_step true bs idx s c (hd_error r) HI Hn) as [Es G].
    rewrite Es in G. rewrite Es. rewrite Hnx in *.
    pose proof HJ as [J1 [J2 _]].
    destruct (step1 true bs idx s c (nth_error bs (S (N.to_nat idx)))) as [s1|code pos| | |] eqn:E1;
      cbn [step_good] in G; try contradiction.
    + destruct G as [G1 [G2 [G2' [stk' [evs [G3 G4]]]]]].
      pose proof (process_finds_pf idx (s_finds s1) (s_stack s1) racc) as P.
      rewrite G1, G3 in P. rewrite G1, P.
      pose proof (Jlen_step true bs idx s racc c s1 stk' evs HI HJ Hn E1 G3 G2 G2') as HJ'.
      intros H Hn'.
      specialize (IH (set_finds [] (set_stack stk' s1)) (N.succ idx) (rev evs ++ racc)).
      rewrite Nsucc_nat in IH. specialize (IH Hsk' ltac:(lia) G4 HJ' H ltac:(lia)).
      pose proof HJ' as [K1 [K2 _]].
      pose proof (cut_len_closable bs (N.succ idx) _ _ G4 K1 K2 ltac:(lia)) as C1.
      cbn_sc_in C1.
      destruct (closable2 (N.succ idx) (s_step s1) stk' (rev evs ++ racc)) as [raw'|] eqn:Ecl.
      * destruct C1 as [_ C1]. rewrite C1 in IH. injection IH as Ht. apply Nat2N.inj in Ht.
        destruct (back_step true bs idx s racc c s1 stk' evs raw' n HI HJ Hn E1 G3 Ecl Ht Hn')
          as [raw [R1 R2]].
        pose proof (cut_len_closable bs idx s racc HI J1 J2 ltac:(lia)) as C2.
        rewrite R1 in C2. destruct C2 as [_ C2]. rewrite C2, R2. reflexivity.
      * rewrite IH in C1. exfalso. apply C1. reflexivity.
    + unfold final_revs, final_out, r_out, r_sc, r_idx, r_evs. cbn [fst snd len_of]. discriminate.
    + unfold final_revs, final_out, r_out, r_sc, r_idx, r_evs. cbn [fst snd]. intros H Hn'.
      pose proof (step1_eos_idle _ _ _ _ _ _ HI E1) as Hid.
      assert (Hst : map fst (s_stack s) = []).
      { destruct (map fst (s_stack s)); [reflexivity|discriminate Hid]. }
      pose proof (cut_len_closable bs idx s racc HI J1 J2 ltac:(lia)) as C2.
      rewrite closable2_other in C2
        by (intros Eq; rewrite Eq in Hid; destruct (map fst (s_stack s)); discriminate Hid).
      unfold closable in C2. rewrite Hst in C2. destruct C2 as [C3 C2]. rewrite C2.
      rewrite firstn_firstn_le by lia.
      unfold len_of in H. cbv zeta in H.
      rewrite length_loop_last in H by (apply Forall_rev; exact J1).
      rewrite rev_involutive in H.
      assert (Hraw : match racc with [] => 0%N | _ :: _ => raw_of (N.of_nat (length bs)) racc end = LL racc).
      { rewrite <- (raw_of_LL (N.of_nat (length bs)) racc).
        - destruct racc; reflexivity.
        - eapply Forall_impl; [|exact J2]. intros a. apply good_mono. lia. }
      rewrite Hraw in H.
      destruct (N.ltb (N.of_nat (length bs)) (LL racc)); [discriminate H|]. exact H.
Qed.

(* ---- the look-ahead byte matters at the end of a multi-line annotation and, in length mode,
   at a slash after the array (there it decides between errEOS and the annotation; with no
   byte after the slash it is errEOS, fix 3cd814f).  A step that succeeds and leads neither to
   the end of a multi-line annotation nor into an annotation opener does not depend on it ---- *)
Definition la_free (R : sres) : Prop :=
  match R with
  | SOk s1 => s_step s1 <> StMultiLineAnnotationEnd /\ s_step s1 <> StAnyAnnotationStart
  | SRedo _ => True
  | _ => False
  end.

Lemma end_top_la_none lc idx s c la R :
  end_top lc idx s c la = R -> la_free R -> end_top lc idx s c None = R.
Proof.
  unfold end_top. destruct (is_newline c); [intros <- _; reflexivity|].
  destruct (ch c 47); [|intros <- _; reflexivity].
  destruct la as [x|]; [|intros <- _; reflexivity].
  destruct (lc && negb (ch x 47) && negb (ch x 42))%bool; [intros <- H; contradiction H|].
  unfold switch_to_annotation. destruct (s_ann s); [intros <- H; contradiction H|].
  intros <- [_ H]. cbn_sc_in H. exfalso. apply H. reflexivity.
Qed.

Lemma end_value_la_none lc data idx s c la R :
  end_value lc data idx s c la = R -> la_free R -> end_value lc data idx s c None = R.
Proof.
  unfold end_value. destruct (s_stack s) as [|[t b] rest]; [apply end_top_la_none|].
  destruct t; try (intros <- _; reflexivity).
  destruct (validate_value data idx (found LiteralEnd s)) as [r|s2]; [intros <- _; reflexivity|].
  destruct rest as [|[t2 b2] rest2]; [apply end_top_la_none|intros <- _; reflexivity].
Qed.

Lemma state0_la_none lc data idx s c la R :
  state0 lc data idx s c la = R -> la_free R -> state0 lc data idx s c None = R.
Proof.
  unfold state0. destruct (ch c 46); [intros <- _; reflexivity|].
  destruct (ch c 101 || ch c 69)%bool; [intros <- _; reflexivity|]. apply end_value_la_none.
Qed.

Lemma step1_la_none lc data idx s c la R :
  step1 lc data idx s c la = R -> la_free R -> step1 lc data idx s c None = R.
Proof.
  unfold step1. destruct (s_step s); try (intros <- _; reflexivity).
  - apply end_value_la_none.
  - apply end_top_la_none.
  - destruct (is_digit c); [intros <- _; reflexivity|]. apply state0_la_none.
  - apply state0_la_none.
  - destruct (is_digit c); [intros <- _; reflexivity|].
    destruct (ch c 101 || ch c 69)%bool; [intros <- _; reflexivity|]. apply end_value_la_none.
  - destruct (is_newline c); [intros <- _; reflexivity|].
    destruct (is_blank c); [intros <- _; reflexivity|].
    unfold multi_line_annotation_text. destruct la as [d|]; [|intros <- _; reflexivity].
    destruct (ch c 42 && ch d 47)%bool; [|rewrite andb_false_r; intros <- _; reflexivity].
    intros <- [H _]. exfalso. apply H. reflexivity.
  - unfold multi_line_annotation_text. destruct la as [d|]; [|intros <- _; reflexivity].
    destruct (ch c 42 && ch d 47)%bool; [|rewrite andb_false_r; intros <- _; reflexivity].
    intros <- [H _]. exfalso. apply H. reflexivity.
Qed.

Lemma dispatch_la_none lc data idx c la : forall f s R,
  dispatch f lc data idx s c la = R -> la_free R -> dispatch f lc data idx s c None = R.
Proof.
  induction f as [|f IH]; intros s R; cbn [dispatch].
  - destruct (step1 lc data idx s c la) as [s1|code pos| | |s'] eqn:E; intros <- H;
      try contradiction H.
    rewrite (step1_la_none _ _ _ _ _ _ _ E H). reflexivity.
  - destruct (step1 lc data idx s c la) as [s1|code pos| | |s'] eqn:E; intros HR H.
    + subst R. rewrite (step1_la_none _ _ _ _ _ _ _ E H). reflexivity.
    + subst R. contradiction H.
    + subst R. contradiction H.
    + subst R. contradiction H.
    + rewrite (step1_la_none _ _ _ _ _ _ _ E I). apply IH; assumption.
Qed.

Lemma runl_la_none lc data : forall bs s idx la racc,
  r_out (runl lc data s idx bs la racc) = Done ->
  s_step (r_sc (runl lc data s idx bs la racc)) <> StMultiLineAnnotationEnd ->
  s_step (r_sc (runl lc data s idx bs la racc)) <> StAnyAnnotationStart ->
  runl lc data s idx bs None racc = runl lc data s idx bs la racc.
Proof.
  induction bs as [|c r IH]; intros s idx la racc; cbn [runl]; [reflexivity|].
  destruct r as [|d r'].
  - destruct (step lc data idx s c la) as [s1|code pos| | |s'] eqn:E;
      try (unfold r_out; cbn [fst snd]; discriminate).
    destruct (process_finds idx (s_stack s1) (s_finds s1) racc) as [[stk' racc'] ok] eqn:Ep.
    destruct ok; [|unfold r_out; cbn [fst snd]; discriminate].
    cbn [runl]. unfold r_out, r_sc. cbn [fst snd]. cbn_sc. intros _ Hm Ha.
    unfold step in *. rewrite (dispatch_la_none _ _ _ _ _ _ _ _ E).
    + rewrite Ep. reflexivity.
    + split; assumption.
  - destruct (step lc data idx s c (Some d)) as [s1|code pos| | |s']; try reflexivity.
    destruct (process_finds idx (s_stack s1) (s_finds s1) racc) as [[stk' racc'] ok].
    destruct ok; [|reflexivity]. apply IH.
Qed.

(* ---- the scanner looks at the data only below the current index ---- *)
Lemma slice_firstn (data : bytes) n lo hi : (hi <= N.of_nat n)%N -> n <= length data ->
  slice (firstn n data) lo hi = slice data lo hi.
Proof.
  intros H1 H2. unfold slice. rewrite firstn_length.
  destruct (N.leb lo hi) eqn:E1; cbn [andb]; [|reflexivity].
  replace (N.leb hi (N.of_nat (Nat.min n (length data)))) with true by lia.
  replace (N.leb hi (N.of_nat (length data))) with true by lia.
  f_equal. rewrite skipn_firstn_comm. rewrite firstn_firstn. f_equal. lia.
Qed.

Lemma validate_value_data (data : bytes) n idx s : (idx <= N.of_nat n)%N -> n <= length data ->
  validate_value (firstn n data) idx s = validate_value data idx s.
Proof.
  intros H1 H2. unfold validate_value. destruct (s_stack s) as [|[t b] rest]; [reflexivity|].
  rewrite slice_firstn by assumption. reflexivity.
Qed.

Lemma end_value_data lc (data : bytes) n idx s c : (idx <= N.of_nat n)%N -> n <= length data ->
  end_value lc (firstn n data) idx s c = end_value lc data idx s c.
Proof. intros H1 H2. unfold end_value. rewrite validate_value_data by assumption. reflexivity. Qed.

Lemma step1_data lc (data : bytes) n idx s c nxt : (idx <= N.of_nat n)%N -> n <= length data ->
  step1 lc (firstn n data) idx s c nxt = step1 lc data idx s c nxt.
Proof.
  intros H1 H2. unfold step1, state0. rewrite !end_value_data by assumption. reflexivity.
Qed.

Lemma dispatch_data lc (data : bytes) n idx c nxt : (idx <= N.of_nat n)%N -> n <= length data ->
  forall f s, dispatch f lc (firstn n data) idx s c nxt = dispatch f lc data idx s c nxt.
Proof.
  intros H1 H2. induction f as [|f IH]; intros s; cbn [dispatch]; rewrite step1_data by assumption.
  - reflexivity.
  - destruct (step1 lc data idx s c nxt); try reflexivity. apply IH.
Qed.

Lemma runl_data lc (data : bytes) n : n <= length data -> forall bs s idx la racc,
  N.to_nat idx + length bs <= n ->
  runl lc (firstn n data) s idx bs la racc = runl lc data s idx bs la racc.
Proof.
  intros H2. induction bs as [|c r IH]; intros s idx la racc Hle; cbn [runl]; [reflexivity|].
  cbn [length] in Hle. unfold step. rewrite dispatch_data by (try assumption; lia).
  destruct (dispatch (length (s_ret s)) lc data idx s c _); try reflexivity.
  destruct (process_finds idx (s_stack s0) (s_finds s0) racc) as [[stk' racc'] ok].
  destruct ok; [|reflexivity]. apply IH. lia.
Qed.

Lemma closable_not_mlend data m s racc raw : Inv data m s ->
  closable m (s_stack s) racc = Some raw -> s_step s <> StMultiLineAnnotationEnd.
Proof.
  intros [_ Hc _ _] H E. rewrite E in Hc. cbn [cinv] in Hc. destruct Hc as [b [_ [Hs _]]].
  unfold closable in H. rewrite Hs in H. destruct b as [|[] []]; discriminate H.
Qed.

Lemma len_of_eos bs idx racc : Forall not_endtop racc -> Forall (good idx) racc ->
  (idx <= N.of_nat (length bs))%N ->
  len_of bs racc Eos = (VOk, N.of_nat (trimlen (firstn (N.to_nat (LL racc)) bs))).
Proof.
  intros J1 J2 Hle. unfold len_of. cbv zeta.
  rewrite length_loop_last by (apply Forall_rev; exact J1). rewrite rev_involutive.
  assert (Hraw : match racc with [] => 0%N | _ :: _ => raw_of (N.of_nat (length bs)) racc end = LL racc).
  { rewrite <- (raw_of_LL (N.of_nat (length bs)) racc).
    - destruct racc; reflexivity.
    - eapply Forall_impl; [|exact J2]. intros a. apply good_mono. lia. }
  rewrite Hraw. pose proof (LL_le idx racc J2).
  replace (N.ltb (N.of_nat (length bs)) (LL racc)) with false by lia. reflexivity.
Qed.

Lemma Jlen0 bs : Jlen bs 0%N sc0 [].
Proof.
  unfold Jlen. cbn. repeat split; try constructor; try congruence; try discriminate;
    try (intros H; exfalso; apply H; reflexivity).
Qed.

(* P3: Len of the prefix Len returns is that same number *)
Theorem enum_len_stable : forall bs n, enum_len bs = (VOk, n) ->
  enum_len (firstn (N.to_nat n) bs) = (VOk, n).
Proof.
  intros bs n H. destruct (enum_len_prefix bs n H) as [Hk _].
  set (k := N.to_nat n) in *. assert (Hn : n = N.of_nat k) by lia. rewrite Hn in *. clear Hn.
  rewrite enum_len_final in H. rewrite enum_len_final.
  set (p := firstn k bs). set (rest' := skipn k bs).
  assert (Hbs : bs = p ++ rest') by (symmetry; apply firstn_skipn).
  assert (Hp : length p = k) by (unfold p; rewrite firstn_length; lia).
  set (la := match rest' with [] => None | d :: _ => Some d end).
  set (r1 := runl true bs sc0 0%N p la []).
  assert (HR : run true bs sc0 0%N bs [] =
               match r_out r1 with
               | Done => run true bs (r_sc r1) (r_idx r1) rest' (r_evs r1)
               | _ => r1
               end).
  { rewrite run_runl. rewrite Hbs at 2. rewrite runl_app. cbv zeta. fold la. fold r1.
    destruct (r_out r1); try reflexivity. rewrite run_runl. reflexivity. }
  pose proof (runl_invariant true bs (Jlen bs) (fun idx s racc c s1 stk' evs => Jlen_step true bs idx s racc c s1 stk' evs)
                p sc0 0%N la []) as Hinv.
  cbn [N.to_nat skipn plus] in Hinv. rewrite Hp in Hinv.
  specialize (Hinv eq_refl Hk).
  assert (Hla : la = nth_error bs k).
  { unfold la, rest'. rewrite <- (hd_skipn bs k). destruct (skipn k bs); reflexivity. }
  specialize (Hinv Hla (Inv0 bs) (Jlen0 bs)). cbv zeta in Hinv. fold r1 in Hinv.
  destruct Hinv as [HI [HJ [HE Hb]]]. unfold run_end_at in HE.
  rewrite HR in H. destruct (r_out r1) eqn:Eo.
  - (* the prefix is consumed *)
    assert (Hidx : r_idx r1 = N.of_nat k) by lia.
    assert (Hsk : skipn (N.to_nat (r_idx r1)) bs = rest') by (rewrite Hidx, Nat2N.id; reflexivity).
    pose proof (back_run bs k rest' (r_sc r1) (r_idx r1) (r_evs r1) Hsk ltac:(lia) HI HJ H ltac:(lia)) as C.
    pose proof HJ as [J1 [J2 _]].
    pose proof (cut_len_closable bs (r_idx r1) (r_sc r1) (r_evs r1) HI J1 J2 ltac:(lia)) as C2.
    destruct (closable2 (r_idx r1) (s_step (r_sc r1)) (s_stack (r_sc r1)) (r_evs r1)) as [raw|] eqn:Ecl;
      [|rewrite C in C2; exfalso; apply C2; reflexivity].
    pose proof (closable_not_mlend bs _ _ _ _ HI (proj2 (closable2_some _ _ _ _ _ Ecl))) as Hml.
    assert (Hrun : run true p sc0 0%N p [] = r1).
    { rewrite run_runl. unfold p at 1. rewrite runl_data by (try lia; rewrite Hp; cbn; lia).
      apply runl_la_none; [exact Eo|exact Hml|exact (proj1 (closable2_some _ _ _ _ _ Ecl))]. }
    fold p. rewrite Hrun. unfold final_revs, final_out. rewrite Eo.
    unfold cut_len in C. rewrite Hidx, Nat2N.id in C. fold p in C. rewrite Hidx. exact C.
  - (* the scanner stopped inside the prefix: impossible *)
    exfalso. destruct HE as [Hlt _]. unfold final_revs, final_out in H. rewrite Eo in H.
    pose proof HJ as [J1 [J2 _]].
    rewrite (len_of_eos bs (r_idx r1) (r_evs r1) J1 J2 ltac:(lia)) in H.
    injection H as H. apply Nat2N.inj in H.
    pose proof (LL_le _ _ J2) as HLL.
    destruct (trimlen_spec (firstn (N.to_nat (LL (r_evs r1))) bs)) as [_ [_ [_ [T3 _]]]].
    rewrite firstn_length in T3. lia.
  - unfold final_out in H. rewrite Eo in H. cbn [len_of] in H. discriminate H.
  - contradiction.
Qed.

(* ================================================================== *)
(* 6. agreement with the JSON scanner on plain JSON arrays             *)
(* ================================================================== *)
Definition tj (e : ev) : Scanner.ev :=
  match e with
  | LiteralBegin => Scanner.LiteralBegin | LiteralEnd => Scanner.LiteralEnd
  | ArrayBegin => Scanner.ArrayBegin | ArrayEnd => Scanner.ArrayEnd
  | ArrayItemBegin => Scanner.ArrayItemBegin | ArrayItemEnd => Scanner.ArrayItemEnd
  | _ => Scanner.EndTop
  end.
Definition to_json_ev (e : lexev) : Scanner.lexev :=
  Scanner.mkev (tj (e_type e)) (e_begin e) (e_end e).
Definition is_newline_ev (e : lexev) : bool :=
  match e_type e with NewLine => true | _ => false end.
Definition nonnl (e : ev) : bool := match e with NewLine => false | _ => true end.
Definition okev (e : ev) : bool :=
  match e with
  | LiteralBegin | LiteralEnd | ArrayBegin | ArrayEnd | ArrayItemBegin | ArrayItemEnd | NewLine => true
  | _ => false
  end.

(* no '/' outside strings *)
Definition nc_next (instr esc : bool) (c : byte) : option (bool * bool) :=
  if instr then
    if esc then Some (true, false)
    else if ch c 34 then Some (false, false)
    else if ch c 92 then Some (true, true)
    else Some (true, false)
  else if ch c 47 then None
  else if ch c 34 then Some (true, false)
  else Some (false, false).
Fixpoint nc_scan (instr esc : bool) (bs : bytes) : bool :=
  match bs with
  | [] => true
  | c :: r => match nc_next instr esc c with Some (i, e) => nc_scan i e r | None => false end
  end.
Definition no_comment (bs : bytes) : bool := nc_scan false false bs.

Definition jst (q : st) : Scanner.st :=
  match q with
  | SBegin => Scanner.FoundRootValue
  | FoundArrayItemBeginOrEmpty => Scanner.FoundArrayItemBeginOrEmpty
  | FoundArrayItemBegin => Scanner.FoundArrayItemBegin
  | EndValue => Scanner.EndValue | AfterArrayItem => Scanner.AfterArrayItem | SEndTop => Scanner.SEndTop
  | InString => Scanner.InString | InStringEsc => Scanner.InStringEsc
  | InStringEscU => Scanner.InStringEscU | InStringEscU1 => Scanner.InStringEscU1
  | InStringEscU12 => Scanner.InStringEscU12 | InStringEscU123 => Scanner.InStringEscU123
  | Neg => Scanner.Neg | S1 => Scanner.S1 | S0 => Scanner.S0 | Dot => Scanner.Dot | Dot0 => Scanner.Dot0
  | ST => Scanner.ST | STr => Scanner.STr | STru => Scanner.STru
  | SF => Scanner.SF | SFa => Scanner.SFa | SFal => Scanner.SFal | SFals => Scanner.SFals
  | SN => Scanner.SN | SNu => Scanner.SNu | SNul => Scanner.SNul
  | _ => Scanner.FoundRootValue
  end.
Definition plainb (q : st) : bool :=
  match q with
  | StAnyAnnotationStart | StInlineAnnotation | StInlineAnnotationText
  | StMultiLineAnnotation | StMultiLineAnnotationText | StMultiLineAnnotationEnd => false
  | _ => true
  end.
Definition instr (q : st) : bool :=
  match q with
  | InString | InStringEsc | InStringEscU | InStringEscU1 | InStringEscU12 | InStringEscU123 => true
  | _ => false
  end.
Definition escb (q : st) : bool := match q with InStringEsc => true | _ => false end.

Definition sim_post (u : bool) (c : byte) (q : st) (stk : list (ev * N)) (s1 : sc) : Prop :=
  s_trail s1 = false /\ plainb (s_step s1) = true /\ forallb okev (s_finds s1) = true /\
  nc_next (instr q) (escb q) c = Some (instr (s_step s1), escb (s_step s1)) /\
  exists u', Scanner.step false (Scanner.mkctl (jst q) u) (map tj (map fst stk)) c =
             Some (Scanner.mkctl (jst (s_step s1)) u', map tj (filter nonnl (s_finds s1))).

Ltac unfold_jstep :=
  unfold Scanner.step; cbn [Scanner.c_st Scanner.c_unf];
  unfold Scanner.state0, Scanner.found_value, Scanner.begin_value, Scanner.end_value,
    Scanner.after_array_item, Scanner.found_array_end, Scanner.end_top, Scanner.expect,
    Scanner.prepend, Scanner.ret.

Ltac use_hyps :=
  repeat match goal with
  | H : ?b = _ |- context [if ?b then _ else _] => rewrite H
  end.

Ltac jsolve :=
  use_hyps;
  repeat (match goal with
          | |- context [if ?b then _ else _] =>
            match type of b with bool => destruct b eqn:? end
          end; use_hyps);
  first [ reflexivity | eexists; reflexivity | exfalso; bsolve ].

Ltac fin_sim :=
  unfold sim_post; cbn_sc;
  split; [reflexivity|]; split; [reflexivity|]; split; [reflexivity|];
  cbn [map fst tj filter nonnl jst instr escb];
  unfold nc_next; unfold_jstep;
  repeat match goal with H : is_newline ?c = true |- _ => apply newline_blank in H end;
  unfold is_blank, ch, is_digit, is_digit19, is_hex, is_ctl, is_newline in *;
  split; jsolve.

Ltac fin_sim_case :=
  lazymatch goal with
  | |- True => exact I
  | |- False => fail
  | |- _ => fin_sim
  end.

Lemma step1_sim data idx q ret stk uniq ann unf c nxt u :
  cinv q ret (map fst stk) ann -> plainb q = true ->
  (instr q = false -> ch c 47 = false) ->
  match step1 false data idx (mksc q ret stk uniq [] ann unf false) c nxt with
  | SOk s1 => sim_post u c q stk s1
  | SEos => False
  | _ => True
  end.
Proof.
  intros Hc Hp Hnc.
  destruct q; try discriminate Hp; cbn [cinv] in Hc; unfold litstk in *; decomp; subst; inv_map.
  all: cbn [instr] in Hnc; try specialize (Hnc eq_refl).
  all: unfold_step.
  all: try match goal with |- context [validate_value ?d ?i ?s'] =>
    let Hvs := fresh "Hvs" in
    pose proof (validate_shape d i s') as Hvs;
    destruct (validate_value d i s') as [r|s2];
    [destruct r; try contradiction; try exact I
    |let k := fresh "k" in destruct Hvs as [k ->]] end.
  all: cbn_sc.
  all: brk_goal.
  all: norm_negb.
  all: try congruence.
  all: fin_sim_case.
Qed.

Definition jstk (stk : list (ev * N)) : list (Scanner.ev * N) :=
  map (fun pb => (tj (fst pb), snd pb)) stk.
Definition nn (e : lexev) : bool := negb (is_newline_ev e).

Lemma jstk_types stk : map fst (jstk stk) = map tj (map fst stk).
Proof. unfold jstk. rewrite !map_map. reflexivity. Qed.

Lemma pfound_sim i stk e s1 x : okev e = true -> nonnl e = true ->
  process_found i stk e = Some (s1, x) ->
  Scanner.process_found i (jstk stk) (tj e) = Some (jstk s1, to_json_ev x) /\ nn x = true.
Proof.
  intros Ho Hn H.
  destruct e; try discriminate Ho; try discriminate Hn;
    cbn [process_found is_opening] in H;
    try (inversion H; subst; split; reflexivity);
    (destruct stk as [|[p b] rest]; [discriminate H|]);
    destruct p; cbn [nonscalar_pair scalar_pair] in H; try discriminate H;
    inversion H; subst; split; reflexivity.
Qed.

Lemma pf_sim i : forall fs stk stk' evs, forallb okev fs = true ->
  pf i stk fs = Some (stk', evs) ->
  EventsProofs.pf i (jstk stk) (map tj (filter nonnl fs)) =
  Some (jstk stk', map to_json_ev (filter nn evs)).
Proof.
  induction fs as [|e r IH]; intros stk stk' evs Ho H; cbn [pf] in H.
  - inversion H; subst. reflexivity.
  - cbn [forallb] in Ho. apply andb_true_iff in Ho. destruct Ho as [Ho1 Ho2].
    destruct (process_found i stk e) as [[s1 x]|] eqn:Ep; [|discriminate H].
    destruct (pf i s1 r) as [[s2 l]|] eqn:Ep2; [|discriminate H]. inversion H; subst.
    cbn [filter]. destruct (nonnl e) eqn:En.
    + destruct (pfound_sim i stk e s1 x Ho1 En Ep) as [P1 P2].
      cbn [map EventsProofs.pf]. rewrite P1, (IH _ _ _ Ho2 Ep2). cbn [filter]. rewrite P2. reflexivity.
    + destruct e; try discriminate En. cbn [process_found] in Ep. inversion Ep; subst.
      cbn [filter nn is_newline_ev e_type negb]. apply IH; assumption.
Qed.

Lemma filter_rev {A} (f : A -> bool) l : filter f (rev l) = rev (filter f l).
Proof.
  induction l as [|a l IH]; [reflexivity|]. cbn [rev filter]. rewrite filter_app, IH. cbn [filter].
  destruct (f a); [reflexivity|apply app_nil_r].
Qed.

Lemma sim_run data : forall bs s idx racc k acc,
  skipn (N.to_nat idx) data = bs -> Inv data idx s ->
  s_trail s = false -> plainb (s_step s) = true ->
  Scanner.c_st (Scanner.k_ctl k) = jst (s_step s) -> Scanner.k_stk k = jstk (s_stack s) ->
  nc_scan (instr (s_step s)) (escb (s_step s)) bs = true ->
  acc = map to_json_ev (filter nn racc) ->
  r_out (run false data s idx bs racc) = Done ->
  exists k', Scanner.run false k idx bs acc =
             (frev (map to_json_ev (filter nn (r_evs (run false data s idx bs racc)))),
              Scanner.Done, k', r_idx (run false data s idx bs racc)) /\
             Scanner.k_stk k' = jstk (s_stack (r_sc (run false data s idx bs racc))).
Proof.
  induction bs as [|c r IH]; intros s idx racc k acc Hsk HI Htr Hpl Hst Hstk Hnc Hacc; cbn [run Scanner.run].
  - intros _. exists k. unfold r_evs, r_idx, r_sc. cbn [fst snd]. subst acc. split; [reflexivity|exact Hstk].
  - destruct (skipn_cons_nth data _ c r Hsk) as [Hn Hsk'].
    destruct (step_good_step false data idx s c (hd_error r) HI Hn) as [Es G].
    rewrite Es in G. rewrite Es.
    cbn [nc_scan] in Hnc.
    destruct (nc_next (instr (s_step s)) (escb (s_step s)) c) as [[i' e']|] eqn:Enc; [|discriminate Hnc].
    assert (Hslash : instr (s_step s) = false -> ch c 47 = false).
    { intros Hi. rewrite Hi in Enc. unfold nc_next in Enc. destruct (ch c 47); [discriminate Enc|reflexivity]. }
    pose proof HI as [Hf Hc _ _].
    destruct s as [q ret stk uniq finds ann unf trail]. cbn_sc_in Hf. cbn_sc_in Hc. cbn_sc_in Htr.
    cbn_sc_in Hpl. cbn_sc_in Hst. cbn_sc_in Hstk. cbn_sc_in Hnc. cbn_sc_in Enc. cbn_sc_in Hslash.
    cbn_sc_in G. subst finds trail.
    destruct k as [[jq u] kstk]. cbn [Scanner.k_ctl Scanner.k_stk Scanner.c_st] in *. subst jq kstk.
    pose proof (step1_sim data idx q ret stk uniq ann unf c (hd_error r) u Hc Hpl Hslash) as A.
    destruct (step1 false data idx (mksc q ret stk uniq [] ann unf false) c (hd_error r))
      as [s1|code pos| | |] eqn:E1; cbn [step_good] in G; try contradiction;
      try (unfold r_out; cbn [fst snd]; discriminate).
    destruct G as [G1 [G2 [G2' [stk' [evs [G3 G4]]]]]]. cbn_sc_in G1. cbn_sc_in G3.
    destruct A as [A1 [A2 [A3 [A4 [u' A5]]]]].
    pose proof (process_finds_pf idx (s_finds s1) (s_stack s1) racc) as P.
    rewrite G1, G3 in P. rewrite G1, P.
    rewrite jstk_types, A5.
    rewrite EventsProofs.process_finds_pf. rewrite (pf_sim idx _ _ _ _ A3 G3). cbn [rev app].
    rewrite Enc in A4. injection A4 as -> ->.
    intros Hd.
    apply (IH (set_finds [] (set_stack stk' s1)) (N.succ idx) (rev evs ++ racc)
              (Scanner.mkcfg (Scanner.mkctl (jst (s_step s1)) u') (jstk stk'))).
    + rewrite Nsucc_nat. exact Hsk'.
    + exact G4.
    + cbn_sc. exact A1.
    + cbn_sc. exact A2.
    + reflexivity.
    + reflexivity.
    + cbn_sc. exact Hnc.
    + rewrite ScannerProofs.frev_rev, filter_app, map_app, filter_rev, map_rev. subst acc. reflexivity.
    + exact Hd.
Qed.

Lemma skipn_nth {A} (l : list A) : forall n c, nth_error l n = Some c -> skipn n l = c :: skipn (S n) l.
Proof.
  induction l as [|x l IH]; intros [|n] c H; cbn [nth_error] in H; try discriminate.
  - inversion H; reflexivity.
  - cbn [skipn]. apply (IH n c H).
Qed.

Definition Jplain (bs : bytes) (idx : N) (s : sc) (racc : list lexev) : Prop :=
  s_trail s = false /\ plainb (s_step s) = true /\
  nc_scan (instr (s_step s)) (escb (s_step s)) (skipn (N.to_nat idx) bs) = true.

Lemma plain_step bs idx s c nxt : Inv bs idx s -> Jplain bs idx s [] ->
  nth_error bs (N.to_nat idx) = Some c ->
  match step1 false bs idx s c nxt with
  | SOk s1 => s_trail s1 = false /\ plainb (s_step s1) = true /\
              nc_scan (instr (s_step s1)) (escb (s_step s1)) (skipn (S (N.to_nat idx)) bs) = true
  | SEos => False
  | _ => True
  end.
Proof.
  intros [Hf Hc _ _] [Htr [Hpl Hnc]] Hn.
  rewrite (skipn_nth bs _ c Hn) in Hnc. cbn [nc_scan] in Hnc.
  destruct (nc_next (instr (s_step s)) (escb (s_step s)) c) as [[i' e']|] eqn:Enc; [|discriminate Hnc].
  assert (Hslash : instr (s_step s) = false -> ch c 47 = false).
  { intros Hi. rewrite Hi in Enc. unfold nc_next in Enc. destruct (ch c 47); [discriminate Enc|reflexivity]. }
  destruct s as [q ret stk uniq finds ann unf trail]. cbn_sc_in Hf. cbn_sc_in Hc. cbn_sc_in Htr.
  cbn_sc_in Hpl. cbn_sc_in Enc. cbn_sc_in Hslash. subst finds trail.
  pose proof (step1_sim bs idx q ret stk uniq ann unf c nxt false Hc Hpl Hslash) as A.
  destruct (step1 false bs idx (mksc q ret stk uniq [] ann unf false) c nxt); try exact A; try exact I.
  destruct A as [A1 [A2 [_ [A4 _]]]]. rewrite Enc in A4. injection A4 as -> ->. auto.
Qed.

Lemma Jplain_step bs idx s racc c s1 stk' evs :
  Inv bs idx s -> Jplain bs idx s racc ->
  nth_error bs (N.to_nat idx) = Some c ->
  step1 false bs idx s c (nth_error bs (S (N.to_nat idx))) = SOk s1 ->
  pf idx (s_stack s) (s_finds s1) = Some (stk', evs) ->
  shape_ok (s_finds s1) -> noet (s_finds s1) = true ->
  Jplain bs (N.succ idx) (set_finds [] (set_stack stk' s1)) (rev evs ++ racc).
Proof.
  intros HI HJ Hn Hs _ _ _.
  pose proof (plain_step bs idx s c (nth_error bs (S (N.to_nat idx))) HI HJ Hn) as A.
  rewrite Hs in A. unfold Jplain. cbn_sc. rewrite Nsucc_nat. exact A.
Qed.

Lemma tail_plain_eos data m s : Inv data m s -> plainb (s_step s) = true ->
  snd (etail s m []) = Eos -> s_stack s = [] /\ fst (etail s m []) = [].
Proof.
  intros [_ Hc _ _] Hp. destruct s as [q ret stk uniq finds ann unf trail]. cbn_sc_in Hc. cbn_sc_in Hp.
  unfold etail. cbn_sc.
  destruct q; try discriminate Hp; cbn [cinv] in Hc; unfold litstk in *; decomp; subst; inv_map;
    cbn [tail]; try (destruct unf); cbn [tail fst snd]; try discriminate; split; reflexivity.
Qed.

(* P4 *)
Theorem enum_events_agree_with_json : forall bs evs,
  scan false bs = (evs, Eos) -> no_comment bs = true ->
  map to_json_ev (filter (fun e => negb (is_newline_ev e)) evs) = fst (Scanner.scan false bs) /\
  snd (Scanner.scan false bs) = Scanner.Done.
Proof.
  intros bs evs H Hnc. change (fun e => negb (is_newline_ev e)) with nn.
  rewrite scan_cases in H. cbv zeta in H.
  destruct (run0_invariant false bs (Jplain bs)) as [HI [HJ [HE _]]].
  { intros. eapply Jplain_step; eassumption. }
  { unfold Jplain. cbn. auto. }
  cbv zeta in *. set (r := run false bs sc0 0%N bs []) in *.
  unfold run_end, run_end_at in HE. pose proof HJ as [_ [Hpl _]].
  destruct (r_out r) eqn:Eo.
  - (* the input is exhausted *)
    rewrite etail_acc in H. cbn [fst snd] in H. injection H as Hev Hout.
    pose proof (tail_plain_eos bs _ _ HI Hpl) as Hst. rewrite HE in Hst. rewrite HE in Hev, Hout.
    destruct (Hst Hout) as [Hst0 Hst1]. clear Hst. rename Hst0 into Hst.
    rewrite Hst1 in Hev. cbn [app] in Hev.
    destruct (sim_run bs bs sc0 0%N [] Scanner.cfg0 [] eq_refl (Inv0 bs) eq_refl eq_refl eq_refl eq_refl
                Hnc eq_refl Eo) as [k' [Hrun Hk]].
    fold r in Hrun, Hk. rewrite Hst in Hk. cbn [jstk map] in Hk.
    unfold Scanner.scan. rewrite Hrun. cbn [Scanner.tail]. rewrite Hk. cbn [fst snd].
    split; [|reflexivity].
    rewrite !ScannerProofs.frev_rev, rev_involutive. subst evs.
    rewrite frev_rev, filter_rev, map_rev. reflexivity.
  - (* errEOS in the middle: not in this mode *)
    exfalso. destruct HE as [_ [c [Hn Hs]]].
    pose proof (plain_step bs (r_idx r) (r_sc r) c (nth_error bs (S (N.to_nat (r_idx r)))) HI HJ Hn) as A.
    rewrite Hs in A. exact A.
  - discriminate H.
  - discriminate H.
Qed.

(* non-vacuity, and the role of the hypotheses *)
Example enum_agree_example :
  let bs := [x5b; x31; x2c; x0a; x22; x2f; x22; x5d] in   (* [1,\n"/"] *)
  snd (scan false bs) = Eos /\ no_comment bs = true /\
  map (fun e => (Scanner.e_type e, Scanner.e_begin e, Scanner.e_end e)) (fst (Scanner.scan false bs)) =
  [(Scanner.ArrayBegin, 0, 0); (Scanner.ArrayItemBegin, 1, 1); (Scanner.LiteralBegin, 1, 1);
   (Scanner.LiteralEnd, 1, 1); (Scanner.ArrayItemEnd, 1, 1);
   (Scanner.ArrayItemBegin, 4, 4); (Scanner.LiteralBegin, 4, 4);
   (Scanner.LiteralEnd, 4, 6); (Scanner.ArrayItemEnd, 4, 6); (Scanner.ArrayEnd, 0, 7)]%N /\
  (* a comment is refused by [no_comment] *)
  no_comment [x5b; x5d; x2f; x2f] = false.
Proof. vm_compute. repeat split; reflexivity. Qed.

(* ================================================================== *)
(* 7. a text never ends right after the first byte of // or /*         *)
(* ================================================================== *)
(* an accepted text does not leave the scanner in the state switchToAnnotation installs;
   [r_sc (run lc bs sc0 0 bs [])] is the scanner structure when Next() stops reading *)
Theorem enum_scan_eos_not_in_opener : forall lc bs evs, scan lc bs = (evs, Eos) ->
  s_step (r_sc (run lc bs sc0 0%N bs [])) <> StAnyAnnotationStart.
Proof.
  intros lc bs evs H. rewrite scan_cases in H. cbv zeta in H.
  destruct (run0_invariant lc bs (fun _ _ _ => True)) as [HI [_ [HE _]]]; [auto|exact I|].
  cbv zeta in *. set (r := run lc bs sc0 0%N bs []) in *.
  unfold run_end, run_end_at in HE. destruct (r_out r) eqn:Eo; try discriminate H.
  - destruct (etail_cases (r_sc r) (r_idx r) (r_evs r)) as [[_ E]|[E _]]; [|exact E].
    rewrite E in H. discriminate H.
  - destruct HE as [_ [c [_ Hs]]]. pose proof (step1_eos_idle _ _ _ _ _ _ HI Hs) as Hid.
    intros E. rewrite E in Hid. destruct (map fst (s_stack (r_sc r))); discriminate Hid.
Qed.

(* and the converse: a text read to its end in that state is refused with ErrUnexpectedEOF at
   its last byte, after the events delivered so far *)
Theorem enum_scan_opener_eof : forall lc bs,
  let r := run lc bs sc0 0%N bs [] in
  r_out r = Done -> s_step (r_sc r) = StAnyAnnotationStart ->
  bs <> [] /\
  scan lc bs = (rev (r_evs r), Err code_unexpected_eof (N.of_nat (length bs) - 1)%N).
Proof.
  intros lc bs r Eo E. destruct (run_spans lc bs) as [_ [[_ H0] [HE _]]]. cbv zeta in *. fold r in H0, HE.
  unfold run_end, run_end_at in HE. rewrite Eo in HE. split.
  - intros ->. cbn [length N.of_nat] in HE. rewrite (H0 HE) in E. discriminate E.
  - rewrite scan_cases. cbv zeta. fold r. rewrite Eo. unfold etail. rewrite E. cbn [fst snd].
    rewrite frev_rev, HE. reflexivity.
Qed.

(* errEOS before the end of the input is length-computing mode only *)
Lemma step1_trail data idx q ret stk uniq ann unf c nxt :
  cinv q ret (map fst stk) ann ->
  match step1 false data idx (mksc q ret stk uniq [] ann unf false) c nxt with
  | SOk s1 => s_trail s1 = false
  | SEos => False
  | _ => True
  end.
Proof.
  intros Hc.
  destruct q; cbn [cinv] in Hc; unfold litstk in *; decomp; try inv_base; subst; inv_map.
  all: unfold_step.
  all: try match goal with |- context [validate_value ?d ?i ?s'] =>
    let Hvs := fresh "Hvs" in
    pose proof (validate_shape d i s') as Hvs;
    destruct (validate_value d i s') as [r|s2];
    [destruct r; try contradiction; try exact I
    |let k := fresh "k" in destruct Hvs as [k ->]] end.
  all: cbn_sc; cbn [andb].
  all: brk_goal.
  all: try exact I; try reflexivity.
Qed.

Definition Jcheck (data : bytes) (idx : N) (s : sc) (racc : list lexev) : Prop :=
  Jlen data idx s racc /\ s_trail s = false.

Lemma Jcheck_step data idx s racc c s1 stk' evs :
  Inv data idx s -> Jcheck data idx s racc ->
  nth_error data (N.to_nat idx) = Some c ->
  step1 false data idx s c (nth_error data (S (N.to_nat idx))) = SOk s1 ->
  pf idx (s_stack s) (s_finds s1) = Some (stk', evs) ->
  shape_ok (s_finds s1) -> noet (s_finds s1) = true ->
  Jcheck data (N.succ idx) (set_finds [] (set_stack stk' s1)) (rev evs ++ racc).
Proof.
  intros HI [HJ Ht] Hn Hs Hp Hsh Hne. split; [eapply Jlen_step; eassumption|]. cbn_sc.
  destruct HI as [Hf Hc _ _]. destruct s as [q ret stk uniq finds ann unf trail].
  cbn_sc_in Hf. cbn_sc_in Hc. cbn_sc_in Ht. subst finds trail.
  pose proof (step1_trail data idx q ret stk uniq ann unf c (nth_error data (S (N.to_nat idx))) Hc) as A.
  rewrite Hs in A. exact A.
Qed.

(* Check mode reads the whole text unless it meets an error *)
Lemma run_check bs :
  let r := run false bs sc0 0%N bs [] in
  Inv bs (r_idx r) (r_sc r) /\ Jcheck bs (r_idx r) (r_sc r) (r_evs r) /\ run_end false bs r /\
  r_out r <> Eos.
Proof.
  destruct (run0_invariant false bs (Jcheck bs)) as [HI [HJ [HE _]]].
  - intros idx s racc c s1 stk' evs HI0 HJ0 Hn0 Hs0 Hp0 Hsh0 Hne0. eapply Jcheck_step; eassumption.
  - split; [apply Jlen0|reflexivity].
  - cbv zeta in *. split; [exact HI|]. split; [exact HJ|]. split; [exact HE|].
    intros Eo. unfold run_end, run_end_at in HE. rewrite Eo in HE. destruct HE as [_ [c [_ Hs]]].
    destruct HI as [Hf Hc _ _]. destruct HJ as [_ Ht].
    destruct (r_sc (run false bs sc0 0%N bs [])) as [q ret stk uniq finds ann unf trail].
    cbn_sc_in Hf. cbn_sc_in Hc. cbn_sc_in Ht. subst finds trail.
    pose proof (step1_trail bs (r_idx (run false bs sc0 0%N bs [])) q ret stk uniq ann unf c
                  (nth_error bs (S (N.to_nat (r_idx (run false bs sc0 0%N bs []))))) Hc) as A.
    rewrite Hs in A. exact A.
Qed.

(* outside length mode a look-ahead byte other than '/' is as good as none *)
Lemma step1_la_noslash data idx s c d : ch d 47 = false ->
  step1 false data idx s c (Some d) = step1 false data idx s c None.
Proof.
  intros H. unfold step1, state0, end_value, end_top, multi_line_annotation_text.
  cbn [andb]. rewrite H, !andb_false_r. reflexivity.
Qed.

Lemma dispatch_la_noslash data idx c d : ch d 47 = false -> forall f s,
  dispatch f false data idx s c (Some d) = dispatch f false data idx s c None.
Proof.
  intros H. induction f as [|f IH]; intros s; cbn [dispatch]; rewrite (step1_la_noslash _ _ _ _ _ H).
  - reflexivity.
  - destruct (step1 false data idx s c None); try reflexivity. apply IH.
Qed.

Lemma runl_la_noslash data d : ch d 47 = false -> forall bs s idx racc,
  runl false data s idx bs (Some d) racc = runl false data s idx bs None racc.
Proof.
  intros H. induction bs as [|c r IH]; intros s idx racc; cbn [runl]; [reflexivity|].
  destruct r as [|d' r'].
  - unfold step. rewrite (dispatch_la_noslash _ _ _ _ H). reflexivity.
  - destruct (step false data idx s c (Some d')) as [s1|code pos| | |s']; try reflexivity.
    destruct (process_finds idx (s_stack s1) (s_finds s1) racc) as [[stk' racc'] ok].
    destruct ok; [|reflexivity]. apply IH.
Qed.

(* the run over bs ++ [a; '/'] is the run over bs, then two more bytes *)
Lemma run_snoc2 bs a : ch a 47 = false ->
  run false (bs ++ [a; x2f]) sc0 0%N (bs ++ [a; x2f]) [] =
  let r := run false bs sc0 0%N bs [] in
  match r_out r with
  | Done => runl false (bs ++ [a; x2f]) (r_sc r) (r_idx r) [a; x2f] None (r_evs r)
  | _ => r
  end.
Proof.
  intros Ha. rewrite run_runl, runl_app. cbv zeta.
  rewrite (runl_la_noslash _ _ Ha).
  assert (Hf : firstn (length bs) (bs ++ [a; x2f]) = bs).
  { rewrite firstn_app, Nat.sub_diag, firstn_all. cbn [firstn]. apply app_nil_r. }
  pose proof (runl_data false (bs ++ [a; x2f]) (length bs)) as R.
  specialize (R ltac:(rewrite app_length; lia) bs sc0 0%N None [] ltac:(cbn; lia)).
  rewrite Hf in R. rewrite <- R, <- run_runl. reflexivity.
Qed.

(* two more bytes, a blank and '/', from a configuration in which the text may end *)
Lemma two_more data m s a racc :
  s_finds s = [] -> cinv (s_step s) (s_ret s) (map fst (s_stack s)) (s_ann s) ->
  snd (etail s m []) = Eos -> s_step s <> SBegin -> s_trail s = false ->
  (a = x0a \/ (a = x20 /\ s_stack s = [])) ->
  exists racc' s', runl false data s m [a; x2f] None racc = (racc', Done, s', N.succ (N.succ m)) /\
                   s_step s' = StAnyAnnotationStart.
Proof.
  intros Hf Hc He Hq Ht Ha. destruct s as [q ret stk uniq finds ann unf trail].
  cbn_sc_in Hf. cbn_sc_in Hc. cbn_sc_in Hq. cbn_sc_in Ht. cbn_sc_in Ha. subst finds trail.
  unfold etail in He. cbn_sc_in He. revert Ha.
  destruct q; cbn [cinv] in Hc; unfold litstk in *; decomp; try inv_base; subst; inv_map;
    cbn [tail] in He; try (destruct unf); cbn [tail snd] in He; try discriminate He; try congruence.
  all: intros [->|[-> Hs]]; try discriminate Hs.
  all: cbv -[N.succ N.sub N.add].
  all: do 2 eexists; split; reflexivity.
Qed.

Lemma scan_appended_opener bs a :
  (a = x0a \/ (a = x20 /\ s_stack (r_sc (run false bs sc0 0%N bs [])) = [])) ->
  snd (scan false bs) = Eos -> forallb is_blank bs = false ->
  snd (scan false (bs ++ [a; x2f])) = Err code_unexpected_eof (N.of_nat (length bs) + 1)%N.
Proof.
  intros Ha H Hnb. destruct (run_check bs) as [HI [[HJ Ht] [HE Hne]]]. cbv zeta in *.
  set (r := run false bs sc0 0%N bs []) in *.
  rewrite scan_cases in H. cbv zeta in H. fold r in H.
  unfold run_end, run_end_at in HE.
  destruct (r_out r) eqn:Eo; cbn [snd] in H; try discriminate H; [|congruence].
  rewrite etail_acc in H. cbn [snd] in H.
  assert (Hq : s_step (r_sc r) <> SBegin).
  { intros Eq. destruct HJ as [_ [_ [J3 _]]]. destruct (J3 Eq) as [_ Hbl].
    rewrite HE, Nat2N.id, firstn_all in Hbl. congruence. }
  destruct (two_more (bs ++ [a; x2f]) (r_idx r) (r_sc r) a (r_evs r)
              (inv_finds _ _ _ HI) (inv_c _ _ _ HI) H Hq Ht Ha) as [racc' [s' [Hrun Hstep]]].
  assert (Hsl : ch a 47 = false) by (destruct Ha as [->|[-> _]]; reflexivity).
  rewrite scan_cases. cbv zeta. rewrite (run_snoc2 bs a Hsl). cbv zeta. fold r.
  rewrite Eo, Hrun. unfold r_out, r_sc, r_idx, r_evs. cbn [fst snd]. unfold etail. rewrite Hstep.
  cbn [snd]. f_equal. unfold r_idx in HE. lia.
Qed.

(* P5: after a text the scanner accepts (other than a blank one, to which the array has yet to
   come), a new line and a single '/' are refused: unexpected end at the '/' *)
Theorem enum_scan_opener_after_newline_refused : forall bs,
  snd (scan false bs) = Eos -> forallb is_blank bs = false ->
  snd (scan false (bs ++ [x0a; x2f])) = Err code_unexpected_eof (N.of_nat (length bs) + 1)%N.
Proof. intros bs. apply scan_appended_opener. left. reflexivity. Qed.

(* the same with a space, when the accepted text does not end inside an inline annotation
   (nothing is left open: there a '/' is annotation text) *)
Theorem enum_scan_opener_after_space_refused : forall bs,
  snd (scan false bs) = Eos -> forallb is_blank bs = false ->
  s_stack (r_sc (run false bs sc0 0%N bs [])) = [] ->
  snd (scan false (bs ++ [x20; x2f])) = Err code_unexpected_eof (N.of_nat (length bs) + 1)%N.
Proof. intros bs H Hnb Hs. apply scan_appended_opener; auto. Qed.

(* in particular when the accepted text has no '/' outside strings *)
Theorem enum_scan_opener_after_space_refused_plain : forall bs,
  snd (scan false bs) = Eos -> forallb is_blank bs = false -> no_comment bs = true ->
  snd (scan false (bs ++ [x20; x2f])) = Err code_unexpected_eof (N.of_nat (length bs) + 1)%N.
Proof.
  intros bs H Hnb Hnc. apply enum_scan_opener_after_space_refused; [exact H|exact Hnb|].
  destruct (run_check bs) as [_ [_ [_ Hne]]].
  destruct (run0_invariant false bs (Jplain bs)) as [HI [HJ [HE _]]].
  { intros idx s racc c s1 stk' evs HI0 HJ0 Hn0 Hs0 Hp0 Hsh0 Hne0. eapply Jplain_step; eassumption. }
  { unfold Jplain. cbn. auto. }
  cbv zeta in *. set (r := run false bs sc0 0%N bs []) in *.
  rewrite scan_cases in H. cbv zeta in H. fold r in H. destruct HJ as [_ [Hpl _]].
  unfold run_end, run_end_at in HE.
  destruct (r_out r) eqn:Eo; cbn [snd] in H; try discriminate H; [|congruence].
  rewrite etail_acc in H. cbn [snd] in H.
  exact (proj1 (tail_plain_eos bs _ _ HI Hpl H)).
Qed.

(* both side conditions are needed *)
Example enum_scan_opener_side_conditions :
  (* a blank text is accepted; the '/' then stands where the array is expected *)
  snd (scan false []) = Eos /\
  snd (scan false ([] ++ [x0a; x2f])) = Err code_enum_array_expected 1%N /\
  (* "[]//" is accepted; in "[]// /" the last '/' is annotation text *)
  snd (scan false [x5b; x5d; x2f; x2f]) = Eos /\
  snd (scan false ([x5b; x5d; x2f; x2f] ++ [x20; x2f])) = Eos /\
  snd (scan false ([x5b; x5d; x2f; x2f] ++ [x0a; x2f])) = Err code_unexpected_eof 5%N /\
  (* the consumers: Check refuses "[1] /" and "[1]/"; for Len (length-computing mode) a '/' after
     the array with nothing after it is the first byte after the rule (fix 3cd814f), while inside
     the array ("[1,/") it is the unfinished opener there too *)
  enum_check [x5b; x31; x5d; x20; x2f] = VErr code_unexpected_eof 4%N /\
  enum_len [x5b; x31; x5d; x20; x2f] = (VOk, 3%N) /\
  enum_len [x5b; x31; x5d; x2f] = (VOk, 3%N) /\
  enum_len [x5b; x31; x2c; x2f] = (VErr code_unexpected_eof 3%N, 0%N) /\
  (* fix a0479cf: in "[1] /x" the slash begins neither // nor /*: Len stops before it *)
  enum_len [x5b; x31; x5d; x20; x2f; x78] = (VOk, 3%N) /\
  enum_len [x5b; x31; x5d; x20; x78] = (VOk, 3%N).
Proof. vm_compute. repeat split; reflexivity. Qed.

(* the fixes a0479cf (length mode: a slash after the array that begins neither // nor /* is the
   first byte after the rule) and 7bb5f56 (numbers of one kind are duplicates by value) *)
Example enum_slash_and_number_key_examples :
  (* "[1, 2]" LF "/cats": Len 6; the events end with the NewLine at 6 *)
  enum_len [x5b; x31; x2c; x20; x32; x5d; x0a; x2f; x63; x61; x74; x73] = (VOk, 6%N) /\
  enum_len (firstn 6 [x5b; x31; x2c; x20; x32; x5d; x0a; x2f; x63; x61; x74; x73]) = (VOk, 6%N) /\
  (* "[1]/x": Len 3; so is a slash at the very end since the fix 3cd814f *)
  enum_len [x5b; x31; x5d; x2f; x78] = (VOk, 3%N) /\
  enum_len [x5b; x31; x5d; x20; x2f] = (VOk, 3%N) /\
  (* "[1] //" and "[1] /**/" are annotations as before *)
  enum_len [x5b; x31; x5d; x20; x2f; x2f] = (VOk, 6%N) /\
  enum_len [x5b; x31; x5d; x20; x2f; x2a; x2a; x2f] = (VOk, 8%N) /\
  (* Check mode is not affected: "[1] /x" is refused at the x *)
  enum_check [x5b; x31; x5d; x20; x2f; x78] = VErr code_invalid_character 5%N /\
  (* "[1.0,1.00]" and "[0,-0]" are duplicates, "[2,2.0]" (an integer and a float) are not *)
  enum_check [x5b; x31; x2e; x30; x2c; x31; x2e; x30; x30; x5d] = VErr code_duplication_in_enum 5%N /\
  enum_check [x5b; x30; x2c; x2d; x30; x5d] = VErr code_duplication_in_enum 3%N /\
  enum_check [x5b; x32; x2c; x32; x2e; x30; x5d] = VOk /\
  fst (enum_len [x5b; x31; x2e; x30; x2c; x31; x2e; x30; x30; x5d]) = VErr code_duplication_in_enum 5%N.
Proof. vm_compute. repeat split; reflexivity. Qed.

(* ================================================================== *)
(* 8. comments are blanks                                              *)
(* ================================================================== *)
Inductive gst := GPre | GCode (i e : bool) | GSlash | GLine | GBlock | GBlockEnd.

Definition dc_next (g : gst) (c : byte) (nxt : option byte) : option (gst * byte) :=
  match g with
  | GPre => if is_blank c then Some (GPre, c) else if ch c 91 then Some (GCode false false, c) else None
  | GCode i e => match nc_next i e c with Some (i', e') => Some (GCode i' e', c) | None => Some (GSlash, x20) end
  | GSlash => if ch c 47 then Some (GLine, x20) else if ch c 42 then Some (GBlock, x20) else None
  | GLine => if is_newline c then Some (GCode false false, x20) else Some (GLine, x20)
  | GBlock => if (ch c 42 && match nxt with Some d => ch d 47 | None => false end)%bool
              then Some (GBlockEnd, x20) else Some (GBlock, x20)
  | GBlockEnd => if ch c 47 then Some (GCode false false, x20) else None
  end.
Fixpoint decom (g : gst) (bs : bytes) : option bytes :=
  match bs with
  | [] => match g with GPre | GCode _ _ | GLine => Some [] | _ => None end
  | c :: r =>
    match dc_next g c (hd_error r) with
    | None => None
    | Some (g', c') => match decom g' r with Some r' => Some (c' :: r') | None => None end
    end
  end.
Definition decomment (bs : bytes) : option bytes := decom GPre bs.

Definition keep (e : lexev) : bool :=
  match e_type e with
  | LiteralBegin | LiteralEnd | ArrayBegin | ArrayEnd | ArrayItemBegin | ArrayItemEnd => true
  | _ => false
  end.

Definition stableb (q : st) : bool :=
  match q with FoundArrayItemBeginOrEmpty | FoundArrayItemBegin | AfterArrayItem | SEndTop => true | _ => false end.
Definition stable (s : sc) : Prop :=
  stableb (s_step s) = true /\ s_ret s = [] /\ s_ann s = false /\ s_finds s = [] /\ s_trail s = false.
Definition cm (q : st) (top : list (ev * N)) (s' : sc) : sc :=
  mksc q [s_step s'] (top ++ s_stack s') (s_uniq s') [] true (s_unf s') (s_trail s').

Definition Rel (g : gst) (s s' : sc) : Prop :=
  match g with
  | GPre => s = s' /\ s_step s' = SBegin /\ s_trail s' = false
  | GCode i e => s = s' /\ instr (s_step s') = i /\ escb (s_step s') = e /\ plainb (s_step s') = true /\
                 s_step s' <> SBegin /\ s_trail s' = false
  | GSlash => stable s' /\ s = set_step StAnyAnnotationStart (set_ret [s_step s'] s')
  | GLine => stable s' /\ exists b, s = cm StInlineAnnotation [(InlineAnnotationBegin, b)] s' \/
             exists b2, s = cm StInlineAnnotationText [(InlineAnnotationTextBegin, b2); (InlineAnnotationBegin, b)] s'
  | GBlock => stable s' /\ exists b, s = cm StMultiLineAnnotation [(MultiLineAnnotationBegin, b)] s' \/
             exists b2, s = cm StMultiLineAnnotationText [(MultiLineAnnotationTextBegin, b2); (MultiLineAnnotationBegin, b)] s'
  | GBlockEnd => stable s' /\ exists b, s = cm StMultiLineAnnotationEnd [(MultiLineAnnotationBegin, b)] s'
  end.

(* ---- in Check mode a step outside annotations does not depend on the look-ahead, and on the
   data only through the bytes of the literal being read ---- *)
Lemma end_top_false_la idx s c n n' : end_top false idx s c n = end_top false idx s c n'.
Proof. unfold end_top. destruct n; destruct n'; reflexivity. Qed.

Lemma end_value_indep d d' idx s c n n' :
  (forall b rest, s_stack s = (LiteralBegin, b) :: rest -> slice d b idx = slice d' b idx) ->
  end_value false d idx s c n = end_value false d' idx s c n'.
Proof.
  intros H. unfold end_value. destruct (s_stack s) as [|[t b] rest] eqn:Es; [apply end_top_false_la|].
  destruct t; try reflexivity.
  unfold validate_value, found. cbn_sc. rewrite Es. rewrite (H b rest eq_refl).
  destruct (slice d' b idx) as [v|]; [|reflexivity]. destruct (enum_item v) as [k|]; [|reflexivity].
  destruct (existsb (key_eqb k) (s_uniq s)); [reflexivity|].
  destruct rest as [|[t2 b2] rest2]; [apply end_top_false_la|reflexivity].
Qed.

Lemma step1_indep d d' idx s c n n' : plainb (s_step s) = true ->
  (forall b rest, s_stack s = (LiteralBegin, b) :: rest -> slice d b idx = slice d' b idx) ->
  step1 false d idx s c n = step1 false d' idx s c n'.
Proof.
  intros Hp H. unfold step1, state0. destruct (s_step s); try discriminate Hp; try reflexivity;
    rewrite ?(end_value_indep d d' idx s c n n' H); try reflexivity.
  apply end_top_false_la.
Qed.

(* ---- a slash where a blank would do: the same step, and the annotation opener on top ---- *)
Lemma step1_slash_blank d idx q ret stk uniq ann unf c1 c2 n1 n2 :
  cinv q ret (map fst stk) ann -> plainb q = true -> instr q = false -> q <> SBegin ->
  ch c1 47 = true -> is_blank c2 = true ->
  match step1 false d idx (mksc q ret stk uniq [] ann unf false) c2 n2 with
  | SOk s1' =>
    is_newline c2 = false ->
    stable (set_finds [] s1') /\
    step1 false d idx (mksc q ret stk uniq [] ann unf false) c1 n1 =
      SOk (set_step StAnyAnnotationStart (set_ret [s_step s1'] s1'))
  | _ => True
  end.
Proof.
  intros Hc Hp Hi Hq H1 H2.
  destruct q; try discriminate Hp; try discriminate Hi; try congruence;
    cbn [cinv] in Hc; unfold litstk in *; decomp; subst; inv_map.
  all: unfold_step.
  all: try match goal with |- context [validate_value ?d ?i ?s'] =>
    let Hvs := fresh "Hvs" in
    pose proof (validate_shape d i s') as Hvs;
    destruct (validate_value d i s') as [r|s2];
    [destruct r; try contradiction; try exact I
    |let k := fresh "k" in destruct Hvs as [k ->]] end.
  all: cbn_sc; cbn [andb].
  all: brk_goal.
  all: norm_negb.
  all: try exact I.
  all: try (exfalso; bsolve).
  all: intros Hnl; try (exfalso; bsolve).
  all: unfold stable; cbn_sc; cbn [stableb].
  all: try (split; [repeat split|reflexivity]).
Qed.

Lemma stable_blank d idx s' n : stable s' -> step1 false d idx s' x20 n = SOk s'.
Proof.
  destruct s' as [q ret stk uniq finds ann unf trail]. unfold stable. cbn_sc.
  intros [Hq [-> [-> [-> ->]]]]. destruct q; try discriminate Hq; unfold_step; reflexivity.
Qed.

Lemma step_of_step1 lc d idx s c n s1 : step1 lc d idx s c n = SOk s1 -> step lc d idx s c n = SOk s1.
Proof. intros H. unfold step. destruct (length (s_ret s)); cbn [dispatch]; rewrite H; reflexivity. Qed.

Lemma comment_step d idx g s s' c nxt g' c' racc :
  match g with GPre | GCode _ _ => False | _ => True end ->
  Rel g s s' -> dc_next g c nxt = Some (g', c') ->
  c' = x20 /\
  exists s1 stk1 racc1, step false d idx s c nxt = SOk s1 /\
    process_finds idx (s_stack s1) (s_finds s1) racc = (stk1, racc1, true) /\
    filter keep racc1 = filter keep racc /\ Rel g' (set_finds [] (set_stack stk1 s1)) s'.
Proof.
  intros Hg HR Hd. destruct s' as [q ret stk uniq finds ann unf trail].
  destruct g; try contradiction; cbn [Rel] in HR; unfold stable in HR; cbn_sc_in HR; decomp; subst;
    unfold dc_next in Hd; brk_hyp Hd; try discriminate Hd; injection Hd as <- <-; (split; [reflexivity|]).
  all: destruct (is_blank c) eqn:Ebl; destruct (is_newline c) eqn:Enl.
  all: do 3 eexists; split; [apply step_of_step1; unfold cm; unfold_step;
    repeat match goal with H : ?b = _ |- context [?b] => rewrite H end; cbn [negb andb];
    repeat match goal with H : ?b = _ |- context [?b] => rewrite H end; reflexivity|].
  all: cbn_sc; cbn [process_finds process_found is_opening nonscalar_pair scalar_pair];
    (split; [reflexivity|]); (split; [reflexivity|]).
  all: cbn [Rel]; unfold stable, cm; cbn_sc.
  all: first [ split; [repeat split; first [assumption|reflexivity]
                      | first [eexists; left; reflexivity | eexists; right; eexists; reflexivity | eexists; reflexivity]]
             | destruct q; try discriminate H; cbn; repeat split; try reflexivity; discriminate
             | exfalso; match goal with HH : (ch _ 42 && _)%bool = true |- _ =>
                 apply andb_prop in HH; destruct HH as [Hst _] end; bsolve ].
Qed.

Lemma pf_forall (P : ev * N -> Prop) i : forall fs stk stk' evs, Forall P stk -> (forall e, P (e, i)) ->
  pf i stk fs = Some (stk', evs) -> Forall P stk'.
Proof.
  induction fs as [|e r IH]; intros stk stk' evs Hs Hp H; cbn [pf] in H.
  - inversion H; subst. exact Hs.
  - destruct (process_found i stk e) as [[s1 x]|] eqn:Ep; [|discriminate H].
    destruct (pf i s1 r) as [[s2 l]|] eqn:Ep2; [|discriminate H]. inversion H; subst.
    apply (IH s1 stk' l); [|exact Hp|exact Ep2].
    destruct (process_found_stack _ _ _ _ _ Ep) as [->|[->|[pb ->]]].
    + exact Hs.
    + constructor; [apply Hp|exact Hs].
    + inversion Hs; assumption.
Qed.

Definition TA (d d' : bytes) (idx : N) (stk : list (ev * N)) : Prop :=
  Forall (fun p => fst p = LiteralBegin -> text d (snd p) idx = text d' (snd p) idx) stk.

Lemma TA_slice d d' idx s : length d = length d' -> TA d d' idx (s_stack s) ->
  forall b rest, s_stack s = (LiteralBegin, b) :: rest -> slice d b idx = slice d' b idx.
Proof.
  intros Hl H b rest E. rewrite E in H. apply Forall_inv in H. cbn [fst snd] in H. specialize (H eq_refl).
  unfold slice. rewrite Hl. unfold text in H. rewrite H. reflexivity.
Qed.

Lemma TA_step d d' idx c stk fs stk' evs : Forall (below idx) stk ->
  nth_error d (N.to_nat idx) = Some c -> nth_error d' (N.to_nat idx) = Some c ->
  TA d d' idx stk -> pf idx stk fs = Some (stk', evs) -> TA d d' (N.succ idx) stk'.
Proof.
  intros Hb Hn Hn' H Hp. unfold TA in *. eapply pf_forall; [| |exact Hp].
  - rewrite Forall_forall in *. intros [t b] Hin Ht. cbn [fst snd] in *.
    specialize (Hb _ Hin). unfold below in Hb. cbn [snd] in Hb.
    rewrite (text_snoc d b idx c), (text_snoc d' b idx c) by (try lia; assumption).
    pose proof (H _ Hin Ht) as E. cbn [snd] in E. rewrite E. reflexivity.
  - intros e _. cbn [snd]. rewrite (text_one d idx c Hn), (text_one d' idx c Hn'). reflexivity.
Qed.

Lemma TA_nolit d d' idx stk : (forall p, In p stk -> fst p <> LiteralBegin) -> TA d d' idx stk.
Proof. intros H. apply Forall_forall. intros p Hin Hp. exfalso. exact (H p Hin Hp). Qed.

Lemma stable_nolit q ret ts ann : stableb q = true -> cinv q ret ts ann -> forall t, In t ts -> t <> LiteralBegin.
Proof.
  intros Hq Hc t Hin. destruct q; try discriminate Hq; cbn [cinv] in Hc; decomp; subst;
    cbn [In] in Hin; decomp; subst; try contradiction; discriminate.
Qed.

Lemma stable_TA d d' idx s : stable s -> cinv (s_step s) (s_ret s) (map fst (s_stack s)) (s_ann s) ->
  TA d d' idx (s_stack s).
Proof.
  intros [Hq _] Hc. apply TA_nolit. intros p Hin. apply (stable_nolit _ _ _ _ Hq Hc). apply in_map. exact Hin.
Qed.

Lemma csim_step d d' idx g s s' c c' g' n n' racc racc' s1' stk' evs' :
  length d = length d' -> Rel g s s' -> Inv d' idx s' -> TA d d' idx (s_stack s') ->
  nth_error d (N.to_nat idx) = Some c -> nth_error d' (N.to_nat idx) = Some c' ->
  dc_next g c n = Some (g', c') ->
  step1 false d' idx s' c' n' = SOk s1' -> s_stack s1' = s_stack s' ->
  pf idx (s_stack s') (s_finds s1') = Some (stk', evs') ->
  Inv d' (N.succ idx) (set_finds [] (set_stack stk' s1')) ->
  filter keep racc = filter keep racc' ->
  exists s1 stk1 racc1, step false d idx s c n = SOk s1 /\
    process_finds idx (s_stack s1) (s_finds s1) racc = (stk1, racc1, true) /\
    filter keep racc1 = filter keep (rev evs' ++ racc') /\
    Rel g' (set_finds [] (set_stack stk1 s1)) (set_finds [] (set_stack stk' s1')) /\
    TA d d' (N.succ idx) stk'.
Proof.
  intros Hl HR HI HT Hn Hn' Hd E1 Hst Hp HI' Hf.
  assert (SS : s = s' -> plainb (s_step s') = true -> c' = c ->
    step false d idx s c n = SOk s1' /\
    process_finds idx (s_stack s1') (s_finds s1') racc = (stk', rev evs' ++ racc, true) /\
    filter keep (rev evs' ++ racc) = filter keep (rev evs' ++ racc') /\ TA d d' (N.succ idx) stk').
  { intros -> Hpl Ec. subst c'. split.
    - apply step_of_step1. rewrite (step1_indep d d' idx s' c n n' Hpl (TA_slice _ _ _ _ Hl HT)). exact E1.
    - split.
      + pose proof (process_finds_pf idx (s_finds s1') (s_stack s1') racc) as P. rewrite Hst, Hp in P.
        rewrite Hst. exact P.
      + split; [rewrite !filter_app, Hf; reflexivity|].
        eapply TA_step; [exact (inv_below _ _ _ HI)|exact Hn|exact Hn'|exact HT|exact Hp]. }
  destruct g.
  (* comment states *)
  3-6: match goal with HR0 : Rel ?g0 _ _ |- _ =>
         destruct (comment_step d idx g0 s s' c n g' c' racc I HR0 Hd) as [-> [s1 [stk1 [racc1 [C1 [C2 [C3 C4]]]]]]] end.
  3-6: assert (Hstab : stable s') by (cbn [Rel] in HR; exact (proj1 HR)).
  3-6: rewrite (stable_blank d' idx s' n' Hstab) in E1; injection E1 as <-.
  3-6: pose proof (stable_TA d d' (N.succ idx) s' Hstab (inv_c _ _ _ HI)) as HT'.
  3-6: destruct Hstab as [_ [_ [_ [Hfin _]]]]; rewrite Hfin in Hp; cbn [pf] in Hp; injection Hp as <- <-.
  3-6: exists s1, stk1, racc1; split; [exact C1|]; split; [exact C2|];
       split; [cbn [rev app]; rewrite C3; exact Hf|]; split; [|exact HT'].
  3-6: replace (set_finds [] (set_stack (s_stack s') s')) with s'
         by (destruct s' as [q ret stk uniq finds ann unf trail]; cbn_sc_in Hfin; subst finds; reflexivity).
  3-6: exact C4.
  - (* GPre *)
    destruct HR as [Es [Hq Htr]]. unfold dc_next in Hd.
    assert (Hpl : plainb (s_step s') = true) by (rewrite Hq; reflexivity).
    unfold step1 in E1. rewrite Hq in E1.
    destruct (is_blank c) eqn:Eb.
    + injection Hd as <- <-. destruct (SS Es Hpl eq_refl) as [S1 [S2 [S3 S4]]].
      rewrite Eb in E1. injection E1 as <-.
      exists s', stk', (rev evs' ++ racc). repeat split; try assumption; cbn_sc; assumption.
    + destruct (ch c 91) eqn:E91; [|discriminate Hd]. injection Hd as <- <-.
      destruct (SS Es Hpl eq_refl) as [S1 [S2 [S3 S4]]].
      rewrite Eb, E91 in E1. cbn [negb] in E1. injection E1 as <-.
      eexists _, stk', (rev evs' ++ racc). split; [exact S1|]. split; [exact S2|]. split; [exact S3|].
      split; [|exact S4]. cbn [Rel]. unfold found. cbn_sc. cbn [instr escb plainb].
      repeat split; try reflexivity; try assumption; discriminate.
  - (* GCode *)
    destruct HR as [Es [Hi [He [Hpl [Hq Htr]]]]]. unfold dc_next in Hd.
    destruct (nc_next i e c) as [[i' e']|] eqn:Enc.
    + injection Hd as <- <-. destruct (SS Es Hpl eq_refl) as [S1 [S2 [S3 S4]]].
      exists s1', stk', (rev evs' ++ racc). split; [exact S1|]. split; [exact S2|]. split; [exact S3|].
      split; [|exact S4].
      destruct HI as [Hfi Hc _ _]. destruct s' as [q ret stk uniq finds ann unf trail].
      cbn_sc_in Hfi. cbn_sc_in Hc. cbn_sc_in Hi. cbn_sc_in He. cbn_sc_in Hpl. cbn_sc_in Hq. cbn_sc_in Htr.
      cbn_sc_in Hp. subst finds trail.
      assert (Hslash : instr q = false -> ch c 47 = false).
      { intros Hi0. rewrite <- Hi, Hi0 in Enc. unfold nc_next in Enc. destruct (ch c 47); [discriminate Enc|reflexivity]. }
      pose proof (step1_sim d' idx q ret stk uniq ann unf c n' false Hc Hpl Hslash) as A.
      rewrite E1 in A. destruct A as [A1 [A2 [_ [A4 _]]]].
      rewrite Hi, He, Enc in A4. injection A4 as A4 A5.
      pose proof (step1_len false d' idx q ret stk uniq ann unf false c n' Hc) as B.
      rewrite E1 in B. destruct (B stk' evs' Hp) as [_ [B2 _]].
      cbn [Rel]. cbn_sc. repeat split; auto.
    + injection Hd as <- <-.
      assert (E47 : i = false /\ ch c 47 = true).
      { unfold nc_next in Enc. destruct i; [destruct e; destruct (ch c 34); destruct (ch c 92); discriminate Enc|].
        destruct (ch c 47); [split; reflexivity|destruct (ch c 34); discriminate Enc]. }
      destruct E47 as [-> E47]. subst s.
      pose proof (TA_slice _ _ _ _ Hl HT) as Hsl.
      pose proof (inv_c _ _ _ HI) as Hc. pose proof (inv_finds _ _ _ HI) as Hfi.
      pose proof (inv_c _ _ _ HI') as Hc'. cbn_sc_in Hc'.
      destruct s' as [q ret stk uniq finds ann unf trail].
      cbn_sc_in Hfi. cbn_sc_in Hc. cbn_sc_in Hi. cbn_sc_in Hpl. cbn_sc_in Hq. cbn_sc_in Htr.
      cbn_sc_in Hp. cbn_sc_in Hst. subst finds trail.
      pose proof (step1_slash_blank d' idx q ret stk uniq ann unf c x20 n n' Hc Hpl Hi Hq E47 eq_refl) as A.
      rewrite E1 in A. destruct (A eq_refl) as [Hstab Horig].
      eexists _, stk', (rev evs' ++ racc). split.
      { apply step_of_step1. rewrite (step1_indep d d' idx (mksc q ret stk uniq [] ann unf false) c n n Hpl Hsl). exact Horig. }
      cbn_sc. split.
      { pose proof (process_finds_pf idx (s_finds s1') (s_stack s1') racc) as P. rewrite Hst, Hp in P.
        rewrite Hst. exact P. }
      split; [rewrite !filter_app, Hf; reflexivity|].
      destruct s1' as [q1 ret1 stk1 uniq1 finds1 ann1 unf1 trail1]. unfold stable in Hstab. cbn_sc_in Hstab.
      destruct Hstab as [G1 [G2 [G3 [_ G5]]]]. subst ret1 ann1 trail1. cbn_sc_in Hc'.
      split.
      * cbn [Rel]. unfold stable. cbn_sc. repeat split; auto.
      * apply TA_nolit. intros p Hin. apply (stable_nolit _ _ _ _ G1 Hc'). apply in_map. exact Hin.
Qed.

Lemma decom_length : forall bs g bs', decom g bs = Some bs' -> length bs = length bs'.
Proof.
  induction bs as [|c r IH]; intros g bs' H; cbn [decom] in H.
  - destruct g; try discriminate H; injection H as <-; reflexivity.
  - destruct (dc_next g c (hd_error r)) as [[g1 c1]|]; [|discriminate H].
    destruct (decom g1 r) as [r1|] eqn:E; [|discriminate H]. injection H as <-.
    cbn [length]. f_equal. exact (IH _ _ E).
Qed.

Definition gfinal (g : gst) : Prop := match g with GPre | GCode _ _ | GLine => True | _ => False end.

Lemma csim_run d d' : length d = length d' -> forall rest g rest' s s' idx racc racc',
  decom g rest = Some rest' -> Rel g s s' -> Inv d' idx s' ->
  skipn (N.to_nat idx) d = rest -> skipn (N.to_nat idx) d' = rest' ->
  TA d d' idx (s_stack s') -> filter keep racc = filter keep racc' ->
  r_out (run false d' s' idx rest' racc') = Done ->
  exists gf, gfinal gf /\
    r_out (run false d s idx rest racc) = Done /\
    Rel gf (r_sc (run false d s idx rest racc)) (r_sc (run false d' s' idx rest' racc')) /\
    r_idx (run false d s idx rest racc) = r_idx (run false d' s' idx rest' racc') /\
    filter keep (r_evs (run false d s idx rest racc)) = filter keep (r_evs (run false d' s' idx rest' racc')) /\
    Inv d' (r_idx (run false d' s' idx rest' racc')) (r_sc (run false d' s' idx rest' racc')).
Proof.
  intros Hl. induction rest as [|c r IH]; intros g rest' s s' idx racc racc' H HR HI Hsk Hsk' HT Hf Hd;
    cbn [decom] in H.
  - assert (Hg : gfinal g) by (destruct g; try discriminate H; exact I).
    assert (rest' = []) by (destruct g; try discriminate H; injection H as <-; reflexivity). clear Hsk'. subst rest'.
    exists g. cbn [run]. unfold r_out, r_sc, r_idx, r_evs. cbn [fst snd]. split; [exact Hg|]. split; [reflexivity|]. split; [exact HR|]. split; [reflexivity|]. split; [exact Hf|exact HI].
  - destruct (dc_next g c (hd_error r)) as [[g1 c1]|] eqn:Ed; [|discriminate H].
    destruct (decom g1 r) as [r1|] eqn:Edc; [|discriminate H]. injection H as <-.
    destruct (skipn_cons_nth d _ c r Hsk) as [Hn Hsk1].
    destruct (skipn_cons_nth d' _ c1 r1 Hsk') as [Hn' Hsk1'].
    destruct (step_good_step false d' idx s' c1 (hd_error r1) HI Hn') as [Es G].
    cbn [run] in Hd |- *. rewrite Es in Hd, G |- *.
    destruct (step1 false d' idx s' c1 (hd_error r1)) as [s1'|code pos| | |sr] eqn:E1; cbn [step_good] in G;
      try contradiction; try (unfold r_out in Hd; cbn [fst snd] in Hd; discriminate Hd).
    destruct G as [G1 [G2 [G2' [stk' [evs' [G3 G4]]]]]].
    pose proof (process_finds_pf idx (s_finds s1') (s_stack s1') racc') as P. rewrite G1, G3 in P.
    rewrite G1, P in Hd |- *.
    destruct (csim_step d d' idx g s s' c c1 g1 (hd_error r) (hd_error r1) racc racc' s1' stk' evs'
                Hl HR HI HT Hn Hn' Ed E1 G1 G3 G4 Hf) as [s1 [stk1 [racc1 [T1 [T2 [T3 [T4 T5]]]]]]].
    rewrite T1, T2.
    apply (IH g1 r1); try assumption.
    + rewrite Nsucc_nat. exact Hsk1.
    + rewrite Nsucc_nat. exact Hsk1'.
Qed.

Lemma gline_tail s' m q top : stable s' -> s_stack s' = [] ->
  (exists b, top = [(InlineAnnotationBegin, b)] /\ q = StInlineAnnotation) \/
  (exists b b2, top = [(InlineAnnotationTextBegin, b2); (InlineAnnotationBegin, b)] /\ q = StInlineAnnotationText) ->
  snd (etail (cm q top s') m []) = Eos /\ filter keep (fst (etail (cm q top s') m [])) = [].
Proof.
  intros _ Hs [[b [-> ->]]|[b [b2 [-> ->]]]]; unfold etail, cm; cbn_sc; rewrite Hs; cbn [app tail]; split; reflexivity.
Qed.

(* P6: comments are blanks.  [decomment] replaces every byte of a // or /* */ comment (the line
   break that ends a line comment included) by a space; it is defined (Some) when no comment
   stands before the opening bracket, every '/' outside strings begins a comment and every
   block comment is closed.  If the text without comments is accepted, so is the text with
   them, with the same value, item and array events (same spans). *)
Theorem enum_comments_are_blanks : forall bs bs' evs',
  decomment bs = Some bs' -> scan false bs' = (evs', Eos) ->
  exists evs, scan false bs = (evs, Eos) /\ filter keep evs = filter keep evs'.
Proof.
  intros bs bs' evs' Hdc H. pose proof (decom_length _ _ _ Hdc) as Hl.
  destruct (run_check bs') as [_ [_ [_ Hne]]]. cbv zeta in Hne.
  rewrite scan_cases in H. cbv zeta in H. rewrite scan_cases. cbv zeta.
  set (r' := run false bs' sc0 0%N bs' []) in *.
  destruct (r_out r') eqn:Eo; try discriminate H; [|congruence].
  destruct (csim_run bs bs' Hl bs GPre bs' sc0 sc0 0%N [] [] Hdc (conj eq_refl (conj eq_refl eq_refl))
              (Inv0 bs') eq_refl eq_refl (Forall_nil _) eq_refl Eo) as [gf [Hg [Ro [HR [Hidx [Hev HI]]]]]].
  fold r' in HR, Hidx, Hev, HI. set (r := run false bs sc0 0%N bs []) in *. rewrite Ro.
  rewrite etail_acc in H. cbn [fst snd] in H. injection H as Hevs Hout.
  rewrite (etail_acc (r_sc r)). cbn [fst snd]. eexists. 
  assert (K : snd (etail (r_sc r) (r_idx r) []) = Eos /\
              filter keep (fst (etail (r_sc r) (r_idx r) [])) = filter keep (fst (etail (r_sc r') (r_idx r') []))).
  { destruct gf; try contradiction Hg; cbn [Rel] in HR.
    - destruct HR as [-> _]. rewrite Hidx. split; [exact Hout|reflexivity].
    - destruct HR as [-> _]. rewrite Hidx. split; [exact Hout|reflexivity].
    - destruct HR as [Hst [b HR]].
      assert (Hpl : plainb (s_step (r_sc r')) = true).
      { destruct Hst as [Hq _]. destruct (s_step (r_sc r')); try discriminate Hq; reflexivity. }
      destruct (tail_plain_eos bs' _ _ HI Hpl Hout) as [Hs0 Hf0]. rewrite Hf0.
      destruct HR as [->|[b2 ->]].
      + apply (gline_tail _ _ _ _ Hst Hs0). left. exists b. split; reflexivity.
      + apply (gline_tail _ _ _ _ Hst Hs0). right. exists b, b2. split; reflexivity. }
  destruct K as [K1 K2]. rewrite K1. split; [reflexivity|].
  rewrite <- Hevs. rewrite !frev_rev, !filter_rev, !filter_app, K2, Hev. reflexivity.
Qed.

(* the literals of a rule, in source order: the slices [e_begin, e_end] of the LiteralEnd events
   (what Values() reads) *)
Definition literal_tokens (data : bytes) (evs : list lexev) : list (option bytes) :=
  map (fun e => slice data (e_begin e) (e_end e + 1)%N)
      (filter (fun e => match e_type e with LiteralEnd => true | _ => false end) evs).

(* "[ /*a*/ 1 // b" LF ", /* c" LF "c */ "x/*y" // d" CR LF ",true/**/,//" LF "null /* e */ ] // f":
   a comment in every gap of a rule with values of all scalar kinds *)
Definition comments_example : bytes :=
  [x5b; x20; x2f; x2a; x61; x2a; x2f; x20; x31; x20; x2f; x2f; x20; x62; x0a;
   x2c; x20; x2f; x2a; x20; x63; x0a; x63; x20; x2a; x2f; x20; x22; x78; x2f; x2a; x79; x22; x20; x2f; x2f; x20; x64; x0d; x0a;
   x2c; x74; x72; x75; x65; x2f; x2a; x2a; x2f; x2c; x2f; x2f; x0a;
   x6e; x75; x6c; x6c; x20; x2f; x2a; x20; x65; x20; x2a; x2f; x20; x5d; x20; x2f; x2f; x20; x66].
Example enum_comments_example_check : enum_check comments_example = VOk.
Proof. vm_compute. reflexivity. Qed.
Example enum_comments_example_tokens :
  literal_tokens comments_example (fst (scan false comments_example)) =
    [Some [x31]; Some [x22; x78; x2f; x2a; x79; x22]; Some [x74; x72; x75; x65]; Some [x6e; x75; x6c; x6c]].
Proof. vm_compute. reflexivity. Qed.
Example enum_comments_example_blanked :
  match decomment comments_example with
  | Some bs' => enum_check bs' = VOk /\
     literal_tokens bs' (fst (scan false bs')) = literal_tokens comments_example (fst (scan false comments_example))
  | None => False
  end.
Proof. vm_compute. split; reflexivity. Qed.
(* refused: a comment before the opening bracket, a block comment that is not closed *)
Example enum_comments_refused :
  snd (scan false [x2f; x2f; x0a; x5b; x31; x5d]) = Err code_enum_array_expected 0%N /\
  decomment [x2f; x2f; x0a; x5b; x31; x5d] = None /\
  snd (scan false [x5b; x31; x5d; x20; x2f; x2a; x20; x63]) = Err code_unexpected_eof 7%N /\
  decomment [x5b; x31; x5d; x20; x2f; x2a; x20; x63] = None.
Proof. vm_compute. repeat split; reflexivity. Qed.
