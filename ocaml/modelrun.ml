(* modelrun — line-oriented driver around the extracted Coq models.
   usage: modelrun <entry>   (reads one case per line on stdin, prints one result per line) *)
open Model

let rec pos_of_int i =
  if i = 1 then XH else if i land 1 = 0 then XO (pos_of_int (i lsr 1)) else XI (pos_of_int (i lsr 1))
let n_of_int i = if i = 0 then N0 else Npos (pos_of_int i)
let rec int_of_pos = function XH -> 1 | XO p -> 2 * int_of_pos p | XI p -> 2 * int_of_pos p + 1
let int_of_n = function N0 -> 0 | Npos p -> int_of_pos p

let tbl = Array.init 256 (fun i -> match wire_byte_of_N (n_of_int i) with Some b -> b | None -> assert false)
let bytes_of_string (s : String.t) =
  let r = ref [] in
  for i = String.length s - 1 downto 0 do r := tbl.(Char.code s.[i]) :: !r done; !r
let string_of_bytes l =
  let b = Buffer.create 64 in
  List.iter (fun c -> Buffer.add_char b (Char.chr (int_of_n (wire_byte_to_N c)))) l;
  Buffer.contents b

let entries : (String.t * (byte list -> byte list)) list = Entries.entries

let () =
  if Array.length Sys.argv < 2 then begin
    prerr_endline "usage: modelrun <entry>"; List.iter (fun (n, _) -> prerr_endline ("  " ^ n)) entries; exit 2 end;
  let f = try List.assoc Sys.argv.(1) entries with Not_found -> (prerr_endline "unknown entry"; exit 2) in
  (try
     while true do
       let line = input_line stdin in
       print_string (string_of_bytes (f (bytes_of_string line)));
       print_char '\n'
     done
   with End_of_file -> ());
  flush stdout
