#!/bin/sh
# builds /verif/build/modelrun from the extracted model; called by setup and by bin/check when stale
set -e
cd "$(dirname "$0")"
mkdir -p gen ../build
( cd gen && coqc -Q ../../coq/theories JS ../../coq/extraction/Extract.v >/dev/null )
rm -f gen/model.mli
cp modelrun.ml entries.ml gen/
( cd gen && ocamlfind ocamlopt -w -a -o ../../build/modelrun model.ml entries.ml modelrun.ml )
