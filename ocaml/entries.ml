open Model
let entries : (String.t * (byte list -> byte list)) list = [
  "omap_model", omap_model_line;
  "omap_spec", omap_spec_line;
  "num_model", num_model_line;
  "json_model", json_model_line;
  "render_model", render_model_line;
  "shape_model", shape_model_line;
  "recursion_model", recursion_model_line;
  "formats_model", formats_model_line;
  "regex_model", regex_model_line;
  "unquote_model", unquote_model_line;
  "machine_model", machine_model_line;
  "machine_graph", machine_graph_line;
  "machine_spec", machine_spec_line;
  "example_model", example_model_line;
  "enum_model", enum_model_line;
  "schema_scan_model", schema_scan_model_line;
  "loader_model", loader_model_line;
  "e2e_model", e2e_model_line;
  "e2e_texts_model", e2e_texts_model_line;
  "rec_e2e_model", rec_e2e_model_line;
  "e2e_types_model", e2e_types_model_line;
  "rules_model", rules_model_line;
  "rules_spec", rules_spec_line;
  "rules_spec_raw", rules_spec_raw_line;
]
