"""C16 — GetAST mirrors the schema text."""
import json
import vcommon as vc
import jsight as J

NOTES = [None, None, None, "a note", "id of the thing", "x"]


def add_notes(rng, w):
    for x in J.all_nodes(w):
        x.note = rng.choice(NOTES)


def norm(a):
    return json.dumps(a, sort_keys=True, ensure_ascii=False)


def first_diff(a, b, path="$"):
    if type(a) != type(b):
        return "%s: %r vs %r" % (path, a, b)
    if isinstance(a, dict):
        for k in sorted(set(a) | set(b)):
            if k not in a or k not in b:
                return "%s.%s: %r vs %r" % (path, k, a.get(k), b.get(k))
            d = first_diff(a[k], b[k], path + "." + k)
            if d:
                return d
        return None
    if isinstance(a, list):
        if len(a) != len(b):
            return "%s: %d vs %d elements" % (path, len(a), len(b))
        for i, (x, y) in enumerate(zip(a, b)):
            d = first_diff(x, y, "%s[%d]" % (path, i))
            if d:
                return d
        return None
    return None if a == b else "%s: %r vs %r" % (path, a, b)


FIXED = [
    # (schema, types, expected AST): shortcuts, generated rules, inherited allOf members must not appear
    ("{\n  \"ref\": @t, // {optional: true}\n  \"u\": @t | @u,\n  @k: 1\n}", [["@t", "{}"], ["@u", "1"], ["@k", '"kk"']],
     {"tt": "object", "st": "object", "ch": [
         {"tt": "reference", "st": "@t", "key": "ref", "v": "@t", "rules": [["type", {"tt": "reference", "src": 2, "v": "@t"}], ["optional", {"tt": "boolean", "src": 1, "v": "true"}]]},
         {"tt": "reference", "st": "mixed", "key": "u", "v": "@t | @u", "rules": [["or", {"tt": "array", "src": 2, "items": [{"tt": "string", "src": 2, "v": "@t"}, {"tt": "string", "src": 2, "v": "@u"}]}]]},
         {"tt": "number", "st": "integer", "key": "@k", "ks": True, "v": "1"}]}),
    ("{ // {allOf: \"@p\"}\n  \"own\": 1\n}", [["@p", "{\n  \"inherited\": \"s\"\n}"]],
     {"tt": "object", "st": "object", "rules": [["allOf", {"tt": "reference", "src": 1, "v": "@p"}]], "ch": [{"tt": "number", "st": "integer", "key": "own", "v": "1"}]}),
    ("1 // {or: [{type: \"integer\", min: 0}, {type: \"string\"}, \"@t\"]}", [["@t", "{}"]],
     {"tt": "number", "st": "mixed", "v": "1", "rules": [["or", {"tt": "array", "src": 1, "items": [
         {"tt": "object", "src": 1, "props": [["type", {"tt": "string", "src": 1, "v": "integer"}], ["min", {"tt": "number", "src": 1, "v": "0"}]]},
         {"tt": "object", "src": 1, "props": [["type", {"tt": "string", "src": 1, "v": "string"}]]},
         {"tt": "reference", "src": 1, "v": "@t"}]}]]}),
    # a note after a closing brace stands on a line without an example: it is the note of no node, and the notes of the properties stay theirs
    ("{ // note of the object\n  \"a\": 1 // note of a\n}", [],
     {"tt": "object", "st": "object", "c": "note of the object", "ch": [{"tt": "number", "st": "integer", "key": "a", "v": "1", "c": "note of a"}]}),
    ("{\n  \"a\": 1 // note of a\n} // note after the brace", [],
     {"tt": "object", "st": "object", "ch": [{"tt": "number", "st": "integer", "key": "a", "v": "1", "c": "note of a"}]}),
    # rule values as written: a one-name allOf list is a list; a quoted "true" is a string
    ("{ // {allOf: [\"@p\"]}\n  \"own\": 1\n}", [["@p", "{\n  \"inherited\": \"s\"\n}"]],
     {"tt": "object", "st": "object", "rules": [["allOf", {"tt": "array", "src": 1, "items": [{"tt": "reference", "src": 1, "v": "@p"}]}]], "ch": [{"tt": "number", "st": "integer", "key": "own", "v": "1"}]}),
    ("{ // {allOf: [\"@p\", \"@q\"]}\n  \"own\": 1\n}", [["@p", "{\n  \"inherited\": \"s\"\n}"], ["@q", "{\n  \"i2\": \"s\"\n}"]],
     {"tt": "object", "st": "object", "rules": [["allOf", {"tt": "array", "src": 1, "items": [{"tt": "reference", "src": 1, "v": "@p"}, {"tt": "reference", "src": 1, "v": "@q"}]}]], "ch": [{"tt": "number", "st": "integer", "key": "own", "v": "1"}]}),
    ("{} // {additionalProperties: \"true\"}", [],
     {"tt": "object", "st": "object", "rules": [["additionalProperties", {"tt": "string", "src": 1, "v": "true"}]]}),
    ("1 /* {enum: [\n 1, // one  \n 2 // two\t\n]} */", [],
     {"tt": "number", "st": "enum", "v": "1", "rules": [["enum", {"tt": "array", "src": 1, "items": [{"tt": "number", "src": 1, "v": "1", "c": "one"}, {"tt": "number", "src": 1, "v": "2", "c": "two"}]}]]}),
    ("{} // {additionalProperties: true}", [],
     {"tt": "object", "st": "object", "rules": [["additionalProperties", {"tt": "boolean", "src": 1, "v": "true"}]]}),
]


def loader_stream(ctx, quick, hexes=None):
    """The Coq model of the loader (SchemaScan/Loader.v: scanner events -> example nodes with their rules as written -> the AST view) against the library:
    tools/loader_difftest.py compares, per text, the loader-only probe (hook load_probe.go) with the model on the whole AST, and GetAST with the model on the written rules."""
    import subprocess, sys, tempfile, os, re
    out = tempfile.mktemp(prefix="c16loader", suffix=".json", dir=os.path.join(vc.ROOT, "build"))
    if hexes is not None:
        args = ["--one"] + ["--hex=" + h for h in hexes]
    else:
        args = (["targeted", "enumrules", "edge", "good", "gen", "tokens", "--n=2500"] if quick else ["--n=20000"]) + ["--seed=%d" % ctx.seed]
    pr = subprocess.run([sys.executable, os.path.join(vc.ROOT, "tools", "loader_difftest.py"), "--json=" + out] + args, capture_output=True, text=True, timeout=7200)
    try:
        d = json.load(open(out)); os.unlink(out)
    except Exception:
        ctx.report("the loader difftest did not run: %s" % (pr.stderr[-400:] or pr.stdout[-400:]), "c16loader-run", {"stdout": pr.stdout[-2000:], "stderr": pr.stderr[-2000:]}, no_input=True)
        return
    ctx.evaluations += d["total"]
    ctx.extra["loader_model"] = {"texts": d["total"], "mismatches": len(d["mismatches"]), "stats": {k: v for k, v in d["stats"].items() if not k.startswith("code")},
                                 "loader_error_codes_agreed": {k[4:]: v for k, v in d["stats"].items() if k.startswith("code")}}
    for mm in d["mismatches"][:20]:
        t = bytes.fromhex(mm["text_hex"])
        ctx.report("the library's loader / GetAST and the Coq loader model differ (%s) on %r: library %s ;; model %s" % (mm["kind"], t[:160], mm["ref"][:200], mm["model"][:200]),
                   "c16loader:" + mm["text_hex"], {"loader_text_hex": mm["text_hex"], "kind": mm["kind"], "library": mm["ref"], "model": mm["model"]}, case=mm["text_hex"])


def run(ctx):
    st = vc.prepare(ctx, need_model=True)
    if not st["impl"] or not st.get("model", True):
        ctx.report("harness failed to build: " + json.dumps(st["logs"])[:1500], "build", st["logs"], no_input=True)
        return
    quick = ctx.tier == "quick"
    rng = ctx.rng
    ctx.extra["rule"] = ("generated schemas (depth <= 4) whose nodes carry rules in random written order (min/max with trailing-zero literals, exclusive flags, precision+decimal, lengths, regex, "
                         "enum lists of mixed kinds, declared types, formats, item counts, nullable, optional) and notes: GetAST must equal the AST computed from the generator's abstract "
                         "schema - one node per example value in source order with key, token kind, literal, declared/inferred schema type, rules exactly as written (names, values, order, "
                         "nested items) and note; fixed cases for type/or shortcuts (reference nodes, generated rules), key shortcuts, or rule-sets and allOf (inherited properties absent); "
                         "non-trivial = schema with >= 3 nodes and >= 2 rules")
    ctx.assumptions += ["two ties: (1) the extracted Coq model of the loader (SchemaScan/Loader.v) against a loader-only probe and GetAST on every text of the loader stream; the "
                        "mirror theorems of LoaderProofs.v cover plain JSON of any size and the rule-order mechanism, annotated texts are covered by the differential run only; "
                        "(2) GetAST against the AST computed from the generator's abstract schema (an oracle independent of the library and of the model)"]
    cases = []
    n = 8000 if quick else 40000
    for _ in range(n):
        w = J.rand_rule_schema(rng, rng.randint(0, 4))
        add_notes(rng, w)
        # literals with trailing zeros must be reported verbatim
        for x in J.all_nodes(w):
            x.rules = [(k, (v + "0" if k in ("min", "max") and "." in v else v)) for k, v in x.rules]
            if x.kind == "I" and rng.random() < 0.2 and any(k == "max" for k, _ in x.rules):
                x.rules = [(k, (v + ".50" if k == "max" else v)) for k, v in x.rules]
            # rules that say nothing (const: false, nullable: false) are still part of the text
            if x.kind in "SIFB" and rng.random() < 0.15 and not any(k in ("const", "enum", "nullable") for k, _ in x.rules):
                x.rules.insert(rng.randrange(len(x.rules) + 1), rng.choice([("const", "false"), ("nullable", "false"), ("const", "true")]))
        text = J.print_schema(w, rng)
        cases.append((text, [], J.expected_ast(w)))
        if len(J.all_nodes(w)) >= 3 and sum(len(getattr(x, "printed_rules", [])) for x in J.all_nodes(w)) >= 2:
            ctx.nontrivial.add(text)
    # type shortcuts in value position: one name, several names, a name repeated - the or rule lists the alternatives exactly as written
    tys = [["@cat", "{}"], ["@dog", "1"], ["@fish", '"f"'], ["@k", '"kk"']]
    for _ in range(1000 if quick else 4000):
        props, ch = [], []
        for key in rng.sample(["a", "b", "c", "d", "e"], rng.randint(1, 4)):
            names = [rng.choice(["@cat", "@dog", "@fish"]) for _ in range(rng.choice([1, 1, 2, 2, 3, 4]))]
            opt = rng.random() < 0.3
            v = " | ".join(names)
            props.append('  "%s": %s' % (key, v) + (" // {optional: true}" if opt else ""))
            if len(names) == 1:
                node = {"tt": "reference", "st": names[0], "key": key, "v": v, "rules": [["type", {"tt": "reference", "src": 2, "v": names[0]}]]}
            else:
                node = {"tt": "reference", "st": "mixed", "key": key, "v": v, "rules": [["or", {"tt": "array", "src": 2, "items": [{"tt": "string", "src": 2, "v": nm} for nm in names]}]]}
            if opt:
                node["rules"].append(["optional", {"tt": "boolean", "src": 1, "v": "true"}])
            ch.append(node)
        text = "{\n" + ",\n".join(p if " // " not in p else p for p in props) + "\n}"
        # an annotation must follow the comma
        text = "{\n" + "\n".join((p.split(" // ")[0] + ("," if i < len(props) - 1 else "") + ((" // " + p.split(" // ")[1]) if " // " in p else "")) for i, p in enumerate(props)) + "\n}"
        cases.append((text, tys, {"tt": "object", "st": "object", "ch": ch}))
    cases += FIXED
    lines = [json.dumps({"schema": t, "types": ty, "ops": [["check"], ["ast"]]}) for t, ty, _ in cases]
    outs = vc.impl_parallel(["schema"], lines)
    for (t, ty, want), o in zip(cases, outs):
        r = json.loads(o)
        ctx.evaluations += 1
        if r[0] != "ok":
            continue                # the generator may produce a rule set Check refuses (e.g. max with a fraction on an integer is fine, others are C04/C08's business)
        if not r[1].startswith("A:"):
            if len(ctx.violations) < 40:
                ctx.report("Check succeeds but GetAST fails: %s for %r" % (r[1], t[:120]), "c16:" + t, {"schema": t, "result": r[1]}, case=t)
            continue
        got = json.loads(r[1][2:])
        if norm(got) != norm(want):
            d = first_diff(got, want)
            if len(ctx.violations) < 40:
                ctx.report("GetAST differs from the schema text at %s (library vs expected); schema %r" % (d, t[:160]), "c16:" + t,
                           {"schema": t, "types": ty, "ast": got, "expected": want, "difference": d}, case=t)
    ctx.extra["cases"] = len(cases)
    ctx.samples.append({"schema": cases[2][0], "expected_ast": cases[2][2]})
    loader_stream(ctx, quick)
    if not st["proof"] and not ctx.violations:
        pass


def replay(ctx, path):
    r = json.load(open(path))
    if "loader_text_hex" in r:
        vc.prepare(ctx, need_model=True)
        loader_stream(ctx, True, hexes=[r["loader_text_hex"]])
        return
    vc.prepare(ctx, need_model=False)
    run(ctx)
