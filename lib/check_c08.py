"""C08 — Check enforces rule applicability and mutual consistency, order-independently."""
import itertools, json, os
import vcommon as vc

EX = {"string": '"abc"', "integer": "5", "float": "5.5", "boolean": "true", "null": "null", "array": None, "object": None}
NUMERIC = ("integer", "float")
# (rule text, applicable kinds) for single rules whose parameter the example satisfies
SINGLE = [
    ("min: 1", NUMERIC), ("max: 9", NUMERIC),
    ("minLength: 1", ("string",)), ("maxLength: 9", ("string",)), ('regex: "a"', ("string",)),
    ("minItems: 1", ("array",)), ("maxItems: 5", ("array",)),
    ("additionalProperties: true", ("object",)),
    ("nullable: true", tuple(EX)), ("nullable: false", tuple(EX)),
    ("const: true", ("string", "integer", "float", "boolean", "null")), ("const: false", tuple(EX)),
]
FORMATS = {"email": '"a@b.cc"', "uri": '"http://a.b/c"', "uuid": '"550e8400-e29b-41d4-a716-446655440000"', "date": '"2020-02-29"', "datetime": '"2020-01-01T00:00:00Z"'}


def schema_for(kind, rules, as_property=False, example=None):
    a = (" // {%s}" % ", ".join(rules)) if rules else ""
    if kind == "array":
        body = "[%s\n  1,\n  2\n]" % a
    elif kind == "object":
        body = "{%s\n  \"k\": 1\n}" % a
    else:
        body = (example or EX[kind]) + a
    if as_property:
        if kind in ("array", "object"):
            lines = body.split("\n")
            return "{\n  \"p\": " + lines[0] + "\n" + "\n".join("  " + l for l in lines[1:]) + "\n}"
        return "{\n  \"p\": %s\n}" % body
    return body


def run_checks(ctx, items):
    """items: (label, schema text, expected 'ok'|'err'|None)"""
    lines = [json.dumps({"schema": s, "ops": [["check"]]}) for _, s, _ in items]
    outs = vc.impl_parallel(["schema"], lines)
    res = []
    for (label, s, want), o in zip(items, outs):
        r = json.loads(o)[0]
        ctx.evaluations += 1
        res.append(r)
        if want is not None:
            got = "ok" if r == "ok" else "err"
            if got != want and len(ctx.violations) < 40:
                ctx.report("%s: Check of %r says %s, the rule tables of the statement say %s" % (label, s[:120], r, want), "c08:" + s,
                           {"schema": s, "implementation": r, "expected": want, "case": label}, case=s)
    return res


def run(ctx):
    st = vc.prepare(ctx)
    if not st["impl"]:
        ctx.report("harness failed to build: " + json.dumps(st["logs"])[:1500], "build", st["logs"], no_input=True)
        return
    quick = ctx.tier == "quick"
    rng = ctx.rng
    ctx.extra["rule"] = ("(1) tables translated from the source (applicability matrix 26x8, banned pairs, rule names) against the statement's table - Coq, computed; (2) through the API: every "
                         "single rule on every node kind at root and as an object property (optional only on properties), ordered/unordered/equal paired bounds with and without exclusive flags, "
                         "exclusive flag without its bound, precision with/without decimal, format types with length/regex rules; (3) order independence: rule sets of 2..5 rules (valid and "
                         "invalid mixes) under all permutations (<=4 rules) or 24 random ones: verdict and error code must coincide; non-trivial = set with >= 3 rules")
    items = []
    for kind in EX:
        for rule, kinds in SINGLE:
            for prop in (False, True):
                items.append(("single rule", schema_for(kind, [rule], prop), "ok" if kind in kinds else "err"))
        items.append(("optional on a property", schema_for(kind, ["optional: true"], True), "ok"))
        items.append(("optional outside an object", schema_for(kind, ["optional: true"], False), "err"))
        items.append(("optional:false outside an object", schema_for(kind, ["optional: false"], False), "err"))
        items.append(("optional:false on a property", schema_for(kind, ["optional: false"], True), "ok"))
        items.append(("unknown rule", schema_for(kind, ["minimum: 1"], False), "err"))
        items.append(("duplicate rule", schema_for(kind, ["nullable: true", "nullable: true"], False), "err"))
        items.append(("declared type", schema_for(kind, ['type: "%s"' % kind], False), "ok"))
    # array items are not object properties
    items.append(("optional on an array item", "[\n  1 // {optional: true}\n]", "err"))
    items.append(("optional:false on an array item", "[\n  1 // {optional: false}\n]", "err"))
    for fl in ("true", "false"):
        items += [("exclusive flag needs its bound", schema_for("integer", ["exclusiveMinimum: " + fl]), "err"),
                  ("exclusive flag needs its bound", schema_for("integer", ["exclusiveMaximum: " + fl]), "err"),
                  ("exclusive flag needs its bound", schema_for("integer", ["max: 9", "exclusiveMinimum: " + fl]), "err"),
                  ("exclusive flag needs its bound", schema_for("float", ["min: 1", "exclusiveMaximum: " + fl]), "err"),
                  ("exclusive flag with its bound", schema_for("integer", ["min: 1", "exclusiveMinimum: " + fl]), "ok"),
                  ("exclusive flag with its bound", schema_for("float", ["max: 9", "exclusiveMaximum: " + fl]), "ok")]
    # paired bounds
    for a, b, xa, xb, ok in [(1, 9, False, False, True), (5, 5, False, False, True), (9, 1, False, False, False), (5, 5, True, False, False), (5, 5, False, True, False),
                             (1, 9, True, True, True)]:
        rules = ["min: %d" % a, "max: %d" % b] + (["exclusiveMinimum: true"] if xa else []) + (["exclusiveMaximum: true"] if xb else [])
        items.append(("min/max ordering", schema_for("integer", rules), "ok" if ok else "err"))
    items += [("minLength/maxLength ordering", schema_for("string", ["minLength: 1", "maxLength: 5"]), "ok"),
              ("minLength/maxLength ordering", schema_for("string", ["minLength: 3", "maxLength: 3"]), "ok"),
              ("minLength/maxLength ordering", schema_for("string", ["minLength: 3", "maxLength: 2"]), "err"),
              ("minItems/maxItems ordering", schema_for("array", ["minItems: 1", "maxItems: 2"]), "ok"),
              ("minItems/maxItems ordering", schema_for("array", ["minItems: 2", "maxItems: 2"]), "ok"),
              ("minItems/maxItems ordering", schema_for("array", ["minItems: 3", "maxItems: 2"]), "err"),
              ("exclusive flag needs its bound", schema_for("integer", ["exclusiveMinimum: true"]), "err"),
              ("exclusive flag needs its bound", schema_for("integer", ["exclusiveMaximum: true", "min: 1"]), "err"),
              ("exclusive flag needs its bound", schema_for("integer", ["exclusiveMinimum: true", "min: 1"]), "ok"),
              ("precision only with decimal", schema_for("float", ["precision: 1"]), "ok"),
              ("precision only with decimal", schema_for("float", ['type: "decimal"', "precision: 1"]), "ok"),
              ("precision only with decimal", schema_for("float", ['type: "float"', "precision: 1"]), "err"),
              ("precision only with decimal", schema_for("float", ['type: "decimal"']), "err"),
              ("precision only with decimal", schema_for("integer", ["precision: 1"]), "err")]
    for f, ex in FORMATS.items():
        items.append(("format type", schema_for("string", ['type: "%s"' % f], example=ex), "ok"))
        for r in ("minLength: 1", "maxLength: 99", 'regex: "a"'):
            items.append(("format types exclude length/regex", schema_for("string", ['type: "%s"' % f, r], example=ex), "err"))
    items += [("enum with a foreign rule", schema_for("integer", ["enum: [5, 6]", "min: 1"]), "err"),
              ("enum alone", schema_for("integer", ["enum: [5, 6]"]), "ok"),
              ("any with a foreign rule", schema_for("integer", ['type: "any"', "min: 1"]), "err"),
              ("any alone", schema_for("integer", ['type: "any"']), "ok"),
              ("or with a foreign rule", schema_for("integer", ['or: [{type: "integer"}, {type: "string"}]', "min: 1"]), "err"),
              ("or alone", schema_for("integer", ['or: [{type: "integer"}, {type: "string"}]']), "ok")]
    # ---- the same tables inside the rule-sets of an "or" rule (a different loader, a MixedNode instead of the example's node) ----
    SCAL = ("string", "integer", "float", "boolean", "null")
    other = {"string": "integer", "integer": "string", "float": "string", "boolean": "string", "null": "string"}
    for kind in SCAL:
        for rule, kinds in SINGLE:
            if rule.startswith(("nullable", "const", "additionalProperties", "minItems", "maxItems")):
                continue
            items.append(("single rule in an or rule-set", '%s // {or: [{type: "%s", %s}, {type: "%s"}]}' % (EX[kind], kind, rule, other[kind]), "ok" if kind in kinds else "err"))
    for ex in ('"abc"', "5"):
        for rs, ok in (("min: 2, max: 1", False), ("min: 1, max: 2", True), ("minLength: 3, maxLength: 2", False), ("minLength: 2, maxLength: 3", True), ("min: 5, max: 5, exclusiveMinimum: true", False),
                       ("exclusiveMinimum: true", False), ("exclusiveMaximum: false", False), ("max: 3, exclusiveMinimum: true", False)):
            numeric = rs.startswith(("min:", "max:", "exclusive"))
            t = "integer" if numeric else "string"
            o = "string" if numeric else "integer"
            for typed in (True, False):
                # the example satisfies the second alternative; the first one carries the pair
                if ex == ('"abc"' if o == "string" else "5"):
                    items.append(("paired bounds in an or rule-set" if not ok else "ordered bounds in an or rule-set",
                                  '%s // {or: [{%s%s}, {type: "%s"}]}' % (ex, ('type: "%s", ' % t) if typed else "", rs, o), "ok" if ok else "err"))
    items += [("unknown rule in an or rule-set", '5 // {or: [{type: "integer", minimum: 1}, {type: "string"}]}', "err"),
              ("duplicate rule in an or rule-set", '5 // {or: [{type: "integer", min: 1, min: 1}, {type: "string"}]}', "err"),
              ("optional in an or rule-set", '5 // {or: [{type: "integer", optional: true}, {type: "string"}]}', "err"),
              ("precision without decimal in an or rule-set", '5.5 // {or: [{type: "float", precision: 1}, {type: "string"}]}', "err"),
              ("precision with decimal in an or rule-set", '5.5 // {or: [{type: "decimal", precision: 1}, {type: "string"}]}', "ok"),
              ("format excludes length in an or rule-set", '"a@b.cc" // {or: [{type: "email", minLength: 1}, {type: "integer"}]}', "err")]
    run_checks(ctx, items)
    # type references are not combined with foreign rules; every rule appears once, in every order; inside an or rule-set the rules must apply to the alternative's kind
    TY = [["@A", "1"], ["@B", '"b"']]
    typed = [("or next to a type-reference shortcut", '@A // {or: ["integer", "string"]}', "err"),
             ("or next to a type-reference shortcut (property)", '{\n  "p": @A // {or: ["integer", "string"]}\n}', "err"),
             ("or next to a type rule", '1 // {type: "@A", or: ["integer", "string"]}', "err"),
             ("rules next to a type-reference shortcut", "@A // {min: 1}", "err"),
             ("duplicate type on a shortcut", '@A | @B // {type: "integer", type: "mixed"}', "err"),
             ("duplicate type on a shortcut", '@A | @B // {type: "mixed", type: "integer"}', "err"),
             ("duplicate type on a shortcut", '@A | @B // {type: "mixed", type: "mixed"}', "err"),
             ("duplicate type", '1 // {type: "integer", type: "integer"}', "err"),
             ("redundant type mixed on a union shortcut", '@A | @B // {type: "mixed"}', "ok")]
    for rs in ('{type: "email", min: 1}', '{type: "email", minItems: 1}', '{type: "date", additionalProperties: true}', '{type: "uri", max: 1}', '{type: "decimal", precision: 1, minLength: 2}',
               '{type: "decimal", precision: 1, minItems: 1}', "{min: 1, minItems: 2}", "{precision: 1, minLength: 2}", '{regex: "a", max: 3}', '{type: "uuid", regex: "a"}', '{type: "string", min: 1}',
               '{type: "integer", minLength: 1}', '{type: "array", min: 1}', '{type: "object", minItems: 1}', '{type: "boolean", max: 1}'):
        typed.append(("inapplicable rule inside an or rule-set", '"b" // {or: [%s, {type: "string"}]}' % rs, "err"))
        typed.append(("inapplicable rule inside an or rule-set", '"b" // {or: [{type: "string"}, %s]}' % rs, "err"))
    for rs in ('{type: "email"}', '{type: "integer", min: 1}', '{type: "string", minLength: 1, regex: "b"}', '{type: "decimal", precision: 2}', '{type: "array", minItems: 0}', '{type: "object", additionalProperties: true}', "{min: 1, max: 3}", "{minLength: 1}"):
        typed.append(("applicable rules inside an or rule-set", '"b" // {or: [%s, {type: "string"}]}' % rs, "ok"))
    # the flags that say nothing (const: false, nullable: false) inside a rule-set change nothing: every rule-set case above once more with such a flag written first / last in
    # its first rule-set, same expected verdict; and item counts / additionalProperties on scalar rule-sets next to such a flag
    flagged = []
    for label, sc, want in typed + [it for it in items if "or: [{" in it[1]]:
        if "or: [{" not in sc or "const:" in sc or "nullable:" in sc:
            continue
        for flag in ("const: false", "nullable: false"):
            i = sc.index("or: [{") + len("or: [{")
            j = sc.index("}", i)
            flagged.append((label + " + " + flag, sc[:i] + flag + ", " + sc[i:], want))
            flagged.append((label + " + " + flag, sc[:j] + ", " + flag + sc[j:], want))
    for ex, o in (("true", "integer"), ("1", "boolean"), ('"s"', "integer"), ("null", "string")):
        for rule in ("minItems: 0", "maxItems: 0", "additionalProperties: true"):
            for flag in ("const: false", "nullable: false"):
                flagged.append(("container rule on a scalar rule-set + " + flag, '%s // {or: [{%s, %s}, {type: "%s"}]}' % (ex, rule, flag, o), "err"))
    # a rule-set of nothing but flags that say nothing is as empty as {} (905); a null example under nullable next to a list of types is an example like any other
    for fl in ("nullable: false", "const: false", "const: false, nullable: false"):
        for ex, o in (('"s"', "integer"), ("1", "string"), ("true", "string"), ("[]", "integer")):
            flagged.append(("rule-set of inert flags only", '%s // {or: [{%s}, {type: "%s"}]}' % (ex, fl, o), "err"))
    flagged += [("null example under nullable next to a type reference", 'null // {type: "@A", nullable: true}', "ok"),
                ("null example under nullable next to an or list", 'null // {or: ["string", "integer"], nullable: true}', "ok"),
                ("null example under nullable next to an or list of user types", 'null // {or: ["@A", "@B"], nullable: true}', "ok"),
                ("null example under a nullable rule-set", 'null // {or: [{type: "@A", nullable: true}, {type: "string"}]}', "ok"),
                ("null example under a nullable rule-set of a JSON kind", 'null // {or: [{type: "integer", nullable: true}, {type: "string"}]}', "ok"),
                ("null example in a property under nullable next to an or list", '{\n  "k": null // {or: ["@A", "integer"], nullable: true}\n}', "ok"),
                ("null example under a type reference that is not nullable", 'null // {type: "@A"}', "err"),
                ("null example under an or list without nullable", 'null // {or: ["@A", "@B"]}', "err")]
    typed = typed + flagged
    touts = vc.impl(["schema"], [json.dumps({"schema": sc, "types": TY, "ops": [["check"]]}) for _, sc, _ in typed])
    for (label, sc, want), o in zip(typed, touts):
        r = json.loads(o)[0]
        ctx.evaluations += 1
        if ("ok" if r == "ok" else "err") != want and len(ctx.violations) < 40:
            ctx.report("%s: Check of %r says %s, the statement says %s" % (label, sc[:120], r, want), "c08t:" + sc, {"schema": sc, "types": TY, "implementation": r, "expected": want, "case": label}, case=sc)
    ctx.extra["typed_cases"] = len(typed)
    ctx.extra["table_cases"] = len(items)
    # ---- order independence ----
    pool = {
        "integer": ["min: 1", "max: 9", "exclusiveMinimum: true", "exclusiveMaximum: false", "exclusiveMinimum: false", "nullable: false", "nullable: true", "const: false", 'type: "integer"',
                    "optional: true", "optional: false", "minLength: 1", "precision: 2", "enum: [5]", 'type: "any"', 'or: [{type: "integer"}, {type: "string"}]'],
        "float": ["min: 1", "max: 9", "precision: 1", 'type: "decimal"', "nullable: false", "const: false", "exclusiveMaximum: true", "const: true", "maxLength: 2"],
        "string": ["minLength: 1", "maxLength: 9", 'regex: "a"', "nullable: true", "const: false", "nullable: false", 'type: "string"', "const: true", "min: 1", 'type: "email"'],
        "array": ["minItems: 1", "maxItems: 5", "nullable: false", "nullable: true", "const: false", "optional: true", "optional: false", 'type: "array"', "min: 1"],
        "object": ["additionalProperties: true", "nullable: false", "nullable: true", "const: false", "optional: false", 'type: "object"', 'additionalProperties: "string"'],
    }
    nsets = 3000 if quick else 12000
    perm_items, groups = [], []
    for _ in range(nsets):
        kind = rng.choice(list(pool))
        k = rng.choice([2, 3, 3, 4, 4, 5])
        rs = []
        for r in rng.sample(pool[kind], min(k, len(pool[kind]))):
            name = r.split(":")[0]
            if all(x.split(":")[0] != name for x in rs):       # duplicates are a separate (order-independent) error
                rs.append(r)
        prop = any(r.startswith("optional") for r in rs) and rng.random() < 0.5
        perms = list(itertools.permutations(rs)) if len(rs) <= 4 else [tuple(rng.sample(rs, len(rs))) for _ in range(24)]
        start = len(perm_items)
        for p in perms:
            perm_items.append(("order", schema_for(kind, list(p), prop), None))
        groups.append((kind, rs, start, len(perm_items)))
        if len(rs) >= 3:
            ctx.nontrivial.add((kind, tuple(sorted(rs)), prop))
    res = run_checks(ctx, perm_items)
    ndiff = 0
    for kind, rs, a, b in groups:
        codes = [("ok" if r == "ok" else r.split("@")[0]) for r in res[a:b]]
        if len(set(codes)) != 1:
            ndiff += 1
            i = next(i for i in range(a, b) if ("ok" if res[i] == "ok" else res[i].split("@")[0]) != codes[0])
            if len(ctx.violations) < 40:
                ctx.report("rule order changes the verdict on a %s: %r gives %s but %r gives %s" % (kind, perm_items[a][1][:120], res[a], perm_items[i][1][:120], res[i]),
                           "c08perm:" + kind + "|" + "|".join(sorted(rs)), {"kind": kind, "rules": rs, "schema_1": perm_items[a][1], "result_1": res[a], "schema_2": perm_items[i][1], "result_2": res[i]},
                           case=(kind, rs))
    # ---- the Coq model of the rule pipeline (Schema/RulePipeline.v: loader -> compileNode -> allOf -> checker for one annotated node) and the declarative
    # statement (RulePipelineSpec.v spec_ok) against the library: tools/rules_difftest.py generates single rules / pairs / sets under all orders ----
    import re, subprocess, sys
    args = [sys.executable, os.path.join(vc.ROOT, "tools", "rules_difftest.py"), "--seed", str(ctx.seed), "--spec"] + (["--quick"] if quick else [])
    pr = subprocess.run(args, capture_output=True, text=True, timeout=3600)
    m = re.search(r"TOTAL cases=(\d+) verdict_mismatches=(\d+) code_mismatches=(\d+) unexpected_outputs=(\d+) order_dependent_groups=(\d+)", pr.stdout)
    sp = re.findall(r"SPEC \((\w+)\): compared (\d+), skipped (\d+), model/spec disagreements: (\d+)", pr.stdout)
    if pr.returncode != 0 or not m:
        ctx.report("the rule-pipeline difftest did not run: %s" % (pr.stderr[-400:] or pr.stdout[-400:]), "c08pipe-run", {"stdout": pr.stdout[-2000:], "stderr": pr.stderr[-2000:]}, no_input=True)
    else:
        tot, vm, cm, uo, og = map(int, m.groups())
        ctx.evaluations += tot
        ctx.extra["rule_pipeline_model"] = {"cases": tot, "verdict_mismatches": vm, "code_mismatches": cm, "unexpected_outputs": uo, "order_dependent_groups": og,
                                            "spec": [{"entry": e, "compared": int(c), "skipped": int(k), "disagreements": int(d)} for e, c, k, d in sp]}
        if og:
            first = [l for l in pr.stdout.splitlines() if l.startswith("IMPLEMENTATION VERDICT DEPENDS ON ORDER")][:1]
            ctx.report("the verdict of Check depends on the order of the rules: %s" % (first[0][:300] if first else ""), "c08pipe-order", {"output": pr.stdout[-3000:]}, case=("pipeline", []))
        if vm or uo:
            lines_ = [l for l in pr.stdout.splitlines() if "impl=" in l and "model=" in l][:5]
            ctx.report("Check and the Coq model of the rule pipeline disagree on %d verdict(s): %s" % (vm + uo, " ;; ".join(x[:200] for x in lines_)), "c08pipe-verdict", {"output": pr.stdout[-4000:]}, no_input=True)
        if any(int(d) for _, _, _, d in sp):
            ctx.report("the pipeline model and the declarative statement (spec_ok) disagree inside the theorem's scope", "c08pipe-spec", {"output": pr.stdout[-4000:]}, no_input=True)
    ctx.extra["permutation_groups"] = len(groups)
    ctx.extra["permutations_run"] = len(perm_items)
    ctx.samples.append({"schema": perm_items[len(perm_items) // 2][1], "result": res[len(perm_items) // 2]})
    ctx.samples.append({"schema": items[5][1], "expected": items[5][2]})
    if not st["proof"] and not ctx.violations:
        ctx.report("proof obligation(s) no longer check: %s" % ", ".join(ctx.proof_broken), "proof-broken",
                   {"broken": ctx.proof_broken, "log": st["logs"].get("make", "")[-3000:], "theorems": ["C08_matrix", "C08_formats_exclude_length_and_regex", "C08_rule_names"]}, no_input=True)


def replay(ctx, path):
    r = json.load(open(path))
    vc.prepare(ctx, need_model=False)
    if "schema" in r:
        run_checks(ctx, [("replay", r["schema"], r.get("expected"))])
    else:
        o1 = json.loads(vc.impl(["schema"], [json.dumps({"schema": r["schema_1"], "ops": [["check"]]})])[0])[0]
        o2 = json.loads(vc.impl(["schema"], [json.dumps({"schema": r["schema_2"], "ops": [["check"]]})])[0])[0]
        ctx.evaluations += 2
        if o1.split("@")[0] != o2.split("@")[0]:
            ctx.report("replay: rule order changes the verdict: %s vs %s" % (o1, o2), "c08perm-replay", r)
