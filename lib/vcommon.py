"""Shared machinery for /verif/bin/check.

Pipeline of every check (DESIGN.md section 2.4):
  1. tabx: regenerate coq/theories/Gen from /repo's working tree; make the Coq development
     (a theorem that no longer compiles = broken proof obligation);
  2. rebuild modelrun (extracted model) if stale, rebuild implrun against /repo (always);
  3. corpus + generated cases: implementation vs model vs spec oracle;
  4. decide: VIOLATION / KNOWN-FINDING / ok; write evidence.
"""
import fcntl, hashlib, json, os, random, re, subprocess, sys, time

ROOT = os.path.dirname(os.path.dirname(os.path.abspath(__file__)))
REPO = os.environ.get("VERIF_REPO", "/repo")
BUILD = os.path.join(ROOT, "build")
COQ = os.path.join(ROOT, "coq")
GOENV = dict(os.environ, GOFLAGS="-mod=mod", GOPROXY="off", GOSUMDB="off", GOTOOLCHAIN="local",
             CGO_ENABLED=os.environ.get("CGO_ENABLED", "1"))

TRUSTED_BASE_COMMON = [
    "Coq 8.16.1 kernel (coqc), vm_compute for computed finite lemmas; no native_compute",
    "Print Assumptions under every property theorem: 'Closed under the global context' unless listed",
    "extraction: Require Extraction + ExtrOcamlBasic only (its Extract Inductive bool/option/unit/list/prod/sumbool/sumor "
    "and Extract Inlined Constant andb/orb/negb/fst/snd directives); nat/N/Z/positive/Byte.byte stay Coq datatypes; "
    "OCaml 4.13.1; ocaml/modelrun.ml driver (string<->list byte conversion only)",
    "tools/tabx (go/ast translator of tables) and the Go harness harness/cmd/implrun with overlay hooks harness/hooks/*",
    "bin/check + lib/*.py: case generation, comparison, canonicalisation",
]


def log(*a):
    print(*a, file=sys.stderr, flush=True)


class Lock:
    def __init__(self, name):
        os.makedirs(BUILD, exist_ok=True)
        self.path = os.path.join(BUILD, name + ".lock")

    def __enter__(self):
        self.f = open(self.path, "w")
        fcntl.flock(self.f, fcntl.LOCK_EX)
        return self

    def __exit__(self, *a):
        fcntl.flock(self.f, fcntl.LOCK_UN)
        self.f.close()


def sh(cmd, timeout=600, cwd=None, env=None, inp=None):
    """run a command; returns (rc, stdout, stderr). rc=124 on timeout."""
    try:
        p = subprocess.run(cmd, shell=isinstance(cmd, str), cwd=cwd, env=env, input=inp,
                           stdout=subprocess.PIPE, stderr=subprocess.PIPE, timeout=timeout)
        return p.returncode, p.stdout.decode("utf-8", "replace"), p.stderr.decode("utf-8", "replace")
    except subprocess.TimeoutExpired as e:
        return 124, (e.stdout or b"").decode("utf-8", "replace"), (e.stderr or b"").decode("utf-8", "replace") + "\nTIMEOUT"


# ----------------------------------------------------------------------------- build steps

def build_tabx():
    exe = os.path.join(BUILD, "tabx")
    src = os.path.join(ROOT, "tools", "tabx")
    newest = max(os.path.getmtime(os.path.join(src, f)) for f in os.listdir(src))
    if not os.path.exists(exe) or os.path.getmtime(exe) < newest:
        rc, o, e = sh(["go", "build", "-o", exe, "."], cwd=src, env=GOENV, timeout=300)
        if rc != 0:
            raise RuntimeError("tabx build failed: " + e)
    return exe


def run_tabx():
    """regenerate Gen/*.v from REPO. returns (ok, stderr)."""
    exe = build_tabx()
    rc, o, e = sh([exe, "-repo", REPO, "-out", os.path.join(COQ, "theories", "Gen")], timeout=120)
    return rc == 0, e


def coq_files():
    out = []
    for l in open(os.path.join(COQ, "_CoqProject")):
        l = l.strip()
        if l.endswith(".v"):
            out.append(l)
    return out


_dep_cache = None


def coq_deps():
    """file -> set of project files it depends on (direct), via coqdep."""
    global _dep_cache
    if _dep_cache is not None:
        return _dep_cache
    files = coq_files()
    rc, o, e = sh(["coqdep", "-Q", "theories", "JS"] + files, cwd=COQ, timeout=120)
    deps = {}
    for line in o.splitlines():
        if ":" not in line:
            continue
        lhs, rhs = line.split(":", 1)
        tgt = [t for t in lhs.split() if t.endswith(".vo")]
        if not tgt:
            continue
        src = tgt[0][:-1]
        ds = set(d[:-1] for d in rhs.split() if d.endswith(".vo") and d.startswith("theories/"))
        deps[src] = ds
    _dep_cache = deps
    return deps


def coq_cone(prop_file):
    deps = coq_deps()
    seen, todo = set(), [prop_file]
    while todo:
        f = todo.pop()
        if f in seen:
            continue
        seen.add(f)
        todo.extend(deps.get(f, ()))
    return sorted(seen)


STMT_RE = re.compile(r"^\s*(Theorem|Lemma|Corollary|Example|Fact|Proposition)\s+([A-Za-z0-9_']+)", re.M)


def count_statements(files):
    n, names = 0, []
    for f in files:
        try:
            s = open(os.path.join(COQ, f)).read()
        except OSError:
            continue
        for m in STMT_RE.finditer(s):
            n += 1
            names.append(f.split("/")[-1][:-2] + "." + m.group(2))
    return n, names


def make_coq(timeout=3000):
    """full .vo build (make -k so that every failing file is reported).
    returns (ok, failed_files, log)."""
    with Lock("coq"):
        mk = os.path.join(COQ, "Makefile")
        cp = os.path.join(COQ, "_CoqProject")
        if not os.path.exists(mk) or os.path.getmtime(mk) < os.path.getmtime(cp):
            rc, o, e = sh("coq_makefile -f _CoqProject -o Makefile", cwd=COQ, timeout=120)
            if rc != 0:
                return False, ["_CoqProject"], e
        rc, o, e = sh("timeout %d make -k -j16 2>&1" % timeout, cwd=COQ, timeout=timeout + 30)
        failed = []
        for m in re.finditer(r'File "\./(theories/[^"]+)", line (\d+)', o):
            if m.group(1) not in failed:
                failed.append(m.group(1))
        for m in re.finditer(r"\*\*\* \[[^\]]*?(theories/\S+?)\.vo\]", o):
            f = m.group(1) + ".v"
            if f not in failed:
                failed.append(f)
        if rc != 0 and not failed:
            failed = ["<make>"]
        return rc == 0, failed, o


def broken_in_cone(prop_file, failed):
    """which failed files lie in the cone of prop_file (files that could not be built because a
    dependency failed are in the cone by construction)."""
    cone = set(coq_cone(prop_file))
    return [f for f in failed if f in cone or f == "<make>" or f == "_CoqProject"]


def build_modelrun():
    with Lock("modelrun"):
        exe = os.path.join(BUILD, "modelrun")
        newest = 0
        for dp, dn, fn in os.walk(os.path.join(COQ, "theories")):
            for f in fn:
                if f.endswith(".vo"):
                    newest = max(newest, os.path.getmtime(os.path.join(dp, f)))
        for f in ("ocaml/modelrun.ml", "ocaml/entries.ml", "coq/extraction/Extract.v"):
            newest = max(newest, os.path.getmtime(os.path.join(ROOT, f)))
        if os.path.exists(exe) and os.path.getmtime(exe) >= newest:
            return True, ""
        rc, o, e = sh([os.path.join(ROOT, "ocaml", "build.sh")], timeout=900)
        return rc == 0, o + e


def build_implrun(race=False):
    with Lock("implrun"):
        rc, o, e = sh([os.path.join(ROOT, "harness", "build.sh")] + (["race"] if race else []), timeout=900, env=GOENV)
        return rc == 0, o + e


def run_lines(exe_args, lines, timeout=1800, env=None):
    """feed lines to a line-protocol executable; returns list of output lines (same length)
    or raises."""
    inp = ("\n".join(lines) + "\n").encode()
    rc, o, e = sh(exe_args, inp=inp, timeout=timeout, env=env)
    outs = o.split("\n")
    if outs and outs[-1] == "":
        outs.pop()
    if rc != 0 or len(outs) != len(lines):
        raise RuntimeError("%s: rc=%d, %d outputs for %d inputs\n%s" % (exe_args, rc, len(outs), len(lines), e[-2000:]))
    return outs


def model(entry, lines, timeout=1800):
    return run_lines([os.path.join(BUILD, "modelrun"), entry], lines, timeout)


def impl(args, lines, timeout=1800):
    return run_lines([os.path.join(BUILD, "implrun")] + list(args), lines, timeout, env=GOENV)


def impl_parallel(args, lines, shards=8, timeout=1800):
    """run implrun on shards in parallel; preserves order."""
    import concurrent.futures as cf
    if len(lines) < 2000 or shards <= 1:
        return impl(args, lines, timeout)
    size = (len(lines) + shards - 1) // shards
    parts = [lines[i:i + size] for i in range(0, len(lines), size)]
    with cf.ThreadPoolExecutor(len(parts)) as ex:
        res = list(ex.map(lambda p: impl(args, p, timeout), parts))
    return [x for r in res for x in r]


def impl_isolating(args, lines, ncols, shards=16, timeout=600, single_timeout=20, crash_value=None):
    """like impl_parallel, but a case that crashes or hangs the process is isolated by bisection and
    answered with a JSON list of ncols "CRASH" strings; the other cases keep their real answers."""
    import concurrent.futures as cf
    crash = crash_value if crash_value is not None else json.dumps(["CRASH"] * ncols)

    def solve(part, t):
        if not part:
            return []
        try:
            return impl(args, part, t)
        except (RuntimeError, subprocess.TimeoutExpired):
            if len(part) == 1:
                return [crash]
            mid = len(part) // 2
            t2 = max(single_timeout, t // 2)
            return solve(part[:mid], t2) + solve(part[mid:], t2)
    if len(lines) < 200 or shards <= 1:
        return solve(lines, timeout)
    size = (len(lines) + shards - 1) // shards
    parts = [lines[i:i + size] for i in range(0, len(lines), size)]
    with cf.ThreadPoolExecutor(len(parts)) as ex:
        res = list(ex.map(lambda p: solve(p, timeout), parts))
    return [x for r in res for x in r]


def model_parallel(entry, lines, shards=8, timeout=1800):
    import concurrent.futures as cf
    if len(lines) < 2000 or shards <= 1:
        return model(entry, lines, timeout)
    size = (len(lines) + shards - 1) // shards
    parts = [lines[i:i + size] for i in range(0, len(lines), size)]
    with cf.ThreadPoolExecutor(len(parts)) as ex:
        res = list(ex.map(lambda p: model(entry, p, timeout), parts))
    return [x for r in res for x in r]


# ----------------------------------------------------------------------------- findings / evidence

def load_known(prop):
    p = os.path.join(ROOT, "known_findings.json")
    if not os.path.exists(p):
        return []
    return [k for k in json.load(open(p)) if k.get("property") == prop]


def sha(s):
    return hashlib.sha256(s.encode() if isinstance(s, str) else s).hexdigest()[:16]


class Ctx:
    """state of one check run."""

    def __init__(self, prop, tier, seed):
        self.prop, self.tier, self.seed = prop, tier, seed
        self.rng = random.Random(seed)
        self.t0 = time.time()
        self.known = load_known(prop)
        self.known_hit = {}          # id -> count
        self.violations = []         # (what, replay_path)
        self.evaluations = 0
        self.nontrivial = set()
        self.samples = []
        self.notes = []
        self.extra = {}
        self.obligations = 0
        self.discharged = 0
        self.theorems = []
        self.proof_broken = []
        self.assumptions = []
        self.classifiers = {}        # predicate name -> fn(case) -> bool

    # ---- known findings
    def match_known(self, case_key, case=None):
        for k in self.known:
            if k.get("status") != "known":
                continue
            m = k.get("match", {})
            if m.get("kind") == "input" and m.get("key") == case_key:
                return k
            if m.get("kind") == "class":
                fn = self.classifiers.get(m.get("predicate"))
                if fn is not None and fn(case if case is not None else case_key):
                    return k
        return None

    def report(self, what, case_key, replay_obj, case=None, no_input=False):
        """a property violation by the implementation on a concrete case (or a broken
        obligation with no failing input found)."""
        k = None if no_input else self.match_known(case_key, case)
        if k is not None:
            self.known_hit[k["id"]] = self.known_hit.get(k["id"], 0) + 1
            return False
        os.makedirs(os.path.join(ROOT, "replays"), exist_ok=True)
        path = os.path.join(ROOT, "replays", "%s-%s.json" % (self.prop, sha(case_key + what)))
        replay_obj = dict(replay_obj)
        replay_obj.update({"property": self.prop, "what": what, "seed": self.seed, "tier": self.tier,
                           "replay_cmd": "bin/check %s --replay %s" % (self.prop, path)})
        json.dump(replay_obj, open(path, "w"), indent=1)
        self.violations.append((what, path, no_input))
        return True

    def finish(self, level_text_extra=None):
        for k in self.known:
            if k.get("status") == "known" and self.known_hit.get(k["id"]):
                print("KNOWN-FINDING: property=%s %s [%s; %d case(s) this run]" % (self.prop, k["what"], k["id"], self.known_hit[k["id"]]))
        seen = set()
        for what, path, no_input in self.violations[:20]:
            if path in seen:
                continue
            seen.add(path)
            print("VIOLATION property=%s replay=%s%s" % (self.prop, path, " no-failing-input-found" if no_input else ""))
            log("  ", what)
        cov = {
            "obligations": self.obligations,
            "discharged": self.discharged,
            "checker_cmd": "make -C /verif/coq (coq_makefile, full .vo build, coqc 8.16.1); Print Assumptions in coq/theories/Props/%s.v" % self.prop,
            "trusted_base": TRUSTED_BASE_COMMON + self.assumptions,
            "theorems": self.theorems,
            "evaluations": self.evaluations,
            "distinct_nontrivial": len(self.nontrivial),
            "rule": self.extra.pop("rule", ""),
            "samples": self.samples[:12] if self.samples else ["(none)"],
            "known_findings_hit": self.known_hit,
            "proof_broken": self.proof_broken,
        }
        cov.update(self.extra)
        ev = {
            "property_id": self.prop, "tier": self.tier, "seed": self.seed, "level": "proof",
            "coverage": cov, "assumptions": self.notes, "wall_s": round(time.time() - self.t0, 2),
            "violations": len(seen),
        }
        os.makedirs(os.path.join(ROOT, "evidence"), exist_ok=True)
        json.dump(ev, open(os.path.join(ROOT, "evidence", self.prop + ".json"), "w"), indent=1)
        return 1 if self.violations else 0


def coqchk(ctx):
    """thorough tier: re-check the compiled cone of the property's theorems with Coq's independent checker and
    record the axioms it reports (expected: none)."""
    if ctx.proof_broken:
        return
    with Lock("coq"):
        rc, o, e = sh("timeout 3000 coqchk -silent -o -Q theories JS JS.Props.%s 2>&1" % ctx.prop, cwd=COQ, timeout=3100)
    m = re.search(r"\* Axioms:\s*(.*?)\n\s*\n\* Constants", o, re.S)
    axioms = m.group(1).strip() if m else "?"
    ctx.extra["coqchk"] = {"exit": rc, "axioms": axioms, "type_in_type": "<none>" in (re.search(r"type-in-type:\s*(\S+)", o) or [None, ""])[1] if re.search(r"type-in-type:\s*(\S+)", o) else "?"}
    if rc != 0 or axioms != "<none>":
        ctx.report("coqchk does not accept the compiled theorems of %s or reports axioms: exit %d, axioms %s" % (ctx.prop, rc, axioms[:300]), "coqchk", {"output": o[-3000:]}, no_input=True)


def prepare(ctx, need_model=True, need_impl=True):
    """steps 1-2. Fills ctx.obligations/discharged; returns dict(ok_proof, ok_model, ok_impl)."""
    res = {"proof": True, "model": True, "impl": True, "logs": {}}
    ok_t, terr = run_tabx()
    if not ok_t:
        res["logs"]["tabx"] = terr
    ok, failed, mlog = make_coq()
    prop_file = "theories/Props/%s.v" % ctx.prop
    cone = coq_cone(prop_file)
    n, names = count_statements(cone)
    ctx.obligations = n
    ctx.theorems = [x for x in names if x.startswith(ctx.prop + ".")]
    broken = broken_in_cone(prop_file, failed) if not ok else []
    if broken or not ok_t:
        nb, _ = count_statements(broken)
        # everything downstream of a broken file is not discharged either
        ctx.discharged = max(0, n - max(nb, 1))
        ctx.proof_broken = broken + ([] if ok_t else ["tabx: " + terr.strip()[:300]])
        res["proof"] = False
        res["logs"]["make"] = mlog[-3000:]
    else:
        ctx.discharged = n
    if need_model:
        okm, l = build_modelrun()
        res["model"] = okm
        if not okm:
            res["logs"]["modelrun"] = l[-3000:]
    if need_impl:
        oki, l = build_implrun()
        res["impl"] = oki
        if not oki:
            res["logs"]["implrun"] = l[-3000:]
    return res
