"""Independent reference for RFC 8259 texts on bytes (no code shared with the Coq model or the Go scanner):
a plain LL(1) recursive-descent recogniser that reports
  ("ok", end, events)      one complete value ends at byte index end-1 (exclusive end), events as the library defines them
  ("err", pos)             byte at pos cannot continue the text
  ("eof",)                 input ended before the value was complete
Event codes follow internal/lexeme/lex_event_type.go."""

LB, LE, OB, OE, KB, KE, VB, VE, AB, AE, IB, IE, ENDTOP = 0, 1, 2, 3, 4, 5, 6, 7, 8, 9, 10, 11, 27
WS = b" \t\r\n"
DIG = b"0123456789"
HEX = b"0123456789abcdefABCDEF"


class Stop(Exception):
    pass


class P:
    def __init__(self, b):
        self.b, self.n, self.ev = b, len(b), []

    def err(self, i):
        raise Stop(("err", i))

    def eof(self):
        raise Stop(("eof",))

    def ws(self, i):
        while i < self.n and self.b[i] in WS:
            i += 1
        return i

    def string(self, i):
        """b[i] == '"'; returns index after the closing quote"""
        b, n = self.b, self.n
        i += 1
        while True:
            if i >= n:
                self.eof()
            c = b[i]
            if c == 0x22:
                return i + 1
            if c == 0x5C:
                i += 1
                if i >= n:
                    self.eof()
                c = b[i]
                if c in b'bfnrt\\/"':
                    i += 1
                elif c == 0x75:
                    for k in range(1, 5):
                        if i + k >= n:
                            self.eof()
                        if b[i + k] not in HEX:
                            self.err(i + k)
                    i += 5
                else:
                    self.err(i)
            elif c < 0x20:
                self.err(i)
            else:
                i += 1

    def number(self, i):
        """returns (end, complete): numbers are taken maximally; incomplete at end of input -> eof"""
        b, n = self.b, self.n
        if b[i] == 0x2D:
            i += 1
            if i >= n:
                self.eof()
            if b[i] not in DIG:
                self.err(i)
        if b[i] == 0x30:
            i += 1
        else:
            while i < n and b[i] in DIG:
                i += 1
        if i < n and b[i] == 0x2E:
            i += 1
            if i >= n:
                self.eof()
            if b[i] not in DIG:
                self.err(i)
            while i < n and b[i] in DIG:
                i += 1
        if i < n and b[i] in b"eE":
            i += 1
            if i >= n:
                self.eof()
            if b[i] in b"+-":
                i += 1
                if i >= n:
                    self.eof()
            if b[i] not in DIG:
                self.err(i)
            while i < n and b[i] in DIG:
                i += 1
        return i

    def word(self, i, w):
        for k, ch in enumerate(w):
            if i + k >= self.n:
                self.eof()
            if self.b[i + k] != ch:
                self.err(i + k)
        return i + len(w)

    def value(self, i):
        """i at a non-blank byte; returns index after the value"""
        b = self.b
        c = b[i]
        ev = self.ev
        if c == 0x7B:
            ev.append((OB, i, i))
            start = i
            i = self.ws(i + 1)
            if i >= self.n:
                self.eof()
            if b[i] == 0x7D:
                ev.append((OE, start, i))
                return i + 1
            while True:
                if b[i] != 0x22:
                    self.err(i)
                ev.append((KB, i, i))
                j = self.string(i)
                ev.append((KE, i, j - 1))
                i = self.ws(j)
                if i >= self.n:
                    self.eof()
                if b[i] != 0x3A:
                    self.err(i)
                i = self.ws(i + 1)
                if i >= self.n:
                    self.eof()
                ev.append((VB, i, i))
                j = self.value(i)
                ev.append((VE, i, j - 1))
                i = self.ws(j)
                if i >= self.n:
                    self.eof()
                if b[i] == 0x2C:
                    i = self.ws(i + 1)
                    if i >= self.n:
                        self.eof()
                    continue
                if b[i] == 0x7D:
                    ev.append((OE, start, i))
                    return i + 1
                self.err(i)
        if c == 0x5B:
            ev.append((AB, i, i))
            start = i
            i = self.ws(i + 1)
            if i >= self.n:
                self.eof()
            if b[i] == 0x5D:
                ev.append((AE, start, i))
                return i + 1
            while True:
                ev.append((IB, i, i))
                j = self.value(i)
                ev.append((IE, i, j - 1))
                i = self.ws(j)
                if i >= self.n:
                    self.eof()
                if b[i] == 0x2C:
                    i = self.ws(i + 1)
                    if i >= self.n:
                        self.eof()
                    continue
                if b[i] == 0x5D:
                    ev.append((AE, start, i))
                    return i + 1
                self.err(i)
        if c == 0x22:
            ev.append((LB, i, i))
            j = self.string(i)
            ev.append((LE, i, j - 1))
            return j
        if c == 0x2D or c in DIG:
            ev.append((LB, i, i))
            j = self.number(i)
            ev.append((LE, i, j - 1))
            return j
        for w in (b"true", b"false", b"null"):
            if c == w[0]:
                ev.append((LB, i, i))
                j = self.word(i, w)
                ev.append((LE, i, j - 1))
                return j
        self.err(i)


def parse_prefix(b):
    """one value, possibly preceded by blanks. ("ok", end, events) | ("err", pos, events_so_far) | ("eof", events_so_far) | ("empty",)"""
    p = P(b)
    i = p.ws(0)
    if i >= len(b):
        return ("empty",)
    try:
        j = p.value(i)
    except Stop as s:
        r = s.args[0]
        return r + (p.ev,)
    return ("ok", j, p.ev)


def is_json_text(b):
    r = parse_prefix(b)
    if r[0] != "ok":
        return False
    j = r[1]
    return all(c in WS for c in b[j:])


def strict_result(b):
    """what Document.Check must say for a strict document: "ok" or ("err", pos) with pos = first byte that cannot
    continue the text, or the last byte when the input ends early; empty/blank input is an error without position."""
    r = parse_prefix(b)
    if r[0] == "empty":
        return ("empty",)
    if r[0] == "err":
        return ("err", r[1])
    if r[0] == "eof":
        return ("err", len(b) - 1)
    j = r[1]
    k = j
    # a number directly followed by a byte that could not extend it: that byte is the offender as well
    while k < len(b) and b[k] in WS:
        k += 1
    if k < len(b):
        return ("err", k)
    return ("ok",)


def trailing_result(b):
    """with AllowTrailingNonSpaceCharacters: ok iff the text begins with one complete value (numbers maximal)."""
    r = parse_prefix(b)
    if r[0] == "empty":
        return ("empty",)
    if r[0] == "err":
        return ("err", r[1])
    if r[0] == "eof":
        return ("err", len(b) - 1)
    return ("ok", r[1])
