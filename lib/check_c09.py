"""C09 — user-type references are resolved completely and recursion is decided correctly."""
import itertools, json
import vcommon as vc

NAMES = ["@t0", "@t1", "@t2", "@t3", "@t4", "@t5"]


def rand_type(rng, n, allow_missing):
    """abstract object type: list of properties (form, targets)"""
    props = []
    pool = list(range(n)) + ([n + 1] if allow_missing else [])
    for _ in range(rng.choice([0, 1, 1, 2, 2, 3])):
        form = rng.choice(["req", "req", "opt", "arr", "or", "oropt", "scalar", "scalar", "nested", "addp", "arrmin", "arrmin2", "arrmin1of2"])
        if form in ("or", "oropt"):
            tg = rng.sample(pool, min(len(pool), rng.choice([2, 2, 3])))
        elif form == "scalar":
            tg = []
        else:
            tg = [rng.choice(pool)]
        props.append((form, tg))
    return props


def name(i):
    return "@t%d" % i


def print_type(props):
    """JSight text of an object type + the tnode wire of what the recursion checker sees + referenced names"""
    if props and props[0][0] == "alias":
        tg = props[0][1]
        return " | ".join(name(t) for t in tg), "R %d %s" % (len(tg), " ".join(str(t) for t in tg)), list(tg)
    lines, wire, refs = ["{"], [], []
    addp = None
    body = []
    for j, (form, tg) in enumerate(props):
        k = '"p%d"' % j
        if form == "req":
            body.append(("  %s: %s" % (k, name(tg[0])), ""))
            wire.append("0 R 1 %d" % tg[0]); refs += tg
        elif form == "opt":
            body.append(("  %s: %s" % (k, name(tg[0])), " // {optional: true}"))
            wire.append("1 R 1 %d" % tg[0]); refs += tg
        elif form == "arr":
            body.append(("  %s: [%s]" % (k, name(tg[0])), ""))
            wire.append("0 L"); refs += tg
        elif form == "arrmin":       # an array that may not be empty: its item is required
            body.append(("  %s: [ // {minItems: 1}\n    %s\n  ]" % (k, name(tg[0])), ""))
            wire.append("0 R 1 %d" % tg[0]); refs += tg
        elif form == "arrmin2":      # both positions are required
            body.append(("  %s: [ // {minItems: 2}\n    1,\n    %s\n  ]" % (k, name(tg[0])), ""))
            wire.append("0 O 2 0 L 0 R 1 %d" % tg[0]); refs += tg
        elif form == "arrmin1of2":   # only the first position is required
            body.append(("  %s: [ // {minItems: 1}\n    1,\n    %s\n  ]" % (k, name(tg[0])), ""))
            wire.append("0 L"); refs += tg
        elif form in ("or", "oropt"):
            body.append(("  %s: %s" % (k, " | ".join(name(t) for t in tg)), " // {optional: true}" if form == "oropt" else ""))
            wire.append("%d R %d %s" % (1 if form == "oropt" else 0, len(tg), " ".join(str(t) for t in tg))); refs += tg
        elif form == "nested":
            body.append(("  %s: {\n    \"q\": %s\n  }" % (k, name(tg[0])), ""))
            wire.append("0 O 1 0 R 1 %d" % tg[0]); refs += tg
        elif form == "addp":
            addp = tg[0]
        else:
            body.append(("  %s: 1" % k, ""))
            wire.append("0 L")
    if addp is not None:
        refs.append(addp)
    head = "{" + (' // {additionalProperties: "%s"}' % name(addp) if addp is not None else "")
    out = [head]
    for i, (l, a) in enumerate(body):
        out.append(l + ("," if i < len(body) - 1 else "") + a)
    out.append("}")
    if not body:
        out = ["{}" + (' // {additionalProperties: "%s"}' % name(addp) if addp is not None else "")]
    return "\n".join(out), "O %d %s" % (len(wire), " ".join(wire)), refs


def pinned_root_only(wires):
    """what the recursion checker does when types are registered on the root schema only: names inside an added type
    are looked up in that type's own (empty) list, so they are marked visited but never expanded."""
    def parse(ts):
        k = ts.pop(0)
        if k == "L":
            return ("L",)
        if k == "O":
            n = int(ts.pop(0))
            ps = []
            for _ in range(n):
                o = ts.pop(0) == "1"
                ps.append((o, parse(ts)))
            return ("O", ps)
        n = int(ts.pop(0))
        return ("R", [int(ts.pop(0)) for _ in range(n)])
    env = [parse(w.split()) for w in wires]
    visited = set()

    def check(t, at_root):
        if t[0] == "L":
            return True
        if t[0] == "O":
            for o, p in t[1]:
                if not o and not check(p, at_root):
                    return False
            return True
        oks = []
        for n in t[1]:
            if n in visited:
                oks.append(False)
                continue
            visited.add(n)
            ok = check(env[n], False) if (at_root and n < len(env)) else True
            visited.discard(n)
            oks.append(ok)
        return (not oks) or any(oks)
    if not check(env[0], True):
        return "E104"
    # fix 9a9fdc3: every named type once more as a root of its own, names resolved in ITS type list (empty here)
    for n in range(len(env)):
        visited.clear()
        visited.add(n)
        if not check(env[n], False):
            return "E104"
    return "ok"


def run(ctx):
    st = vc.prepare(ctx)
    if not st["impl"] or not st["model"]:
        ctx.report("harness or extracted model failed to build: " + json.dumps(st["logs"])[:1500], "build", st["logs"], no_input=True)
        return
    quick = ctx.tier == "quick"
    rng = ctx.rng
    ctx.classifiers["root_only_registration_cycle"] = lambda case: (isinstance(case, dict) and case.get("roottypes") and case.get("oracle") == "F" and case.get("impl") == "ok"
                                                                    and case.get("pinned_root_only") == "ok")
    ctx.classifiers["allof_edge_on_an_accepted_cycle"] = lambda case: isinstance(case, dict) and case.get("cls") == "allof_cycle" and case.get("impl") == "E703"
    ctx.extra["rule"] = ("directed type graphs over up to 6 object types whose properties are required references, optional references, array items, or-shortcuts (required/optional), "
                         "nested objects, additionalProperties types and scalars, with and without a missing type; both registration styles (types added to every schema / to the root only); "
                         "Check verdict and code against the extracted Coq checker model (check_all: the root walk, then every type as its own root) and against inhabited_all_b (the root and every type have a finite inhabitant); 1302 iff a referenced type is missing; UsedUserTypes = "
                         "names in the root text, each once; Check/Validate/Example terminate (10 s alarm per case, crash isolation); plus all graphs on <= 2 types over 9 edge forms (arrays with minItems: their first minItems positions are required); "
                         "non-trivial = graph with a cycle")
    cases = []
    # exhaustive small universe: 2 types, each with one property of every form pointing to either type
    forms = ["req", "opt", "arr", "or", "nested", "scalar", "arrmin", "arrmin2", "arrmin1of2"]
    for f0, f1 in itertools.product(forms, repeat=2):
        for a, b in itertools.product(range(2), repeat=2):
            g = [[(f0, [a] if f0 != "or" else [a, 1 - a])], [(f1, [b] if f1 != "or" else [b, 1 - b])]]
            cases.append((g, False))
    # second universe: an alias/union type with a looping and a terminating member, required again later in another order
    # (0 = root, 1 = @X = union, 2 = @T -> @X, 3 = @D terminating)
    for xs in ([2, 3], [3, 2], [2], [1, 3]):
        for tform in ("req", "opt", "arr", "or", "nested"):
            for a, b in itertools.product([1, 2, 3], repeat=2):
                for rform in ("req", "opt"):
                    g = [[("req", [a]), (rform, [b])], [("alias", xs)], [(tform, [1] if tform != "or" else [1, 3])], [("scalar", [])]]
                    cases.append((g, False))
    n = 6000 if quick else 40000
    for _ in range(n):
        k = rng.randint(1, 6)
        miss = rng.random() < 0.15
        g = [rand_type(rng, k, miss) for _ in range(k)]
        for i in range(1, k):          # some types are aliases / unions of other types (@a | @b)
            if rng.random() < 0.2:
                g[i] = [("alias", rng.sample(range(k), min(k, rng.choice([1, 2, 2, 3]))))]
        cases.append((g, miss))
    mlines, ilines, meta = [], [], []
    for g, miss in cases:
        texts, wires, refs = [], [], []
        for props in g:
            t, w, r = print_type(props)
            texts.append(t); wires.append(w); refs.append(r)
        root_refs = []
        for r in refs[0]:
            if name(r) not in root_refs:
                root_refs.append(name(r))
        allrefs = set(x for r in refs for x in r)
        missing = sorted(x for x in allrefs if x >= len(g))
        for roottypes in (False, True):
            mlines.append(wires[0] + " ; " + " ; ".join("%d %s" % (i, w) for i, w in enumerate(wires)))
            ilines.append(json.dumps({"schema": texts[0], "types": [[name(i), t] for i, t in enumerate(texts)], "roottypes": roottypes,
                                      "ops": [["check"], ["used"], ["valex"], ["example"]]}))
            meta.append({"wires": wires, "roottypes": roottypes, "missing": missing, "root_refs": root_refs, "types": texts, "cyclic": any(i in r for i, r in enumerate(refs)) or len(allrefs) > 0})
    mod = vc.model_parallel("recursion_model", mlines)
    # the same graphs from their TEXTS, inside the extracted model: scanner -> loader -> tnode_of_node -> check_all (Schema/RecursionE2E.v)
    hx = lambda t: t.encode("utf-8").hex()
    elines = ["0 ; %s ; %s" % (hx(md["types"][0]), " ; ".join("%s %s" % (hx(name(i)), hx(t)) for i, t in enumerate(md["types"]))) for md in meta]
    e2e = vc.model_parallel("rec_e2e_model", elines)
    ne2e = 0
    imp = vc.impl_isolating(["schema"], ilines, 4)
    for ml, il, m, o, md, ev in zip(mlines, ilines, mod, imp, meta, e2e):
        ctx.evaluations += 1
        r = json.loads(o)
        if len(r) != 4:
            ctx.report("machinery: unexpected harness output %s" % o[:200], "c09:" + il, {"case": il}, no_input=True)
            continue
        chk, used, val, exm = r
        case = {"roottypes": md["roottypes"], "types": md["types"], "model_line": ml, "check": chk, "used": used, "validate": val, "example": exm}
        if "CRASH" in r or any("HANG" in x for x in r):
            ctx.report("Check/Validate/Example does not terminate normally on %r" % md["types"][:3], "c09crash:" + il, case, case=case)
            continue
        if md["cyclic"]:
            ctx.nontrivial.add(ml + str(md["roottypes"]))
        code = "ok" if chk == "ok" else chk.split("@")[0]
        if md["missing"]:
            if code != "E1302" and len(ctx.violations) < 40:
                ctx.report("a referenced type is missing (%s) but Check says %s: root %r" % (md["missing"], chk, md["types"][0][:120]), "c09miss:" + il, case, case=case)
            continue
        if m == "BAD":
            ctx.report("machinery: model did not understand %s" % ml, "c09:" + ml, case, no_input=True)
            continue
        mv, inh, closed = m.split(" ")
        case.update({"oracle": inh, "impl": code, "model": mv})
        if md["roottypes"]:
            case["pinned_root_only"] = pinned_root_only(md["wires"])
        want = "ok" if inh == "T" else "E104"
        if code not in ("ok", "E104"):
            if len(ctx.violations) < 40:
                ctx.report("Check says %s on a type graph with all types present: %r" % (chk, md["types"][:3]), "c09other:" + il, case, case=case)
            continue
        if code != want:
            if len(ctx.violations) < 40 or md["roottypes"]:
                ctx.report("recursion verdict: Check says %s, %s (registration: %s); types %r" % (
                    chk, "the root and every type have a finite inhabitant" if inh == "T" else "the root or some type has no finite inhabitant (a chain of required references loops)",
                    "root only" if md["roottypes"] else "every schema", md["types"][:4]), "c09rec:" + il, case, case=case)
        elif code != mv and not md["roottypes"] and len(ctx.violations) < 40:
            ctx.report("recursion verdict: Check says %s, Coq checker model says %s" % (chk, mv), "c09model:" + il, case, no_input=True)
        if not md["roottypes"]:
            # text -> graph inside Coq: must agree with the wire abstraction the generator wrote, and with the library
            ne2e += 1
            if ev != mv and len(ctx.violations) < 40:
                ctx.report("machinery/abstraction: the model run from the schema texts says %s, the model run on the generator's graph says %s; types %r" % (ev, mv, md["types"][:4]),
                           "c09e2e:" + il, dict(case, e2e=ev), no_input=True)
            elif ev != code and code in ("ok", "E104") and code == want and len(ctx.violations) < 40:
                ctx.report("recursion verdict: Check says %s, the Coq pipeline from the texts (scanner, loader, graph, check_all) says %s; types %r" % (chk, ev, md["types"][:4]), "c09e2elib:" + il, dict(case, e2e=ev), case=case)
        # used user types: exactly the names in the root text, each once
        if code == "ok" or True:
            got = used[2:].split(",") if used.startswith("U:") and len(used) > 2 else ([] if used.startswith("U:") else None)
            if got is not None and (sorted(got) != sorted(md["root_refs"]) or len(set(got)) != len(got)) and len(ctx.violations) < 40:
                ctx.report("UsedUserTypes = %s, the root text references %s" % (got, md["root_refs"]), "c09used:" + il, case, case=case)
        if code == "ok" and ("PANIC" in val or "FOREIGN" in val) and len(ctx.violations) < 40:
            ctx.report("Validate(Example()) on an accepted graph returns %s" % val, "c09val:" + il, case, case=case)
    # UsedUserTypes on schemas with allOf, additionalProperties types, rule-form references and key shortcuts (the graphs of the C03 check), asked after Check
    # and asked first: exactly the names the root text mentions, each once
    import re
    import check_c03 as C3
    g3 = C3.allof_stream(rng, 400 if quick else 2000) + C3.rule_form_cases(rng, 400 if quick else 2000)
    for _ in range(800 if quick else 4000):
        k = rng.randint(2, 6)
        names, env = C3.gen_types(rng, k)
        g3.append((names, env, ("ref", [names[-1]], False), None))
    ulines, umeta = [], []
    for names, env, root, _ in g3:
        for rootname in [None] + [nm for nm in names if env[nm][0] == "obj" and env[nm][3]][:2]:
            text = C3.print_node(env, root) if rootname is None else C3.print_node(env, env[rootname])
            want = list(dict.fromkeys(re.findall(r"@[A-Za-z0-9_]+", text)))
            for ops in ([["check"], ["used"]], [["used"], ["check"], ["used"]], [["valex"], ["used"]]):
                ulines.append(json.dumps({"schema": text, "types": [[nm, C3.print_node(env, env[nm])] for nm in names], "ops": ops}))
                umeta.append((text, want, ops))
    for (text, want, ops), o in zip(umeta, vc.impl_isolating(["schema"], ulines, 3)):
        r = json.loads(o)
        ctx.evaluations += 1
        for op, x in zip(ops, r):
            if op[0] == "used" and x.startswith("U:"):
                got = x[2:].split(",") if len(x) > 2 else []
                if (sorted(got) != sorted(want) or len(set(got)) != len(got)) and len(ctx.violations) < 40:
                    ctx.report("UsedUserTypes = %s after %s, the schema text references %s: %r" % (got, [q[0] for q in ops[:ops.index(op)]], want, text[:120]), "c09used2:" + text + json.dumps(ops),
                               {"schema": text, "ops": ops, "result": r, "expected": want}, case={"schema": text})
                    break
    ctx.extra["used_types_cases"] = len(ulines)
    ctx.extra["graphs"] = len(cases)
    ctx.extra["graphs_run_from_their_texts_inside_the_model"] = ne2e
    ctx.samples.append({"types": meta[-1]["types"], "check": json.loads(imp[-1])[0]})
    # reference forms outside the object-type generator: or lists of literal types with {type: "@T"} (diamonds are not cycles), keys optional by default, rule-sets, a root whose
    # file name looks like a type name
    fixed = [
        {"what": "diamond of literal type references", "schema": '1 // {or: ["@A", "@B"]}', "types": [["@A", '1 // {type: "@C"}'], ["@B", '2 // {type: "@C"}'], ["@C", "3"]], "check": "ok", "used": ["@A", "@B"]},
        {"what": "the same type twice in an or list", "schema": '1 // {or: ["@A", "@A"]}', "types": [["@A", "1"]], "check": "ok", "used": ["@A"]},
        {"what": "diamond through shortcuts", "schema": "@A | @B", "types": [["@A", "@C"], ["@B", "@C"], ["@C", "3"]], "check": "ok", "used": ["@A", "@B"]},
        {"what": "a real cycle of literal type references", "schema": '1 // {type: "@A"}', "types": [["@A", '1 // {type: "@B"}'], ["@B", '1 // {type: "@A"}']], "check": "err", "used": ["@A"]},
        {"what": "cycle through a property optional by default", "schema": "@A", "optional": True, "types": [["@A", '{\n  "a": @A\n}']], "check": "ok", "used": ["@A"]},
        {"what": "cycle through an explicitly optional property", "schema": "@A", "types": [["@A", '{\n  "a": @A // {optional: true}\n}']], "check": "ok", "used": ["@A"]},
        {"what": "cycle through a required property", "schema": "@A", "types": [["@A", '{\n  "a": @A\n}']], "check": "err", "used": ["@A"]},
        {"what": "missing type inside an or rule-set", "schema": '1 // {or: [{type: "object", additionalProperties: "@ZZ"}, {type: "integer"}]}', "types": [], "check": "E1302", "used": ["@ZZ"]},
        {"what": "missing type inside an or rule-set", "schema": '1 // {or: [{type: "@ZZ"}, {type: "integer"}]}', "types": [], "check": "E1302", "used": ["@ZZ"]},
        {"what": "types inside an or rule-set", "schema": '1 // {or: [{type: "@A"}, "@B", {type: "@C", nullable: true}, {type: "object", additionalProperties: "@D"}]}',
         "types": [["@A", "1"], ["@B", "2"], ["@C", "3"], ["@D", "4"]], "check": "ok", "used": ["@A", "@B", "@C", "@D"]},
        {"what": "required or list all of whose members loop, written as rule-sets with flags that say nothing", "schema": "@A",
         "types": [["@A", '{\n  "a": {} // {or: [{type: "@A", nullable: false}, {type: "@A", const: false}]}\n}']], "check": "err", "used": ["@A"]},
        {"what": "or list of rule-sets with a terminating member", "schema": "@A",
         "types": [["@A", '{\n  "a": 1 // {or: [{type: "@A", nullable: false}, {type: "integer"}]}\n}']], "check": "ok", "used": ["@A"]},
        {"what": "key-shortcut type that names itself next to a terminating alternative", "schema": '{\n  @k: 1\n}', "types": [["@k", "@k | @s"], ["@s", '"s"']], "check": "ok", "used": ["@k"]},
        {"what": "key-shortcut types that name each other next to a terminating alternative", "schema": '{\n  @k: 1\n}', "types": [["@k", "@m | @s"], ["@m", "@k | @s"], ["@s", '"s"']], "check": "ok", "used": ["@k"]},
        {"what": "allOf cycle through an array", "schema": "@node", "types": [["@node", '{\n  "children": [\n    {} // {allOf: "@node"}\n  ]\n}']], "check": "ok", "used": ["@node"], "cls": "allof_cycle"},
        {"what": "allOf cycle through an optional property", "schema": "@node", "types": [["@node", '{\n  "next": {} // {allOf: "@node", optional: true}\n}']], "check": "ok", "used": ["@node"], "cls": "allof_cycle"},
        {"what": "allOf cycle through an array, two types", "schema": "@a", "types": [["@a", '{\n  "bs": [\n    @b\n  ]\n}'], ["@b", '{ // {allOf: "@a"}\n  "x": 1\n}']], "check": "ok", "used": ["@a"], "cls": "allof_cycle"},
        {"what": "direct allOf self-reference (required: no finite expansion)", "schema": "@n", "types": [["@n", '{ // {allOf: "@n"}\n}']], "check": "err", "used": ["@n"]},
        {"what": "required self-reference through a key-shortcut property", "schema": "@r", "types": [["@r", '{\n  @k: @r\n}'], ["@k", '"a" // {minLength: 1}']], "check": "err", "used": ["@r"]},
        {"what": "required self-reference through a key-shortcut property after a named one", "schema": "@r", "types": [["@r", '{\n  "n": 1,\n  @k: @r\n}'], ["@k", '"a" // {minLength: 1}']], "check": "err", "used": ["@r"]},
        {"what": "optional self-reference through a key-shortcut property", "schema": "@r", "types": [["@r", '{\n  @k: @r // {optional: true}\n}'], ["@k", '"a" // {minLength: 1}']], "check": "ok", "used": ["@r"]},
        {"what": "allOf names a type that was added to the inheriting type only", "schema": "@A", "roottypes": True, "types": [["@A", '{ // {allOf: "@P"}\n  "x": 1\n}']],
         "private": [["@A", "@P", '{\n  "p": 2\n}']], "check": "ok", "used": ["@A"]},
        {"what": "a property names a type that was added to the referring type only (control)", "schema": "@A", "roottypes": True, "types": [["@A", '{\n  "x": @P\n}']],
         "private": [["@A", "@P", '{\n  "p": 2\n}']], "check": "ok", "used": ["@A"]},
        {"what": "required cycle reached through an array only", "schema": "[@A]", "types": [["@A", '{\n  "a": @A\n}']], "check": "err", "used": ["@A"]},
        {"what": "required cycle reached through an optional property only", "schema": '{\n  "k": @A // {optional: true}\n}', "types": [["@A", '{\n  "a": @A\n}']], "check": "err", "used": ["@A"]},
        {"what": "required cycle reached through additionalProperties only", "schema": '{ // {additionalProperties: "@A"}\n}', "types": [["@A", '{\n  "a": @A\n}']], "check": "err", "used": ["@A"]},
        {"what": "required cycle behind a union with a terminating alternative", "schema": "@A | @I", "types": [["@A", '{\n  "a": @A\n}'], ["@I", "1"]], "check": "err", "used": ["@A", "@I"]},
        {"what": "root file named like the type it contains", "schema": '{\n  "a": @A\n}', "rootname": "@A", "types": [["@A", "1"]], "check": "ok", "used": ["@A"]},
    ]
    # termination on an accepted dense graph: n object types, each a required union of all of them and a terminating @Z (every cycle ends in @Z)
    nn = 8
    dense = [["@T%d" % i, '{\n  "a": %s | @Z\n}' % " | ".join("@T%d" % j for j in range(nn))] for i in range(nn)] + [["@Z", "1"]]
    fixed.append({"what": "dense union graph of %d types (Check must finish)" % nn, "schema": "@T0", "types": dense, "check": "ok", "used": ["@T0"]})
    fouts = vc.impl_isolating(["schema"], [json.dumps({"schema": c["schema"], "types": c["types"], "optional": c.get("optional", False), "rootname": c.get("rootname", ""), "roottypes": c.get("roottypes", False), "private": c.get("private", []),
                                                          "ops": [["check"], ["used"]]}) for c in fixed], 2,
                              single_timeout=15)
    for c, o in zip(fixed, fouts):
        r = json.loads(o)
        ctx.evaluations += 1
        chk = r[0].split("@")[0]
        if chk == "CRASH":
            ctx.report("%s: Check does not finish within 15 s (or crashes); root %r" % (c["what"], c["schema"]), "c09fixedhang:" + c["schema"] + json.dumps(c["types"]), dict(c, implementation=r), case=c)
            continue
        good = (chk == "ok") if c["check"] == "ok" else (chk != "ok" if c["check"] == "err" else chk == c["check"])
        if not good and len(ctx.violations) < 40:
            ctx.report("%s: Check says %s, the statement says %s; root %r types %r" % (c["what"], r[0], c["check"], c["schema"], c["types"]), "c09fixed:" + c["schema"] + json.dumps(c["types"]), dict(c, implementation=r),
                       case=dict(c, impl=chk.split("@")[0]))
        elif len(r) > 1 and r[1].startswith("U:") and sorted(x for x in r[1][2:].split(",") if x) != sorted(c["used"]) and len(ctx.violations) < 40:
            ctx.report("%s: UsedUserTypes = %s, the schema text references %s; root %r" % (c["what"], r[1][2:], c["used"], c["schema"]), "c09fixedused:" + c["schema"], dict(c, implementation=r), case=c)
    late = [{"schema": '{\n  "a": @A\n}', "ops": [[first], ["addtype", "@A", "1"], ["check"]]} for first in ("check", "ast", "example", "used", "len")]
    for c, o in zip(late, vc.impl(["schema"], [json.dumps(c) for c in late])):
        r = json.loads(o)
        ctx.evaluations += 1
        if len(r) == 3 and r[1] == "ok" and r[2].startswith("E1302") and len(ctx.violations) < 40:
            ctx.report("AddType after %s returns no error, yet Check still says the type was not added: %s" % (c["ops"][0][0], r), "c09late:" + c["ops"][0][0], dict(c, implementation=r), case=c)
    ctx.extra["fixed_reference_forms"] = len(fixed)
    if not st["proof"] and not ctx.violations:
        ctx.report("proof obligation(s) no longer check: %s" % ", ".join(ctx.proof_broken), "proof-broken", {"broken": ctx.proof_broken}, no_input=True)


def replay(ctx, path):
    r = json.load(open(path))
    vc.prepare(ctx)
    run(ctx)
