"""C01 — Validate accepts exactly the documents shaped like the schema's EXAMPLE (rule-free fragment)."""
import json
import vcommon as vc
import jsight as J


def has_nullable_container(w):
    if w.kind in "OA" and not w.any:
        if w.nullable:
            return True
        return any(has_nullable_container(x) for _, _, x in w.members) or any(has_nullable_container(x) for x in w.items)
    return False


def run_cases(ctx, label, cases):
    """cases: (optdefault, W, doc)"""
    rng = ctx.rng
    mlines, ilines, elines, tlines = [], [], [], []
    for od, w, d in cases:
        mlines.append("%d ; %s ; %s" % (1 if od else 0, J.schema_wire(w), J.doc_wire(d)))
        st = J.print_schema(w, rng)
        dt = J.print_doc(d, rng)
        ilines.append(json.dumps({"schema": st, "optional": bool(od), "ops": [["check"], ["validate", dt]]}))
        elines.append("%d ; %s ; %s" % (1 if od else 0, st.encode().hex() or "-", J.doc_wire(d)))
        tlines.append("%d ; %s ; %s" % (1 if od else 0, st.encode().hex() or "-", dt.encode().hex() or "-"))
    mod = vc.model_parallel("shape_model", mlines)
    # the whole pipeline inside Coq, from the schema TEXT: SchemaScanner.scan -> Loader.load -> E2E.w_of_node -> Shape.compile -> Shape.validate
    e2e = vc.model_parallel("e2e_model", elines)
    # ... and from BOTH texts: the document text goes through the JSON scanner model and the event-level machine (E2E.validate_texts)
    e2t = vc.model_parallel("e2e_texts_model", tlines)
    for (od, w, d), el, tl, il, ev, tv, i in zip(cases, elines, tlines, ilines, e2e, e2t, vc.impl_parallel(["schema"], ilines)):
        ir = json.loads(i)
        if len(ir) != 2 or ir[0] != "ok":
            continue
        got = "ok" if ir[1] == "ok" else ir[1].split("@")[0]
        if tv != got and len(ctx.violations) < 40:
            c = json.loads(il)
            ctx.report("Validate says %s, the Coq pipeline from BOTH texts (schema scanner, loader, JSON scanner, validator machine) says %s: schema %r document %r" % (ir[1], tv, c["schema"][:160], c["ops"][1][1][:120]),
                       "c01e2t:" + tl, {"schema": c["schema"], "document": c["ops"][1][1], "implementation": ir[1], "e2e_texts_model": tv, "model_line": tl}, case=(w, d), no_input=True)
        if ev != got and len(ctx.violations) < 40:
            c = json.loads(il)
            ctx.report("Validate says %s, the Coq pipeline from the schema text (scanner, loader, shape validator) says %s: schema %r document %r" % (ir[1], ev, c["schema"][:160], c["ops"][1][1][:120]),
                       "c01e2e:" + el, {"schema": c["schema"], "document": c["ops"][1][1], "implementation": ir[1], "e2e_model": ev, "model_line": el}, case=(w, d), no_input=True)
    mach = vc.model_parallel("machine_model", mlines)       # the event-level tree of leaf validators (Schema/Machine.v)
    imp = vc.impl_parallel(["schema"], ilines)
    nb = 0
    for (od, w, d), ml, il, m, mm, i in zip(cases, mlines, ilines, mod, mach, imp):
        ir = json.loads(i)
        ctx.evaluations += 1
        if mm != "BAD" and len(ir) == 2 and ir[0] == "ok":
            got_m = "ok" if ir[1] == "ok" else ir[1].split("@")[0]
            mv_machine, mv_rec = mm.split(" ")
            if mv_machine != got_m and len(ctx.violations) < 40:
                c = json.loads(il)
                ctx.report("Validate says %s, the event-level machine model says %s (recursive model: %s): schema %r document %r" % (ir[1], mv_machine, mv_rec, c["schema"][:160], c["ops"][1][1][:120]),
                           "c01machine:" + ml, {"schema": c["schema"], "document": c["ops"][1][1], "implementation": ir[1], "machine_model": mv_machine, "recursive_model": mv_rec, "model_line": ml},
                           case=(w, d), no_input=True)
        if m == "BAD" or len(ir) != 2:
            ctx.report("machinery: case not understood by model or harness: %s / %s" % (m, i[:200]), "c01:" + ml, {"model_line": ml, "impl_line": il}, no_input=True)
            continue
        mv, spec, nnc = m.split(" ")
        chk, val = ir
        if chk != "ok":
            ctx.report("Check rejects a rule-free schema: %s" % chk, "c01check:" + ml, {"schema": json.loads(il)["schema"], "result": chk, "model_line": ml}, case=ml)
            continue
        got = "ok" if val == "ok" else val.split("@")[0]
        want_ok = spec == "T"
        what, noinput = None, False
        if (got == "ok") != want_ok:
            what = "Validate says %s, the example's shape says %s" % (val, "accept" if want_ok else "reject")
        elif got != mv:
            what, noinput = "Validate says %s, Coq model says %s (verdict class agrees with the shape)" % (val, mv), True
        if what:
            nb += 1
            if len(ctx.violations) < 40:
                c = json.loads(il)
                ctx.report(what + ": schema %r document %r optionalByDefault=%s" % (c["schema"][:160], c["ops"][1][1][:120], bool(od)), "c01:" + ml,
                           {"schema": c["schema"], "document": c["ops"][1][1], "keys_optional_by_default": bool(od), "implementation": val, "model": mv, "shape_ok": spec,
                            "model_line": ml, "found_in": label}, case=(w, d), no_input=noinput)
    return nb


def run(ctx):
    st = vc.prepare(ctx)
    if not st["impl"] or not st["model"]:
        ctx.report("harness or extracted model failed to build: " + json.dumps(st["logs"])[:1500], "build", st["logs"], no_input=True)
        return
    quick = ctx.tier == "quick"
    rng = ctx.rng
    ctx.extra["rule"] = ("rule-free schemas (objects/arrays/scalars to depth 5, any mix of optional true/false/absent, nullable, type any) printed as JSight text in random rule order; "
                         "documents = conforming instances and their typed mutations (drop/add/duplicate/reorder key, int<->float, kind swap, null injection at every position, array "
                         "truncate/extend beyond the example, deep payloads under any, escaped key spellings) and unrelated documents; both key-optionality configurations; verdict and "
                         "error code against the extracted Coq model, verdict against shape_ok; non-trivial = schema with a container and a document with a container")
    cases = []
    ns = 5000 if quick else 40000
    for _ in range(ns):
        w = J.rand_schema(rng, rng.randint(0, 5))
        for od in (False, True):
            d = J.conforming(rng, w, od)
            cases.append((od, w, d))
            for _ in range(3):
                d2 = d
                for _ in range(rng.choice([1, 1, 2])):
                    d2 = J.mutate_doc(rng, d2)
                cases.append((od, w, d2))
            cases.append((od, w, J.rand_doc(rng, 2)))
    # small universe: all schemas with few nodes x small documents
    small_s = [J.W(k, tok=J.SCALAR_TOKENS[k][0], nullable=nl, any_=an) for k in "SIFBN" for nl in (False, True) for an in (False, True)]
    small_s += [J.W("O", members=[("a", m, x)], nullable=nl) for m in (None, True, False) for x in small_s[:10] for nl in (False, True)]
    small_s += [J.W("A", items=its, nullable=nl) for its in ([], small_s[:1], [small_s[4], small_s[8]]) for nl in (False, True)]
    small_d = [("s", '"a"'), ("i", "1"), ("i", "1e2"), ("f", "1.5"), ("f", "2.0"), ("b", "true"), ("n", "null"), ("o", []), ("a", []),
               ("o", [("a", ("i", "1"))]), ("o", [("a", ("n", "null"))]), ("o", [("b", ("i", "1"))]), ("o", [("a", ("i", "1")), ("a", ("s", '"x"'))]),
               ("a", [("i", "1")]), ("a", [("i", "1"), ("s", '"a"'), ("s", '"b"')]), ("a", [("n", "null")]), ("o", [("a", ("o", []))])]
    for w in small_s:
        for d in small_d:
            for od in (False, True):
                cases.append((od, w, d))
    ctx.extra["small_universe"] = len(small_s) * len(small_d) * 2
    for od, w, d in cases:
        if w.kind in "OA" and d[0] in "oa":
            ctx.nontrivial.add(J.schema_wire(w) + ";" + J.doc_wire(d))
    # corpus: fixed and known replays first
    import os
    cdir = os.path.join(vc.ROOT, "corpus", "C01")
    if os.path.isdir(cdir):
        for f in sorted(os.listdir(cdir)):
            for c in json.load(open(os.path.join(cdir, f))):
                r = json.loads(vc.impl(["schema"], [json.dumps({"schema": c["schema"], "optional": c["optional"], "ops": [["check"], ["validate", c["document"]]]})])[0])
                ctx.evaluations += 1
                got = "ok" if r[1] == "ok" else r[1].split("@")[0]
                if r[0] != "ok" or got != c["expect"]:
                    w = None
                    ctx.report("corpus case %s: Check %s, Validate %s, expected %s: schema %r document %r" % (f, r[0], r[1], c["expect"], c["schema"][:100], c["document"][:60]),
                               "c01corpus:" + c["schema"] + "|" + c["document"], dict(c, implementation=r), case=(w, None) if w else None)
    run_cases(ctx, "generated", cases)
    ctx.extra["cases"] = len(cases)
    od, w, d = cases[7]
    ctx.samples.append({"schema": J.print_schema(w), "document": J.print_doc(d), "keys_optional_by_default": od})
    if not st["proof"] and not ctx.violations:
        ctx.report("proof obligation(s) no longer check: %s" % ", ".join(ctx.proof_broken), "proof-broken",
                   {"broken": ctx.proof_broken, "log": st["logs"].get("make", "")[-3000:]}, no_input=True)


def replay(ctx, path):
    r = json.load(open(path))
    vc.prepare(ctx)
    il = json.dumps({"schema": r["schema"], "optional": r["keys_optional_by_default"], "ops": [["check"], ["validate", r["document"]]]})
    m = vc.model("shape_model", [r["model_line"]])[0]
    i = json.loads(vc.impl(["schema"], [il])[0])
    ctx.evaluations += 1
    mv, spec, _ = m.split(" ")
    if (i[1] == "ok") != (spec == "T"):
        ctx.report("replay: Validate says %s, shape says %s" % (i[1], spec), "c01:" + r["model_line"], r)
