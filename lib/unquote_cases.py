"""Cases for the Unquote model (Text/Unquote.v) vs bytes.Bytes.Unquote: structured spellings of
random scalar-value strings with their expected decoding, plus a malformed stream."""
import random

SHORT = {0x22: b'\\"', 0x5c: b'\\\\', 0x2f: b'\\/', 8: b'\\b', 12: b'\\f', 10: b'\\n', 13: b'\\r', 9: b'\\t'}


def rand_scalar(rng):
    k = rng.random()
    if k < 0.35:
        return rng.choice([0x22, 0x5c, 0x2f, 0x27, 8, 9, 10, 12, 13, 0, 0x1f, 0x20, 0x7f, 0x41, 0x61, 0x30])
    if k < 0.55:
        return rng.randrange(0x20, 0x80)
    if k < 0.7:
        return rng.choice([0x80, 0x7ff, 0x800, 0xfff, 0x1000, 0xd7ff, 0xe000, 0xfffd, 0xfffe, 0xffff, 0x10000, 0x10ffff, 0xe9, 0x20ac, 0x1f600])
    if k < 0.85:
        return rng.randrange(0x80, 0xd800)
    return rng.choice([rng.randrange(0xe000, 0x10000), rng.randrange(0x10000, 0x110000)])


def hex4(rng, v):
    s = "%04x" % v
    return ("\\u" + "".join(c.upper() if rng.random() < 0.5 else c for c in s)).encode()


def spell(rng, r):
    """one admissible spelling of scalar value r (bytes), label"""
    opts = ["hex"]
    if not (r in (0x22, 0x5c) or r < 0x20):
        opts += ["lit", "lit"]
    if r in SHORT:
        opts += ["short", "short"]
    o = rng.choice(opts)
    if o == "lit":
        return chr(r).encode("utf-8"), o
    if o == "short":
        return SHORT[r], o
    if r <= 0xffff:
        return hex4(rng, r), o
    v = r - 0x10000
    return hex4(rng, 0xd800 + (v >> 10)) + hex4(rng, 0xdc00 + (v & 0x3ff)), "pair"


def structured(rng, n):
    """[(token bytes, expected decoded bytes, labels)]"""
    out = []
    for _ in range(n):
        rs = [rand_scalar(rng) for _ in range(rng.choice([0, 1, 1, 2, 3, 5, 8, 20]))]
        body, labs = b"", []
        for r in rs:
            b, l = spell(rng, r)
            body += b
            labs.append(l)
        out.append((b'"' + body + b'"', "".join(map(chr, rs)).encode("utf-8"), labs))
    return out


FRAGS = [b'"', b'\\', b'\\u', b'\\u12', b'\\ud800', b'\\udc00', b'\\uD83D', b'\\uDE00', b'\\u0041', b'\\x', b"\\'", b'\\n', b'a', b' ', b'\x00', b'\x1f', b'\x7f',
         b'\x80', b'\xc0', b'\xc1\x80', b'\xc2', b'\xc2\x80', b'\xe0\x80\x80', b'\xe0\xa0\x80', b'\xed\xa0\x80', b'\xed\x9f\xbf', b'\xef\xbf\xbd', b'\xf0\x80\x80\x80',
         b'\xf0\x90\x80\x80', b'\xf4\x8f\xbf\xbf', b'\xf4\x90\x80\x80', b'\xf5', b'\xff', b'\xe2\x82', b'\xf0\x9f\x98', b'\\uZZZZ', b'\\u00e9', b'\\u00E9']


def malformed(rng, n):
    out = []
    for _ in range(n):
        body = b"".join(rng.choice(FRAGS) for _ in range(rng.choice([0, 1, 2, 3, 4, 6])))
        k = rng.random()
        if k < 0.7:
            tok = b'"' + body + b'"'
        elif k < 0.8:
            tok = b'"' + body
        elif k < 0.9:
            tok = body + b'"'
        else:
            tok = body
        out.append(tok)
    return out


def exhaustive_small():
    """every token over a small alphabet up to length 4 (inside quotes) and a few unquoted"""
    al = [b'"', b'\\', b'u', b'n', b'0', b'd', b'8', b'\xc3', b'\xa9', b'\x1f']
    out = [b'', b'"', b'""', b'a', b'"a', b'a"']
    import itertools
    for n in range(0, 4):
        for t in itertools.product(al, repeat=n):
            out.append(b'"' + b"".join(t) + b'"')
    return out


def hexline(b):
    return b.hex() if b else "-"


def check_unquote(ctx, st, quick, prefix):
    """Text/Unquote.v (extracted) vs bytes.Bytes.Unquote vs the expected decoding of structured spellings.
    A model/implementation disagreement on a token is a failing input for the correspondence the
    Unquote theorems rest on; whether it is also a violation is decided by the expected decoding
    (structured cases) — for malformed tokens there is no independent expectation and the disagreement
    is reported as a broken correspondence."""
    import vcommon as vc
    if not (st["model"] and st["impl"]):
        return
    rng = random.Random(ctx.seed * 7919 + 13)
    stc = structured(rng, 1500 if quick else 60000)
    mal = malformed(rng, 1500 if quick else 60000)
    ex = exhaustive_small() if quick else exhaustive_small()
    toks = [t for t, _, _ in stc] + mal + ex
    lines = [hexline(t) for t in toks]
    mo = vc.model_parallel("unquote_model", lines) if not quick else vc.model("unquote_model", lines)
    io = vc.impl(["unquote"], lines)
    kinds = {}
    for k, tok in enumerate(toks):
        ctx.evaluations += 1
        exp = hexline(stc[k][1]) if k < len(stc) else None
        if k < len(stc):
            for l in stc[k][2]:
                kinds[l] = kinds.get(l, 0) + 1
            if len(stc[k][2]) >= 2:
                ctx.nontrivial.add("unq:" + lines[k])
        if exp is not None and io[k] != exp and len(ctx.violations) < 40:
            info = {"token_hex": lines[k], "implementation": io[k], "expected": exp, "model": mo[k], "spellings": stc[k][2]}
            ctx.report("Unquote(%r) = %s, the spelled value is %s" % (tok, io[k], exp), prefix + "unq:" + lines[k], info, case=info)
        elif mo[k] != io[k] and len(ctx.violations) < 40:
            info = {"token_hex": lines[k], "implementation": io[k], "model": mo[k]}
            ctx.report("Unquote model and bytes.Unquote differ on %r: model %s, implementation %s" % (tok, mo[k], io[k]), prefix + "unqcorr:" + lines[k], info, case=info)
    ctx.extra["unquote"] = {"structured": len(stc), "malformed": len(mal), "exhaustive_small": len(ex), "spelling_kinds": kinds,
                            "changed_by_unquote": sum(1 for k in range(len(toks)) if io[k] != lines[k])}
