"""The Coq model of the JSight schema scanner (coq/theories/SchemaScan/SchemaScanner.v, entry schema_scan_model) against notations/jschema/internal/scanner:
raw event stream (modes s, S = length-computing) and Schema.Len (l).  Shared by the C06 / C13 / C14 / C17 checks.  tools/schema_difftest.py is the large
version (11M lines) used when the model was written; its generators are reused here."""
import importlib.util, itertools, os, random, sys

_T = None


def _tool():
    global _T
    if _T is None:
        p = os.path.join(os.path.dirname(os.path.dirname(os.path.abspath(__file__))), "tools", "schema_difftest.py")
        spec = importlib.util.spec_from_file_location("schema_difftest", p)
        _T = importlib.util.module_from_spec(spec)
        spec.loader.exec_module(_T)
    return _T


def texts(seed, quick):
    T = _tool()
    rng = random.Random(seed * 97 + 3)
    out = []
    base = [T.g_schema(rng) for _ in range(250 if quick else 8000)]
    base += [e if isinstance(e, bytes) else e.encode() for e in T.EDGE]
    seeds = [bytes.fromhex(l.strip()) for l in open(os.path.join(os.path.dirname(T.__file__), "schema_seed_texts.txt")) if l.strip()]
    base += rng.sample(seeds, 150 if quick else len(seeds))
    for t in base:
        out.append(t)
        for d in T.derived(t, rng, full_upto=(20 if quick else 80), nsample=(8 if quick else 60), nmut=3, trailers=True):
            out.append(d)
    A = [bytes([c]) for c in T.ALPHABET]
    for n in range(0, (2 if quick else 3) + 1):
        for t in itertools.product(A, repeat=n):
            out.append(b"".join(t))
    for _ in range(4000 if quick else 300000):
        out.append(b"".join(rng.choice(A) for _ in range(rng.randint(3, 8))))
    return list(dict.fromkeys(out))


def stream(ctx, st, modes, quick, prefix):
    import vcommon as vc
    if not (st.get("model") and st.get("impl")):
        return
    ts = texts(ctx.seed, quick)
    lines = ["%s %s" % (m, t.hex() or "-") for t in ts for m in modes]
    mo = vc.model_parallel("schema_scan_model", lines, shards=16)
    io = vc.impl_parallel(["schemax"], lines, shards=16)
    bad = 0
    ended = {}
    for l, m, i in zip(lines, mo, io):
        ctx.evaluations += 1
        if "PANIC" in i or i.startswith("FOREIGN(runtime"):
            i = i.split("|")[0] + "|PANIC" if "|" in i else "PANIC"
        if l[0] == "s":
            e = i.rsplit("|", 1)[-1]
            ended[e[:4]] = ended.get(e[:4], 0) + 1
        if m != i:
            bad += 1
            if len(ctx.violations) < 40:
                t = bytes.fromhex(l[2:]) if l[2:] != "-" else b""
                what = {"s": "event stream", "S": "event stream (length mode)", "l": "Len"}[l[0]]
                ctx.report("schema text %r: %s of the scanner is %s, the Coq model of the scanner says %s" % (t[:80], what, i[-160:], m[-160:]), prefix + "schemamodel:" + l,
                           {"text_hex": l[2:], "mode": l[0], "implementation": i, "model": m}, case=t, no_input=True)
    ctx.extra["schema_scanner_model"] = {"texts": len(ts), "modes": modes, "lines": len(lines), "mismatches": bad, "stream_endings": ended}
