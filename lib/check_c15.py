"""C15 — Example() emits well-formed JSON that its own schema accepts."""
import json
import vcommon as vc
import jsight as J
import jsonref
import check_c09 as G


def is_recursive(c):
    """some user type can reach itself through references in the type texts"""
    import re
    ts = dict((n, t) for n, t in (c.get("types") or []))
    edges = {n: set(re.findall(r"@[A-Za-z0-9_]+", t)) for n, t in ts.items()}
    for start in ts:
        seen, todo = set(), list(edges.get(start, ()))
        while todo:
            x = todo.pop()
            if x == start:
                return True
            if x in seen:
                continue
            seen.add(x)
            todo += list(edges.get(x, ()))
    return False


def json_to_wire(text):
    """Shape wire of a JSON text (kinds only): s i f b n | a n ... | o n hexkey value ..."""
    class F(float):
        pass

    def conv(x):
        if isinstance(x, list) and x and isinstance(x[0], tuple) and x[0][0] == "\0pairs":
            ms = x[1:]
            return "o %d" % len(ms) + "".join(" %s %s" % (k.encode().hex() or "-", conv(v)) for k, v in ms)
        if isinstance(x, list):
            return "a %d" % len(x) + "".join(" " + conv(v) for v in x)
        if x is None:
            return "n"
        if isinstance(x, bool):
            return "b"
        if isinstance(x, F):
            return "f"
        if isinstance(x, int):
            return "i"
        if isinstance(x, str):
            return "s"
        raise ValueError(x)
    v = json.loads(text, object_pairs_hook=lambda ps: [("\0pairs", None)] + list(ps), parse_float=F)
    return conv(v)


def has_rule_form(node):
    k = node[0]
    if k in ("tref", "orform"):
        return True
    if k == "arr":
        return any(has_rule_form(x) for x in node[1])
    if k == "obj":
        return any(has_rule_form(x) for _, _, x in node[1])
    return False


def example_model_stream(ctx, st, graphs):
    """Example() of the library vs the extracted model of the builder (Schema/Example.v): same JSON shape, on the rule-free skeletons of the type graphs"""
    import check_c03 as C3
    if not st.get("model"):
        return
    ml, il = [], []
    for names, env, root, _ in graphs:
        if has_rule_form(root) or any(has_rule_form(env[nm]) for nm in names):
            continue
        try:
            env2 = {nm: C3.strip_node(env[nm]) for nm in names}
            root2 = C3.strip_node(root)
            ml.append("%s ; %s" % (C3.machine_wire(env2, names, root2), " ; ".join("%d %s" % (i, C3.machine_wire(env2, names, env2[nm])) for i, nm in enumerate(names))))
        except C3.NoWire:
            continue
        il.append(json.dumps({"schema": C3.print_node(env2, root2), "types": [[nm, C3.print_node(env2, env2[nm])] for nm in names], "ops": [["check"], ["example"]]}))
    if not ml:
        return
    mo = vc.model_parallel("example_model", ml)
    io = vc.impl_isolating(["schema"], il, 2)
    n = fb = 0
    for m, o, l in zip(mo, io, il):
        r = json.loads(o)
        if r[0] != "ok" or not r[1].startswith("X:"):
            continue
        n += 1
        ctx.evaluations += 1
        text = bytes.fromhex(r[1][2:]).decode("utf-8")
        mv, mode = m.rsplit(" ", 1)
        fb += mode == "fallback"
        try:
            got = json_to_wire(text)
        except Exception:
            got = "NOT-JSON"
        if got != mv and len(ctx.violations) < 40:
            c = json.loads(l)
            ctx.report("Example() = %s (shape %s), the model of the builder gives shape %s (%s); schema %r types %r" % (text[:100], got[:80], mv[:80], mode, c["schema"][:80], [t[1][:40] for t in c["types"]][:4]),
                       "c15model:" + l, {"schema": c["schema"], "types": c["types"], "example": text, "model": m}, case={"schema": c["schema"]}, no_input=True)
    ctx.extra["example_model_cases"] = {"n": n, "fallback": fb}


def run(ctx):
    st = vc.prepare(ctx)
    if not st["impl"]:
        ctx.report("harness failed to build: " + json.dumps(st["logs"])[:1500], "build", st["logs"], no_input=True)
        return
    quick = ctx.tier == "quick"
    rng = ctx.rng
    ctx.extra["rule"] = ("(a) plain-JSON schemas with rules (depth <= 4): Example() = the example with annotations and insignificant whitespace removed, byte for byte; (b) type graphs over <= 6 "
                         "types (required/optional references, array items, or-shortcuts, alias/union types, nested objects, additionalProperties types) and schemas with key shortcuts, enum "
                         "rules and allOf on which Check succeeds: Example() is well-formed JSON (independent recogniser) and Validate(Example()) succeeds; (c) object keys containing quotes, "
                         "backslashes, control and non-ASCII characters; non-trivial = schema with a user type or a container")
    ctx.assumptions += ["Coq part: C04_self_valid_all (rule-free model accepts its own example); the example builder itself is not modelled: this property is decided by generated cases (partial)"]
    def collision(case):
        if not (isinstance(case, dict) and case.get("kind") == "val"):
            return False
        if case.get("cls") == "shortcut-collision-required":
            return True
        # generated objects with several key shortcuts: the builder left an entry out (fewer properties than members) because its only example key was taken,
        # and the schema then misses the required shortcut (205)
        if case.get("cls") == "several-shortcuts" and str(case.get("validate_example", "")).startswith("E205"):
            try:
                ex = json.loads(case.get("example_text", "null"))
            except ValueError:
                return False
            return isinstance(ex, dict) and len(ex) < case.get("members", 0)
        return False
    ctx.classifiers["required_shortcut_collides_with_named_key"] = collision
    ctx.classifiers["example_key_not_escaped"] = lambda case: isinstance(case, dict) and case.get("cls") == "keyescape"
    cases = []     # (label, harness case dict, expected example text or None, class tag)
    n = 4000 if quick else 24000
    for _ in range(n):
        w = J.rand_rule_schema(rng, rng.randint(0, 4))
        cases.append(("plain", {"schema": J.print_schema(w, rng)}, J.plain_json(w), None))
    for _ in range(n):
        k = rng.randint(1, 6)
        g = [G.rand_type(rng, k, False) for _ in range(k)]
        for i in range(1, k):
            if rng.random() < 0.2:
                g[i] = [("alias", rng.sample(range(k), min(k, rng.choice([1, 2, 2, 3]))))]
        texts = [G.print_type(p)[0] for p in g]
        cases.append(("types", {"schema": texts[0], "types": [[G.name(i), t] for i, t in enumerate(texts)]}, None, "cutoff"))
    special = ['q"uote', "back\\slash", "tab\there", "new\nline", "é", "sl/ash", "\u0001ctl", "sp ace", "uni€", "<b>", "a&b", "x>y"]
    for k in special:
        for kind in ("plain", "optional"):
            sk = json.dumps(k, ensure_ascii=False)
            cases.append(("key", {"schema": "{\n  %s: 1%s\n}" % (sk, " // {optional: true}" if kind == "optional" else "")}, "{%s:1}" % sk, "keyescape"))
    # key shortcuts, enum rules, allOf
    cases += [
        ("shortcut", {"schema": "{\n  @k: 1\n}", "types": [["@k", '"abc" // {regex: "[a-c]+"}']]}, None, None),
        ("shortcut", {"schema": "{\n  @k: 1,\n  \"x\": 2\n}", "types": [["@k", '"id-1" // {minLength: 1}']]}, None, None),
        ("shortcut", {"schema": "{\n  @k: 1\n}", "types": [["@k", '"say \\"hi\\" now"']]}, None, None),
        ("shortcut", {"schema": "{\n  @k: 1\n}", "types": [["@k", '"back\\\\slash"']]}, None, None),
        ("shortcut", {"schema": "{\n  @k: 1,\n  \"z\": 2\n}", "types": [["@k", '"tab\\there \\u00e9" // {minLength: 2}']]}, None, None),
        ("shortcut", {"schema": "{\n  @k: 1\n}", "types": [["@k", '"say \\"hi\\""']]}, None, None),
        ("shortcut", {"schema": "{\n  @k: 1\n}", "types": [["@k", '"\\""']]}, None, None),
        ("shortcut", {"schema": "{\n  \"abc\": 1,\n  @k: \"s\"\n}", "types": [["@k", '"abc"']]}, None, "shortcut-collision-required"),
        ("shortcut", {"schema": "{\n  \"abc\": 1,\n  @k: \"s\" // {optional: true}\n}", "types": [["@k", '"abc" // {minLength: 1}']]}, None, None),
        ("shortcut", {"schema": "{\n  @k: 1\n}", "types": [["@k", '"a@b.cc" // {type: "email"}']]}, None, None),
        ("shortcut", {"schema": "{\n  @k: 1\n}", "types": [["@k", '"2020-01-01" // {type: "date"}']]}, None, None),
        ("shortcut", {"schema": "{\n  @k: 1\n}", "types": [["@k", '"x" // {const: true}']]}, None, None),
        ("shortcut", {"schema": "{\n  @k: 1\n}", "types": [["@k", '"x" // {minLength: 1, nullable: true}']]}, None, None),
        ("shortcut", {"schema": "{\n  @k: 1\n}", "types": [["@k", '"x" // {or: [{type: "string", minLength: 1}, {type: "string", regex: "x"}]}']]}, None, None),
        ("shortcut", {"schema": "{\n  @k: 1\n}", "types": [["@k", "@k2"], ["@k2", '"x" // {minLength: 1}']]}, None, None),
        ("shortcut", {"schema": "{\n  \"kk\": 1,\n  @K: 2\n}", "types": [["@K", '"kk" // {regex: "k+"}']]}, None, "shortcut-collision-required"),
        ("shortcut", {"schema": "{\n  \"a\": 1,\n  @K: 2\n}", "types": [["@K", '"a" // {enum: ["a", "b"]}']]}, None, "shortcut-collision-required"),
        ("shortcut", {"schema": "{\n  @K: 1,\n  @L: \"s\"\n}", "types": [["@K", '"a" // {enum: ["a", "b"]}'], ["@L", '"a" // {enum: ["a", "c"]}']]}, None, "shortcut-collision-required"),
        ("dictionary recursion", {"schema": "@dir", "types": [["@dir", '{\n  "name": "n",\n  "dirs": { // {optional: true}\n    @id: @dir\n  }\n}'], ["@id", '"d1" // {regex: "^d[0-9]+$"}']]}, None, "cutoff"),
        ("dictionary recursion", {"schema": "@dir", "types": [["@dir", '{\n  "dirs": { // {optional: true}\n    @id: @dir\n  }\n}'], ["@id", '"d1" // {minLength: 1}']]}, None, "cutoff"),
        ("two dictionaries", {"schema": '{\n  "users": {\n    @id: 1\n  },\n  "groups": {\n    @id: "g"\n  }\n}', "types": [["@id", '"k1" // {regex: "^k"}']]}, None, None),
        ("two dictionaries", {"schema": '{\n  "a": {\n    @id: 1\n  },\n  "b": {\n    "inner": {\n      @id: 2\n    }\n  }\n}', "types": [["@id", '"k1" // {minLength: 2}']]}, None, None),
        ("minItems at the recursion limit", {"schema": "@T", "types": [["@T", '{\n  "kids": [ // {optional: true, minItems: 1}\n    @T\n  ]\n}']]}, None, "cutoff"),
        ("minItems at the recursion limit", {"schema": "@L", "types": [["@L", '[ // {minItems: 2}\n  1,\n  @L // {nullable: true}\n]']]}, None, "cutoff"),
        ("required recursion through an array that may not be empty", {"schema": "@R", "types": [["@R", '{\n  "kids": [ // {minItems: 1}\n    @R\n  ]\n}']]}, None, "cutoff"),
        ("required recursion through an array that may not be empty", {"schema": "@R", "types": [["@R", '{\n  "kids": [ // {minItems: 2}\n    1,\n    @R\n  ]\n}']]}, None, "cutoff"),
        ("required recursion through an array that may not be empty", {"schema": "@B", "types": [["@B", "@B | @A"], ["@A", '[ // {minItems: 1}\n  @B\n]']]}, None, "cutoff"),
        ("required recursion through an array that may not be empty", {"schema": '{\n  "tree": @R // {nullable: true}\n}', "types": [["@R", '{\n  "kids": [ // {minItems: 1}\n    @R\n  ]\n}']]}, None, "cutoff"),
        ("required recursion through an array that may not be empty", {"schema": '@R // {nullable: true}', "types": [["@R", '{\n  "kids": [ // {minItems: 1}\n    @R\n  ]\n}']]}, None, "cutoff"),
        ("recursion through an array: only the first position is required", {"schema": "@R", "types": [["@R", '{\n  "kids": [ // {minItems: 1}\n    1,\n    @R\n  ]\n}']]}, None, "cutoff"),
        ("nullable property over a recursion through an array that may not be empty", {"schema": "@R", "types": [["@R", '{\n  "a": @S // {nullable: true}\n}'], ["@S", '[ // {minItems: 1}\n  @R\n]']]}, None, "cutoff"),
        ("or on an empty container with a user type wrapped in a rule-set", {"schema": '{} // {or: [{type: "@T", nullable: true}, {type: "string"}]}', "types": [["@T", '{\n  "k": 1\n}']]}, None, None),
        ("or on an empty container with a user type wrapped in a rule-set", {"schema": '[] // {or: [{type: "@A", nullable: true}, {type: "string"}]}', "types": [["@A", '[ // {minItems: 1}\n  1\n]']]}, None, None),
        ("or on an empty container with a user type wrapped in a rule-set", {"schema": '{\n  "p": {} // {or: [{type: "@T", nullable: true}, {type: "@U", nullable: true}]}\n}', "types": [["@T", '{\n  "k": 1\n}'], ["@U", '{\n  "b": 2\n}']]}, None, None),
        ("or on an empty container", {"schema": '[] // {or: [{type: "array"}, {type: "string"}]}'}, None, None),
        ("or on an empty container", {"schema": '{} // {or: [{type: "object"}, {type: "string"}]}'}, None, None),
        ("or on an empty container", {"schema": '{\n  "k": [] // {or: [{type: "array"}, {type: "string"}]}\n}'}, None, None),
        ("nothing", {"schema": ""}, None, None),
        ("nothing", {"schema": " \n"}, None, None),
        ("nothing", {"schema": "# only a comment\n"}, None, None),
        ("enum", {"schema": '"b" // {enum: @e}', "enums": [["@e", '["a", "b", 1]']]}, '"b"', None),
        ("allOf", {"schema": "{ // {allOf: \"@p\"}\n  \"own\": 1\n}", "types": [["@p", "{\n  \"inherited\": \"s\"\n}"]]}, None, None),
        ("allOf", {"schema": "{ // {allOf: [\"@p\", \"@q\"]}\n  \"own\": 1\n}", "types": [["@p", "{\n  \"a\": \"s\"\n}"], ["@q", "{\n  \"b\": 2 // {optional: true}\n}"]]}, None, None),
        ("optional recursion", {"schema": "@t", "types": [["@t", "{\n  \"v\": 1,\n  \"next\": @t // {optional: true}\n}"]]}, None, "cutoff"),
        ("array recursion", {"schema": "@t", "types": [["@t", "{\n  \"kids\": [@t]\n}"]]}, None, "cutoff"),
        ("or first loops", {"schema": "{\n  \"x\": @a | @l\n}", "types": [["@a", "{\n  \"x\": @a | @l\n}"], ["@l", "1"]]}, None, "cutoff"),
    ]
    import os
    cdir = os.path.join(vc.ROOT, "corpus", "C15")
    for f in sorted(os.listdir(cdir)) if os.path.isdir(cdir) else []:
        if f.endswith(".json"):
            for c in json.load(open(os.path.join(cdir, f))):
                if "schema" in c:
                    cases.append(("corpus:" + f, {k: c[k] for k in ("schema", "types", "enums") if k in c}, c.get("expect_example"), None))
    # the type graphs of the C03 check (allOf chains, parents that are also used on their own, additionalProperties types, rule-form references, key shortcuts)
    import check_c03 as C3
    g3 = C3.allof_stream(rng, 600 if quick else 3000) + C3.rule_form_cases(rng, 600 if quick else 3000)
    for _ in range(1500 if quick else 6000):
        k = rng.randint(2, 6)
        names, env = C3.gen_types(rng, k)
        root = rng.choice([("ref", [names[-1]], False), ("obj", [("r", False, ("ref", rng.sample(names, min(k, rng.choice([1, 2]))), False)), ("s", True, ("ref", [rng.choice(names)], False))], None, [])])
        g3.append((names, env, root, None))
    for names, env, root, _ in g3:
        several = root[0] == "obj" and sum(1 for m in root[1] if m[0].startswith("@")) >= 2
        cases.append(("c03-graph", {"schema": C3.print_node(env, root), "types": [[nm, C3.print_node(env, env[nm])] for nm in names]}, None,
                      ("several-shortcuts:%d" % len(root[1])) if several else "cutoff"))
    example_model_stream(ctx, st, g3)
    lines = [json.dumps(dict(c, ops=[["check"], ["example"], ["valex"], ["exampleagain"]])) for _, c, _, _ in cases]
    outs = vc.impl_isolating(["schema"], lines, 4)
    nchk = 0
    for (label, c, want, tag), o in zip(cases, outs):
        r = json.loads(o)
        ctx.evaluations += 1
        if len(r) != 4:
            continue
        chk, ex, valex, again = r
        info = {"schema": c["schema"], "types": c.get("types"), "enums": c.get("enums"), "check": chk, "example": ex, "validate_example": valex, "cls": tag, "group": label,
                "recursive": is_recursive(c)}
        if isinstance(tag, str) and tag.startswith("several-shortcuts:"):
            info["cls"], info["members"] = "several-shortcuts", int(tag.split(":")[1])
        if chk == "CRASH":
            ctx.report("Check/Example/Validate crashes the process on %r" % c["schema"][:100], "c15crash:" + json.dumps(c), info, case=info)
            continue
        if chk != "ok":
            continue
        nchk += 1
        if c.get("types") or "{" in c["schema"] or "[" in c["schema"]:
            ctx.nontrivial.add(json.dumps(c))
        if not ex.startswith("X:"):
            # Example may legitimately refuse? the property says it returns JSON for every accepted schema
            if len(ctx.violations) < 40:
                ctx.report("Check succeeds but Example() fails with %s: %r" % (ex, c["schema"][:120]), "c15noex:" + json.dumps(c), info, case=info)
            continue
        b = bytes.fromhex(ex[2:])
        info["example_text"] = b.decode("latin1")
        if not jsonref.is_json_text(b):
            if len(ctx.violations) < 40:
                ctx.report("Example() is not well-formed JSON: %r for schema %r" % (b[:100], c["schema"][:120]), "c15json:" + json.dumps(c), info, case=info)
            continue
        if valex != "ok":
            info["kind"] = "val"
            if len(ctx.violations) < 40:
                ctx.report("the schema rejects its own Example(): %s; example %r schema %r" % (valex, b[:100], c["schema"][:120]), "c15val:" + json.dumps(c), info, case=info)
            continue
        if again.startswith(("DIFF", "SECOND")) and len(ctx.violations) < 40:
            ctx.report("Example() called again after Example() on another schema returns something else: %s; schema %r" % (again[:160], c["schema"][:100]), "c15again:" + json.dumps(c),
                       dict(info, again=again), case=info)
        if want is not None and b.decode("utf-8", "replace") != want and len(ctx.violations) < 40:
            ctx.report("Example() of a plain-JSON schema is %r, the example without annotations and blanks is %r" % (b[:100], want[:100]), "c15plain:" + json.dumps(c), info, case=info)
    ctx.extra["cases"] = len(cases)
    ctx.extra["accepted_by_check"] = nchk
    ctx.samples.append({"schema": cases[1][1]["schema"], "result": outs[1][:200]})
    ctx.samples.append({"schema": cases[n + 1][1], "result": outs[n + 1][:200]})
    if not st["proof"] and not ctx.violations:
        ctx.report("proof obligation(s) no longer check: %s" % ", ".join(ctx.proof_broken), "proof-broken", {"broken": ctx.proof_broken}, no_input=True)


def replay(ctx, path):
    vc.prepare(ctx)
    run(ctx)
