"""Abstract JSight schemas and JSON documents for the schema-level checks: generation, printing to
JSight / JSON text (with layout choices), and the wire tokens consumed by the Coq models."""
import json

SCALAR_TOKENS = {
    "S": ['"a"', '"hello"', '""', '"x y"', '"\\u0041b"', '"é"'],
    "I": ["1", "0", "-7", "42", "1000000"],
    "F": ["1.5", "0.25", "-3.75", "2.0", "10.50"],
    "B": ["true", "false"],
    "N": ["null"],
}
# document tokens by the kind json.Guess assigns (C10): exponent forms are integers when the value is integral
DOC_TOKENS = {
    "s": ['"a"', '"zz"', '""', '"q\\n"', '"\\u00e9"'],
    "i": ["1", "0", "-7", "12345678901234567890", "1e2", "2.50e2", "-0"],
    "f": ["1.5", "2.0", "-0.5", "15e-1", "1E-2"],
    "b": ["true", "false"],
    "n": ["null"],
}
KEYS = ["a", "b", "c", "id", "name", "k", "a/b", "x y", "é"]


class W:
    """written schema node of the rule-free fragment (+ generic rules for the other checks)"""

    def __init__(self, kind, tok=None, members=None, items=None, nullable=False, any_=False, rules=None, note=None):
        self.kind, self.tok, self.members, self.items = kind, tok, members or [], items or []
        self.nullable, self.any, self.rules, self.note = nullable, any_, rules or [], note


def rand_schema(rng, depth, top=True):
    r = rng.random()
    nullable = rng.random() < 0.2
    any_ = rng.random() < 0.08
    if depth <= 0 or r < 0.35:
        k = rng.choice("SIFBN")
        return W(k, tok=rng.choice(SCALAR_TOKENS[k]), nullable=nullable, any_=any_)
    if r < 0.7:
        if any_:
            return W("O", nullable=nullable, any_=True)
        n = rng.choice([0, 1, 2, 2, 3, 4])
        keys = rng.sample(KEYS, n)
        return W("O", members=[(k, rng.choice([None, None, True, False]), rand_schema(rng, depth - 1, False)) for k in keys], nullable=nullable)
    if any_:
        return W("A", nullable=nullable, any_=True)
    n = rng.choice([0, 1, 1, 2, 3])
    return W("A", items=[rand_schema(rng, depth - 1, False) for _ in range(n)], nullable=nullable)


def rules_text(w, mark=None, extra=None):
    rs = []
    if mark is not None:
        rs.append("optional: %s" % ("true" if mark else "false"))
    if w.nullable:
        rs.append("nullable: true")
    if w.any:
        rs.append('type: "any"')
    for k, v in (w.rules or []):
        rs.append("%s: %s" % (k, v))
    rs += extra or []
    return rs


def annot(rs, rng=None, note=None, holder=None):
    if not rs and not note:
        return ""
    if rng is not None and rng.random() < 0.5:
        rng.shuffle(rs)
    if holder is not None:
        holder.printed_rules = list(rs)
    s = " // {%s}" % ", ".join(rs) if rs else " //"
    if note:
        s += " - " + note if rs else " " + note
    return s


def jkey(k, rng=None):
    s = json.dumps(k, ensure_ascii=False)
    return s


def print_schema(w, rng=None, indent=0, mark=None, comma=False, key=None, nl="\n"):
    """JSight text, one node per line"""
    pad = "  " * indent
    head = pad + (jkey(key) + ": " if key is not None else "")
    a = annot(rules_text(w, mark), rng, w.note, w)
    c = "," if comma else ""
    if w.kind in "SIFBN":
        return head + w.tok + c + a
    if w.kind == "O":
        if not w.members:
            return head + "{}" + c + a
        lines = [head + "{" + a]
        for i, (k, m, x) in enumerate(w.members):
            lines.append(print_schema(x, rng, indent + 1, m, i < len(w.members) - 1, k, nl))
        lines.append(pad + "}" + c)
        return nl.join(lines)
    if not w.items:
        return head + "[]" + c + a
    lines = [head + "[" + a]
    for i, x in enumerate(w.items):
        lines.append(print_schema(x, rng, indent + 1, None, i < len(w.items) - 1, None, nl))
    lines.append(pad + "]" + c)
    return nl.join(lines)


def schema_wire(w):
    nl, an = ("1" if w.nullable else "0"), ("1" if w.any else "0")
    if w.kind in "SIFBN":
        return "%s %s %s" % (w.kind, nl, an)
    if w.kind == "O":
        parts = ["O %s %s %d" % (nl, an, len(w.members))]
        for k, m, x in w.members:
            parts.append("%s %s %s" % (k.encode().hex() or "-", {None: "0", True: "1", False: "2"}[m], schema_wire(x)))
        return " ".join(parts)
    return " ".join(["A %s %s %d" % (nl, an, len(w.items))] + [schema_wire(x) for x in w.items])


# ---------------- documents ----------------
def conforming(rng, w, opt_default):
    """a document of the example's shape"""
    if w.any:
        return rand_doc(rng, 2)
    if w.nullable and rng.random() < 0.2:
        return ("n", "null")
    if w.kind in "SIFBN":
        k = w.kind.lower()
        if k == "f" and rng.random() < 0.4:
            k = "i"
        return (k, rng.choice(DOC_TOKENS[k]))
    if w.kind == "O":
        ms = []
        for key, m, x in w.members:
            req = (not m) if m is not None else (not opt_default)
            if req or rng.random() < 0.6:
                ms.append((key, conforming(rng, x, opt_default)))
        return ("o", ms)
    if not w.items:
        return ("a", [])
    n = rng.choice([0, 1, len(w.items), len(w.items) + 1, len(w.items) + 3])
    return ("a", [conforming(rng, w.items[min(i, len(w.items) - 1)], opt_default) for i in range(n)])


def rand_doc(rng, depth):
    r = rng.random()
    if depth <= 0 or r < 0.5:
        k = rng.choice("sifbn")
        return (k, rng.choice(DOC_TOKENS[k]))
    if r < 0.75:
        return ("o", [(k, rand_doc(rng, depth - 1)) for k in rng.sample(KEYS, rng.randint(0, 3))])
    return ("a", [rand_doc(rng, depth - 1) for _ in range(rng.randint(0, 3))])


def paths(d, p=()):
    yield p, d
    if d[0] == "o":
        for i, (k, x) in enumerate(d[1]):
            yield from paths(x, p + (i,))
    elif d[0] == "a":
        for i, x in enumerate(d[1]):
            yield from paths(x, p + (i,))


def replace_at(d, p, f):
    if not p:
        return f(d)
    i = p[0]
    if d[0] == "o":
        ms = list(d[1])
        ms[i] = (ms[i][0], replace_at(ms[i][1], p[1:], f))
        return ("o", ms)
    xs = list(d[1])
    xs[i] = replace_at(xs[i], p[1:], f)
    return ("a", xs)


def mutate_doc(rng, d):
    ps = list(paths(d))
    p, node = rng.choice(ps)
    r = rng.random()

    def f(x):
        if r < 0.2:
            k = rng.choice("sifbn")
            return (k, rng.choice(DOC_TOKENS[k]))            # kind swap / null injection
        if r < 0.3:
            return rand_doc(rng, 2)
        if x[0] == "o":
            ms = list(x[1])
            q = rng.random()
            if q < 0.3 and ms:
                del ms[rng.randrange(len(ms))]                # drop a key
            elif q < 0.55:
                ms.insert(rng.randrange(len(ms) + 1), (rng.choice(KEYS + ["zz"]), rand_doc(rng, 1)))   # add a key
            elif q < 0.7 and ms:
                ms.append(ms[rng.randrange(len(ms))])         # duplicate a key
            else:
                rng.shuffle(ms)                               # reorder
            return ("o", ms)
        if x[0] == "a":
            xs = list(x[1])
            q = rng.random()
            if q < 0.4 and xs:
                del xs[rng.randrange(len(xs))]
            elif q < 0.8:
                xs.append(xs[-1] if xs and rng.random() < 0.6 else rand_doc(rng, 1))
            else:
                rng.shuffle(xs)
            return ("a", xs)
        k = {"i": "f", "f": "i"}.get(x[0], rng.choice("sifbn"))
        return (k, rng.choice(DOC_TOKENS[k]))
    return replace_at(d, p, f)


ESCAPED_KEY = {"k": '"\\u006b"', "a/b": '"a\\/b"', "a": '"\\u0061"'}


def print_doc(d, rng=None, positions=None, off=0):
    """JSON text (bytes as str); records start offsets of values/keys into positions if given"""
    ws = (lambda: rng.choice(["", "", " ", "\n", "  "])) if rng else (lambda: "")
    if d[0] == "o":
        parts = ["{"]
        for i, (k, x) in enumerate(d[1]):
            ks = ESCAPED_KEY.get(k, None) if (rng and rng.random() < 0.3) else None
            ks = ks or json.dumps(k, ensure_ascii=False)
            parts.append(ws() + ks + ws() + ":" + ws() + print_doc(x, rng) + ws() + ("," if i < len(d[1]) - 1 else ""))
        parts.append("}")
        return "".join(parts)
    if d[0] == "a":
        return "[" + ",".join(ws() + print_doc(x, rng) + ws() for x in d[1]) + "]"
    return d[1]


def doc_wire(d):
    if d[0] == "o":
        return " ".join(["o %d" % len(d[1])] + ["%s %s" % (k.encode().hex() or "-", doc_wire(x)) for k, x in d[1]])
    if d[0] == "a":
        return " ".join(["a %d" % len(d[1])] + [doc_wire(x) for x in d[1]])
    return d[0]


# ---------------- schemas with rules (C04, C15, C16, C13) ----------------
FORMAT_EX = {"email": ('"a@b.cc"', '"not an email"'), "uri": ('"http://a.b/c"', '"no scheme"'),
             "uuid": ('"550e8400-e29b-41d4-a716-446655440000"', '"550e8400-e29b-41d4-a716"'),
             "date": ('"2020-02-29"', '"2021-02-29"'), "datetime": ('"2020-01-01T00:00:00Z"', '"2020-01-01 00:00"')}


def rand_rule_scalar(rng):
    """W scalar with a rule set its example obeys; w.viol = list of (rule name, violating example token)"""
    kind = rng.choice("SIFB")
    rules, viol = [], []
    if kind == "I":
        n = rng.randint(-50, 50)
        tok = str(n)
        if rng.random() < 0.6:
            lo = n - rng.randint(0, 5)
            rules.append(("min", str(lo)))
            viol.append(("min", str(lo - 1)))
            if lo < n and rng.random() < 0.4:
                rules.append(("exclusiveMinimum", "true"))
                viol.append(("exclusiveMinimum", str(lo)))
        if rng.random() < 0.6:
            hi = n + rng.randint(0, 5)
            rules.append(("max", str(hi)))
            viol.append(("max", str(hi + 1)))
        if not rules and rng.random() < 0.5:
            rules.append(("enum", "[%d, %d, \"x\"]" % (n, n + 1)))
            viol.append(("enum", str(n + 7)))
    elif kind == "F":
        d = rng.randint(1, 3)
        tok = "%d.%s" % (rng.randint(-9, 9), "".join(rng.choice("123456789") for _ in range(d)))
        if rng.random() < 0.5:
            rules += [("type", '"decimal"'), ("precision", str(d + rng.randint(0, 2)))]
            p = int(rules[-1][1])
            viol.append(("precision", tok + "1" * (p - d + 1)))
        if rng.random() < 0.5:
            lo = int(float(tok)) - 2
            rules.append(("min", str(lo)))
            viol.append(("min", "%d.5" % (lo - 3)))
        if not rules and rng.random() < 0.5:
            tok = tok + "0"
            rules.append(("enum", "[%s, 1.0, 10, \"s\"]" % tok))
            viol.append(("enum", "77.25"))
    elif kind == "S":
        r = rng.random()
        if r < 0.3:
            f = rng.choice(list(FORMAT_EX))
            tok = FORMAT_EX[f][0]
            rules.append(("type", '"%s"' % f))
            viol.append(("type", FORMAT_EX[f][1]))
        else:
            body = "".join(rng.choice("abcxyz") for _ in range(rng.randint(1, 6)))
            tok = '"%s"' % body
            if rng.random() < 0.5:
                rules.append(("minLength", str(len(body) - rng.randint(0, 1))))
                m = int(rules[-1][1])
                if m > 0:
                    viol.append(("minLength", '"%s"' % body[:m - 1]))
            if rng.random() < 0.5:
                rules.append(("maxLength", str(len(body) + rng.randint(0, 2))))
                viol.append(("maxLength", '"%s"' % (body + "q" * 3)))
            if rng.random() < 0.3:
                rules.append(("regex", '"^[a-z]+$"'))
                viol.append(("regex", '"%s9"' % body))
            if not rules and rng.random() < 0.5:
                rules.append(("enum", '["%s", "other", 1]' % body))
                viol.append(("enum", '"%sQ"' % body))
    else:
        tok = rng.choice(["true", "false"])
        if rng.random() < 0.3:
            rules.append(("enum", "[true, false]"))
    w = W(kind, tok=tok, rules=rules, nullable=(rng.random() < 0.15 and not any(r[0] in ("enum",) for r in rules)))
    if rng.random() < 0.15 and kind in "SI" and not any(r[0] in ("type", "enum") for r in rules):
        w.rules.append(("type", '"%s"' % {"S": "string", "I": "integer"}[kind]))
        viol.append(("type", {"S": "12", "I": '"s"'}[kind]))
    w.viol = viol
    return w


def rand_rule_schema(rng, depth):
    r = rng.random()
    if depth <= 0 or r < 0.35:
        return rand_rule_scalar(rng)
    if r < 0.7:
        n = rng.choice([1, 2, 2, 3, 4])
        keys = rng.sample(KEYS[:6], n)
        w = W("O", members=[(k, rng.choice([None, None, True]), rand_rule_schema(rng, depth - 1)) for k in keys])
        w.viol = []
        return w
    n = rng.choice([1, 1, 2, 3])
    w = W("A", items=[rand_rule_schema(rng, depth - 1) for _ in range(n)])
    w.viol = []
    if rng.random() < 0.4:
        w.rules.append(("minItems", str(n - rng.randint(0, 1))))
        if int(w.rules[-1][1]) > 0:
            w.viol.append(("minItems", None))
    if rng.random() < 0.4:
        w.rules.append(("maxItems", str(n + rng.randint(0, 2))))
        w.viol.append(("maxItems", None))
    return w


def all_nodes(w, acc=None):
    acc = [] if acc is None else acc
    acc.append(w)
    for _, _, x in w.members:
        all_nodes(x, acc)
    for x in w.items:
        all_nodes(x, acc)
    return acc


def plain_json(w, compact=True):
    """the example with annotations removed"""
    if w.kind in "SIFBN":
        return w.tok
    if w.kind == "O":
        return "{" + ",".join(json.dumps(k, ensure_ascii=False) + ":" + plain_json(x) for k, _, x in w.members) + "}"
    return "[" + ",".join(plain_json(x) for x in w.items) + "]"


# ---------------- expected AST (C16) ----------------
def rule_value_ast(v):
    v = v.strip()
    if v.startswith("["):
        items = [rule_value_ast(x) for x in split_top(v[1:-1])]
        return {"tt": "array", "src": 1, "items": items} if items else {"tt": "array", "src": 1}
    if v.startswith('"'):
        return {"tt": "string", "src": 1, "v": json.loads(v)}
    if v in ("true", "false"):
        return {"tt": "boolean", "src": 1, "v": v}
    if v == "null":
        return {"tt": "null", "src": 1, "v": v}
    return {"tt": "number", "src": 1, "v": v}


def split_top(s):
    out, depth, cur, instr = [], 0, "", False
    i = 0
    while i < len(s):
        ch = s[i]
        if instr:
            cur += ch
            if ch == "\\":
                cur += s[i + 1]; i += 1
            elif ch == '"':
                instr = False
        elif ch == '"':
            instr = True; cur += ch
        elif ch in "[{":
            depth += 1; cur += ch
        elif ch in "]}":
            depth -= 1; cur += ch
        elif ch == "," and depth == 0:
            out.append(cur); cur = ""
        else:
            cur += ch
        i += 1
    if cur.strip():
        out.append(cur)
    return out


KIND_TT = {"S": "string", "I": "number", "F": "number", "B": "boolean", "N": "null", "O": "object", "A": "array"}
KIND_ST = {"S": "string", "I": "integer", "F": "float", "B": "boolean", "N": "null", "O": "object", "A": "array"}


def expected_ast(w, key=None):
    """AST as harness/cmd/implrun/schemaops.go renders it (astJSON), for nodes printed by print_schema"""
    n = {"tt": KIND_TT[w.kind]}
    rules = []
    names = {}
    for r in getattr(w, "printed_rules", []):
        name, _, val = r.partition(":")
        rules.append([name.strip(), rule_value_ast(val)])
        names[name.strip()] = val.strip()
    if "enum" in names:
        st = "enum"
    elif "or" in names:
        st = "mixed"
    elif "type" in names:
        st = json.loads(names["type"])
    elif "precision" in names:
        st = "decimal"
    else:
        st = KIND_ST[w.kind]
    n["st"] = st
    if key is not None:
        n["key"] = key
    if w.kind in "SIFBN":
        n["v"] = json.loads(w.tok) if w.kind == "S" else w.tok
        if n["v"] == "":
            del n["v"]
    if w.note:
        n["c"] = w.note
    if rules:
        n["rules"] = rules
    ch = [expected_ast(x, k) for k, _, x in w.members] + [expected_ast(x) for x in w.items]
    if ch:
        n["ch"] = ch
    return n
