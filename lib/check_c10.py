"""C10 — numeric rules use exact decimal arithmetic on every JSON numeral."""
import itertools, json, os, re
from fractions import Fraction
import sys
import vcommon as vc
sys.set_int_max_str_digits(0)

ALPHA = "-0159.eE+"
RFC = re.compile(r"^-?(0|[1-9][0-9]*)(\.[0-9]+)?([eE][+-]?[0-9]+)?$")
ZERO_INT_EXP = re.compile(r"^-?0[eE]")     # the known-finding class C10-zero-int-exponent


MAXEXP = 400      # the property's quantifier: |exponent| <= 400


def exponent_of(s):
    m = re.search("[eE]([+-]?[0-9]+)$", s)
    return int(m.group(1)) if m else 0


def in_scope(s):
    return abs(exponent_of(s)) <= MAXEXP


def value(s):
    """exact value as a Fraction (inputs are RFC numerals)."""
    mant, exp = s, 0
    if re.search("[eE]", s):
        mant, e = re.split("[eE]", s)
        exp = int(e)
    neg = mant.startswith("-")
    mant = mant.lstrip("-")
    ip, frac = (mant.split(".") + [""])[:2]
    v = Fraction(int(ip + frac)) * Fraction(10) ** (exp - len(frac))
    return -v if neg else v


def expansion(v):
    """normalised decimal expansion of an exact decimal fraction: (string, fractional length)"""
    n, d = abs(v.numerator), v.denominator
    k = 0
    if d != 1:
        # d = 2^a 5^b ; k = max(a, b)
        a = bb = 0
        t = d
        while t % 2 == 0:
            t //= 2; a += 1
        while t % 5 == 0:
            t //= 5; bb += 1
        assert t == 1
        k = max(a, bb)
        n = n * 10 ** k // d
    ds = str(n) if n else ""
    if k:
        ds = ds.rjust(k, "0")
        ip, fp = ds[:-k], ds[-k:]
    else:
        ip, fp = ds, ""
    s = ("-" if v < 0 else "") + (ip or "0") + ("." + fp if fp else "")
    return s, k


def expected_N(s):
    v = value(s)
    st, k = expansion(v)
    # the statement: "whether it counts as integer ... depends only on its normalised decimal expansion"
    isint = k == 0
    isfloat = k > 0
    return "%s|%d|%s%s" % (st, k, "T" if isint else "F", "T" if isfloat else "F")


def sign(x):
    return (x > 0) - (x < 0)


def all_strings(maxlen):
    for n in range(1, maxlen + 1):
        for t in itertools.product(ALPHA, repeat=n):
            yield "".join(t)


def numerals(maxlen):
    """all RFC 8259 numerals up to maxlen characters over ALPHA (built, not filtered)."""
    digs = "0159"
    out = set()
    ints = ["0"] + [a + "".join(r) for n in range(0, maxlen) for a in "159" for r in itertools.product(digs, repeat=n)]
    fracs = [""] + ["." + "".join(r) for n in range(1, maxlen) for r in itertools.product(digs, repeat=n)]
    exps = [""] + [e + sg + "".join(r) for e in "eE" for sg in ("", "+", "-") for n in range(1, maxlen) for r in itertools.product(digs, repeat=n)]
    ints = [i for i in ints if len(i) <= maxlen]
    for sg in ("", "-"):
        for i in ints:
            if len(sg + i) > maxlen:
                continue
            for f in fracs:
                if len(sg + i + f) > maxlen:
                    continue
                for e in exps:
                    s = sg + i + f + e
                    if len(s) <= maxlen:
                        out.add(s)
    return sorted(out)


def rand_numeral(rng, maxdigits=60, maxexp=400):
    nd = rng.choice([1, 2, 3, 5, 10, 20, 40, maxdigits])
    ip = str(rng.randrange(10 ** rng.randint(0, nd))) if rng.random() < 0.8 else "0"
    s = ("-" if rng.random() < 0.4 else "") + ip
    if rng.random() < 0.6:
        fl = rng.randint(1, max(1, nd))
        fd = "".join(rng.choice("0123456789") for _ in range(fl))
        if rng.random() < 0.4:
            fd += "0" * rng.randint(1, 4)
        if rng.random() < 0.3:
            fd = "0" * rng.randint(1, 5) + fd
        s += "." + fd
    if rng.random() < 0.5:
        e = rng.choice([0, 1, 2, 3, rng.randint(0, 30), rng.randint(0, maxexp)])
        s += rng.choice("eE") + rng.choice(["", "+", "-"]) + ("0" * rng.randint(0, 2)) + str(e)
    return s


def respell(rng, s):
    """another spelling of the same value, or a neighbour of it (boundary probing)."""
    v = value(s)
    r = rng.random()
    if r < 0.35:      # same value, exponent form
        k = rng.randint(-6, 6)
        st, fl = expansion(v * Fraction(10) ** (-k))
        return st + rng.choice("eE") + ("+" if k >= 0 and rng.random() < 0.5 else "") + str(k)
    if r < 0.55:      # same value, trailing zeros
        st, fl = expansion(v)
        return st + ("" if "." in st else ".") + "0" * rng.randint(1, 3)
    st, fl = expansion(v)
    ulp = Fraction(1, 10 ** (fl + rng.randint(0, 2)))
    return expansion(v + rng.choice([-1, 1]) * ulp)[0]


def run_lines(ctx, lines, expected, label, what_of):
    """lines: wire lines; expected: oracle outputs (None = no oracle for this line)."""
    got = vc.impl_parallel(["num"], lines)
    mod = vc.model_parallel("num_model", lines)
    ctx.evaluations += len(lines)
    nbad = 0
    for l, g, m, e in zip(lines, got, mod, expected):
        if e is not None and g != e:
            nbad += 1
            if len(ctx.violations) < 40:
                ctx.report("%s: library gives %s, exact arithmetic gives %s" % (what_of(l), g, e), "num:" + l,
                           {"case": l, "implementation": g, "exact": e, "model": m, "found_in": label}, case=l)
        elif g != m and not l.startswith(("A ", "D ")):
            # model/implementation disagreement without an oracle verdict: the tie is broken
            nbad += 1
            if len(ctx.violations) < 40:
                ctx.report("%s: library gives %s, Coq model gives %s (oracle: %s)" % (what_of(l), g, m, e), "num:" + l,
                           {"case": l, "implementation": g, "model": m, "exact": e, "found_in": label}, case=l, no_input=(e is None))
    if lines:
        ctx.samples.append({"case": lines[len(lines) // 3], "implementation": got[len(lines) // 3], "exact": expected[len(lines) // 3]})
    return nbad


def classifier_integer_by_spelling(case):
    """the known-finding class C10-integer-by-spelling: an N case on a numeral with a dot, no exponent and an integer value (1.0, -0.0, 10.00)"""
    toks = case.split(" ")
    if toks[0] != "N" or not RFC.match(toks[1]):
        return False
    s = toks[1]
    return "." in s and not re.search("[eE]", s) and expansion(value(s))[1] == 0


def classifier_zero_int_exp(case):
    toks = case.split(" ")
    if toks[0] == "N":
        return bool(ZERO_INT_EXP.match(toks[1]))
    if toks[0] == "C":
        return bool(ZERO_INT_EXP.match(toks[1]) or ZERO_INT_EXP.match(toks[2]))
    if toks[0] in ("A", "D"):
        return any(ZERO_INT_EXP.match(t) for t in toks[2:])
    return False


def api_expected(kind, b, v):
    vb, vv = value(b), value(v)
    ok = {"min": vb <= vv, "minx": vb < vv, "max": vv <= vb, "maxx": vv < vb}[kind]
    return "ok" if ok else "E602"


def run(ctx):
    st = vc.prepare(ctx)
    ctx.classifiers["zero_int_then_exp"] = classifier_zero_int_exp
    ctx.classifiers["integer_by_spelling"] = classifier_integer_by_spelling
    ctx.extra["rule"] = ("N: every string over {-,0,1,5,9,.,e,E,+} up to length L1 (model vs library, incl. rejected strings) and every RFC numeral "
                         "up to length L2 against exact rational arithmetic (python Fraction): normalised expansion, fractional length, integer/float class; "
                         "C: all ordered pairs of numerals up to length L3 and random 60-digit/|exp|<=400 numerals paired with re-spellings and 1-ulp neighbours; "
                         "A/D: min/max/exclusive verdicts of Schema.Check / Validate on the same pairs; non-trivial = numeral with a fraction or an exponent")
    ctx.assumptions += ["exponents beyond Go's int (>= 2^63) are outside the quantifier (|exponent| <= 400 in the property); the model keeps the uint wrap of bytes.ParseUint explicit"]
    if not st["impl"] or not st["model"]:
        ctx.report("harness or extracted model failed to build: " + json.dumps(st["logs"])[:1500], "build", st["logs"], no_input=True)
        return
    quick = ctx.tier == "quick"
    L1, L2, L3 = (5, 6, 3) if quick else (6, 7, 4)
    whatN = lambda l: "numeral %s" % l.split(" ", 1)[1]
    # corpus
    corpus = []
    cdir = os.path.join(vc.ROOT, "corpus", "C10")
    if os.path.isdir(cdir):
        for f in sorted(os.listdir(cdir)):
            corpus += [l.strip() for l in open(os.path.join(cdir, f)) if l.strip() and not l.startswith("#")]
    if corpus:
        exp = []
        for l in corpus:
            t = l.split(" ")
            if t[0] == "N":
                exp.append(expected_N(t[1]) if RFC.match(t[1]) else None)
            elif t[0] == "C":
                exp.append(str(sign(value(t[1]) - value(t[2]))))
            elif t[0] == "D":
                exp.append(api_expected(t[1], t[2], t[4]))
            else:
                exp.append(None)
        run_lines(ctx, corpus, exp, "corpus", lambda l: "case " + l)
    # 1. all strings (tie model<->library, including rejection)
    strs = [x for x in all_strings(L1) if in_scope(x)]
    lines = ["N " + s for s in strs]
    exp = [expected_N(s) if RFC.match(s) else None for s in strs]
    run_lines(ctx, lines, exp, "all-strings<=%d" % L1, whatN)
    # 1b. exponents that do not fit Go's int (outside the property's quantifier; model <-> library tie only): refused, never wrapped
    big = []
    for X in (2 ** 63, 2 ** 63 + 1, 2 ** 64 - 1, 2 ** 64, 2 ** 64 + 1, 2 ** 64 + 2, 2 ** 65, 10 ** 20, 10 ** 30, 3 * 2 ** 64 + 1):
        for m in ("1", "5", "-1", "1.5", "10", "0.1"):
            for sg in ("", "+", "-"):
                big.append("%se%s%d" % (m, sg, X))
    run_lines(ctx, ["N " + s for s in big], [None] * len(big), "exponent-beyond-int", whatN)
    ctx.extra["exponent_beyond_int_cases"] = len(big)
    # 2. all numerals up to L2
    nums = [x for x in numerals(L2) if in_scope(x)]
    ctx.extra["numerals_exhaustive"] = len(nums)
    run_lines(ctx, ["N " + s for s in nums], [expected_N(s) for s in nums], "numerals<=%d" % L2, whatN)
    for s in nums:
        if "." in s or "e" in s or "E" in s:
            ctx.nontrivial.add(s)
    # 3. all pairs up to L3
    small = [x for x in numerals(L3) if in_scope(x)]
    pairs = [(a, b) for a in small for b in small]
    ctx.extra["pairs_exhaustive"] = len(pairs)
    whatC = lambda l: "Cmp(%s, %s)" % tuple(l.split(" ")[1:3])
    run_lines(ctx, ["C %s %s" % p for p in pairs], [str(sign(value(a) - value(b))) for a, b in pairs], "pairs<=%d" % L3, whatC)
    # 4. random long numerals with re-spellings / neighbours
    nr = 4000 if quick else 120000
    rp = []
    for _ in range(nr):
        a = rand_numeral(ctx.rng)
        b = respell(ctx.rng, a) if ctx.rng.random() < 0.8 else rand_numeral(ctx.rng)
        rp.append((a, b) if ctx.rng.random() < 0.5 else (b, a))
        ctx.nontrivial.add(a)
    # machine-word boundaries: integer parts of 18..21 digits around 2^63, 2^64, 10^19, 10^20 (a fast path through a fixed-width integer would wrap here)
    edges = []
    for base in (2 ** 63, 2 ** 64, 10 ** 19, 10 ** 20, 2 ** 64 + 10 ** 19, 99999999999999999999, 10 ** 18, 2 ** 32, 2 ** 53):
        for d in (-2, -1, 0, 1, 2, 12345):
            v = base + d
            edges += [str(v), "-" + str(v), str(v) + ".5", str(v) + ".000", "%se%d" % (str(v)[:-3] + "." + str(v)[-3:], 3), str(v) + "0e-1"]
    edges = list(dict.fromkeys(edges))
    bp = [(a, b) for a in edges for b in ctx.rng.sample(edges, 12)]
    ctx.extra["boundary_pairs"] = len(bp)
    run_lines(ctx, ["C %s %s" % p for p in bp], [str(sign(value(a) - value(b))) for a, b in bp], "word-boundary-pairs", whatC)
    rp = rp + ctx.rng.sample(bp, min(len(bp), 300 if quick else 3000))
    run_lines(ctx, ["C %s %s" % p for p in rp], [str(sign(value(a) - value(b))) for a, b in rp], "random-pairs", whatC)
    rn = [a for a, _ in rp]
    run_lines(ctx, ["N " + s for s in rn], [expected_N(s) for s in rn], "random-numerals", whatN)
    ctx.extra["random_pairs"] = nr
    ctx.extra["length_histogram"] = {str(k): sum(1 for a in rn if len(a) // 10 == k) for k in range(0, 9)}
    # 5. API level: Validate(document) against  EX // {min|max: B}; the schema language has no exponent
    #    notation, so the bound is written as a plain decimal and the document carries the spelling
    api = []
    sub = rp[: (500 if quick else 6000)] + [(a, b) for a in small[:30] for b in small[:30]]
    for a, b in sub:
        vb = value(a)
        if abs(exponent_of(a)) > 40 or abs(exponent_of(b)) > MAXEXP:
            continue
        bs_, _k = expansion(vb)
        import math
        fl = math.floor(vb)
        for kind in ("min", "minx", "max", "maxx"):
            ex = expansion(Fraction(fl) + (Fraction(3, 2) if kind.startswith("min") else Fraction(-1, 2)))[0]
            api.append(("D %s %s %s %s" % (kind, bs_, ex, b), api_expected(kind, bs_, b)))
    whatA = lambda l: "Validate(%s) against schema '%s // {%s: %s}'" % (l.split(" ")[4], l.split(" ")[3], l.split(" ")[1], l.split(" ")[2])
    got = vc.impl_parallel(["num"], [l for l, _ in api])
    ctx.evaluations += len(api)
    nb = 0
    for (l, e), g in zip(api, got):
        if g != e:
            nb += 1
            if len(ctx.violations) < 40:
                ctx.report("%s: library gives %s, exact arithmetic gives %s" % (whatA(l), g, e), "num:" + l,
                           {"case": l, "implementation": g, "exact": e, "found_in": "api"}, case=l)
    if api:
        ctx.samples.append({"case": api[len(api) // 2][0], "exact": api[len(api) // 2][1]})
    ctx.extra["api_cases"] = len(api)
    # 6. "equals another number depends only on its normalised decimal expansion ... negative zero equals zero": const through Validate.
    #    The example (no exponent notation in schema texts) carries const: true, the document the other spelling.  A document that is a float by spelling
    #    (a dot, no exponent, integral value: the known integer-by-spelling class) is not offered to an integer example; 0e1-style documents are the other known class.
    exs = ["0", "-0", "0.0", "-0.0", "-0.00", "1", "1.0", "-1", "-1.0", "1.5", "-1.50", "10", "100.00", "-3", "0.5", "-0.5", "12", "120.0"]
    eq = []
    for a in exs:
        a_int = "." not in a
        docs = {a, "-" + a if not a.startswith("-") else a[1:]}
        for _ in range(6 if quick else 40):
            docs.add(respell(ctx.rng, a))
            docs.add(respell(ctx.rng, ctx.rng.choice(exs)))
        for d in sorted(docs):
            if not RFC.match(d) or ZERO_INT_EXP.match(d) or abs(exponent_of(d)) > 40:
                continue
            d_float_by_spelling = "." in d and not re.search("[eE]", d) and expansion(value(d))[1] == 0
            if a_int and (d_float_by_spelling or expansion(value(d))[1] != 0):
                continue        # kind mismatch (210) decides before const does
            eq.append((a, d, value(a) == value(d)))
    outs = vc.impl(["schema"], [json.dumps({"schema": "%s // {const: true}" % a, "ops": [["validate", d]]}) for a, d, _ in eq])
    for (a, d, same), o in zip(eq, outs):
        ctx.evaluations += 1
        r = json.loads(o)[0]
        if (r == "ok") != same and len(ctx.violations) < 40:
            ctx.report("Validate(%s) against '%s // {const: true}' says %s; the two numerals are %s" % (d, a, r, "the same number" if same else "different numbers"),
                       "numeq:%s:%s" % (a, d), {"case": "E %s %s" % (a, d), "implementation": r, "exact": "equal" if same else "different", "found_in": "const"}, case="E %s %s" % (a, d))
    ctx.extra["const_equality_cases"] = len(eq)
    if not st["proof"] and not ctx.violations:
        ctx.report("proof obligation(s) no longer check: %s" % ", ".join(ctx.proof_broken), "proof-broken",
                   {"broken": ctx.proof_broken, "log": st["logs"].get("make", "")[-3000:]}, no_input=True)


def replay(ctx, path):
    r = json.load(open(path))
    vc.prepare(ctx)
    ctx.classifiers["zero_int_then_exp"] = classifier_zero_int_exp
    ctx.classifiers["integer_by_spelling"] = classifier_integer_by_spelling
    l = r.get("case")
    if not l:
        return run(ctx)
    t = l.split(" ")
    if t[0] == "N":
        e = [expected_N(t[1]) if RFC.match(t[1]) else None]
    elif t[0] == "C":
        e = [str(sign(value(t[1]) - value(t[2])))]
    else:
        e = [api_expected(t[1], t[2], t[4])]
    run_lines(ctx, [l], e, "replay", lambda x: "case " + x)
