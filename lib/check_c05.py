"""C05 — a document is accepted iff it is one RFC 8259 JSON text."""
import json
import vcommon as vc
import jsonref, jsongen, jsoncheck as jc


def expected(t):
    s = jsonref.strict_result(t)
    tr = jsonref.trailing_result(t)
    return ("ok" if s[0] == "ok" else "err"), ("ok" if tr[0] == "ok" else "err")


def judge(ctx, label, texts, res):
    nb = 0
    for t, r in zip(texts, res):
        es, et = expected(t)
        for mode, e in (("c", es), ("C", et)):
            g, m = r[mode]
            gk = "ok" if g == "ok" else ("err" if g.startswith("E") else g)
            what = None
            if gk != e:
                what = "Document.Check(%s) on %r: library says %s, RFC 8259 says %s" % ("trailing allowed" if mode == "C" else "strict", t[:80], g, e)
                noinput = False
            elif g != m:
                what = "Document.Check(%s) on %r: library says %s, Coq model says %s (verdict class agrees with RFC 8259)" % ("trailing allowed" if mode == "C" else "strict", t[:80], g, m)
                noinput = True
            if what:
                nb += 1
                if len(ctx.violations) < 40:
                    ctx.report(what, "json:%s:%s" % (mode, t.hex()), {"text_hex": t.hex(), "text": t.decode("latin1"), "mode": mode, "implementation": g, "model": m,
                                                                   "rfc8259": e, "found_in": label}, case=t, no_input=noinput)
    # history probes (library only): Check after NextLexeme / full read / Len / Check equals Check on a fresh document
    sub = texts if len(texts) <= 4000 else texts[:: max(1, len(texts) // 4000)]
    hl = ["h " + jc.hx(t) for t in sub] + ["H " + jc.hx(t) for t in sub]
    fresh = {t: r for t, r in zip(texts, res)}
    ho = vc.impl_parallel(["json"], hl)
    for i, o in enumerate(ho):
        t = sub[i % len(sub)]
        mode = "c" if i < len(sub) else "C"
        want = fresh[t][mode][0]
        if any(p != want for p in o.split("/")):
            nb += 1
            if len(ctx.violations) < 40:
                ctx.report("Document.Check on %r depends on earlier calls on the same document: after [one NextLexeme / full read / Len / Check] it says %s, on a fresh document %s"
                           % (t[:80], o, want), "jsonhist:%s:%s" % (mode, t.hex()),
                           {"text_hex": t.hex(), "text": t.decode("latin1"), "mode": mode, "history_results": o, "fresh": want, "found_in": label}, case=t)
    ctx.evaluations += 2 * len(texts) + len(hl)
    return nb


SWEEP_TEMPLATES = [b'"\\u%s000"', b'"\\u0%s00"', b'"\\u00%s0"', b'"\\u000%s"', b'"\\uD83%s\\uDE00"', b'["\\u00a%s"]', b'"a%sb"', b'"\\%s"', b'"\\%sx"',
                   b'%s', b'1%s', b'-%s', b'1.%s', b'1.5%s', b'1e%s', b'1e+%s', b'1e5%s', b'0%s', b'[1%s]', b'[1,%s2]', b'{"a"%s1}', b'{"a":1%s}', b'{%s"a":1}',
                   b't%sue', b'tru%s', b'nul%s', b'fals%s', b'[]%s', b'{}%s', b'"a"%s', b'true%s']


def byte_sweep():
    """every byte value 0..255 at one marked position of each template (hex digits of an escape, escape letter, string body,
    number parts, separators, literal letters, first byte after a value)"""
    out = []
    for tpl in SWEEP_TEMPLATES:
        a, b = tpl.split(b'%s')
        for c in range(256):
            out.append(a + bytes([c]) + b)
    return out


def run(ctx):
    st = jc.build(ctx)
    if st is None:
        return
    quick = ctx.tier == "quick"
    ctx.extra["rule"] = ("every string over the 16-symbol alphabet { } [ ] , : \" \\ 0 1 - . e + space x up to length L and over the letters of true/false/null up to length 4/5; "
                         "generated valid texts (depth<=8, width<=8, all scalar forms, random whitespace), all their truncations, token-level mutations (control bytes, high bytes, "
                         "bad escapes, leading zeros, truncated numbers); every byte value 0..255 at each marked position of the sweep templates (the four hex digits of a \\u escape, the escape letter, "
                         "the string body, every part of a number, separators, literal letters, the byte after a value); each through Document.Check strict and with trailing characters allowed; compared with the Coq model and with "
                         "an independent recursive-descent RFC 8259 recogniser (python); non-trivial = input with at least one structural byte and length >= 2")
    ctx.assumptions += ["python recogniser lib/jsonref.py is an independent reading of RFC 8259 (second oracle beside the Coq grammar)"]
    groups = [("corpus", jc.corpus("C05")), ("byte sweep (every byte at %d marked positions)" % len(SWEEP_TEMPLATES), byte_sweep())] + jc.gen_texts(ctx, quick)
    dist = {}
    for label, texts in groups:
        if not texts:
            continue
        texts = list(dict.fromkeys(texts))
        res = jc.run_modes(texts, ["c", "C"])
        judge(ctx, label, texts, res)
        dist[label] = {"n": len(texts), "accepted_strict": sum(1 for r in res if r["c"][0] == "ok"), "accepted_trailing": sum(1 for r in res if r["C"][0] == "ok")}
        for t in texts:
            if len(t) >= 2 and any(c in b'{}[]",:' for c in t):
                ctx.nontrivial.add(t)
        ctx.samples.append({"group": label, "text": texts[len(texts) // 2].decode("latin1"), "strict": res[len(texts) // 2]["c"][0], "trailing": res[len(texts) // 2]["C"][0]})
    ctx.extra["groups"] = dist
    ctx.extra["exhaustive"] = True
    jc.proof_tail(ctx, st, ["C05_*"])


def replay(ctx, path):
    r = json.load(open(path))
    st = jc.build(ctx)
    if st is None:
        return
    t = bytes.fromhex(r["text_hex"])
    judge(ctx, "replay", [t], jc.run_modes([t], ["c", "C"]))
