"""C18 — named enum rules and regex types behave like their inline forms."""
import json, re
import vcommon as vc
import check_c02 as C2

VALUES = ['"a"', '"b c"', '""', '"1"', "1", "2", "-3", "2.5", "2.50", "true", "false", '"true"', "null", '"null"', '"é"', '"q\\"uote"',
          # an integer and the float of the same value are different enum items (2 is not 2.0): both may stand in one list
          "1.0", "2.00", "-3.0", "0", "0.0", "-0.0", "10", "10.0",
          # strings whose only escape sits at the very end / the very start of the literal
          '"12\\""', '"line\\n"', '"dir\\\\"', '"\\tx"', '"\\/"']
KINDS = {"s": "string", "i": "integer", "f": "float", "b": "boolean", "n": "null"}


def sample_values(rng, k):
    """k values of VALUES, pairwise different as enum items (2.5 and 2.50 are the same float)"""
    out = []
    for v in rng.sample(VALUES, len(VALUES)):
        if len(out) >= k:
            break
        if not any(C2.enum_equal(v, w) for w in out):
            out.append(v)
    return out


def kind_of(tok):
    if tok.startswith('"'):
        return "string"
    if tok in ("true", "false"):
        return "boolean"
    if tok == "null":
        return "null"
    return "float" if ("." in tok and "e" not in tok.lower()) else "integer"


def enum_text(rng, vals):
    style = rng.choice(["line", "multi", "multi-comments", "multi-standalone"])
    if style == "line":
        return "[" + rng.choice(["", " "]) + ", ".join(vals) + rng.choice(["", " "]) + "]", [""] * len(vals)
    lines, comments = ["["], []
    for i, v in enumerate(vals):
        c = ""
        cm = ""
        if style == "multi-standalone" and rng.random() < 0.5:
            sc = rng.choice(["lead", "a group", "x"])
            lines.append("  " + rng.choice(["// " + sc, "/* " + sc + " */"]))
            comments.append(("comment", sc))
        if style in ("multi-comments", "multi-standalone") and rng.random() < 0.6:
            c = rng.choice(["first", "a value", "x y", "", ""])
            cm = rng.choice([" // " + c, " /* " + c + " */"]) if c else rng.choice([" //", " // ", " /**/", " /* */"])
        lines.append("  " + v + ("," if i < len(vals) - 1 else "") + cm)
        comments.append(c)
    if style == "multi-standalone" and rng.random() < 0.3:
        lines.append("  // tail")
        comments.append(("comment", "tail"))
    lines.append("]")
    return rng.choice(["\n", "\r\n"]).join(lines), comments


def expected_values(vals, comments):
    """Values(): the literals in source order, stand-alone comments as entries of their own"""
    out, it = [], iter(vals)
    for c in comments:
        if isinstance(c, tuple):
            out.append("comment::%s" % c[1])
        else:
            v = next(it)
            out.append("%s:%s:%s" % (kind_of(v), v, c))
    return out


ATOMS = ["a", "b", "[a-c]", "\\d", "x", "-", "_", " ", "\\.", "\\/", "[0-9]", "(ab|cd)", "\\\\", "z"]
QUANT = ["", "", "+", "*", "?", "{2}"]


def rand_pattern(rng):
    n = rng.randint(1, 4)
    body = "".join(rng.choice(ATOMS) + rng.choice(QUANT) for _ in range(n))
    return rng.choice(["", "^"]) + body + rng.choice(["", "$"])


def sample_strings(rng, pat):
    py = re.compile(pat.replace("$", "\\Z"))
    pool = ["", "a", "ab", "abc", "aab", "1", "12", "a1", "x", "a.b", "a/b", "a\\b", "abcd", "cd", "zz", "a b", "A", "0-9", "x_x", "é", "xfoo", "foo", "foox", "443", "x443"]
    out = []
    for s in pool + ["".join(rng.choice("abcxz19 ./\\-_") for _ in range(rng.randint(1, 6))) for _ in range(6)]:
        out.append((s, py.search(s) is not None))
    return out


def run(ctx):
    st = vc.prepare(ctx)
    if not st["impl"]:
        ctx.report("harness failed to build: " + json.dumps(st["logs"])[:1500], "build", st["logs"], no_input=True)
        return
    quick = ctx.tier == "quick"
    rng = ctx.rng
    ctx.extra["rule"] = ("enum rules: value lists of all scalar kinds incl. look-alikes (1 / \"1\", true / \"true\", null / \"null\", 2.5 / 2.50), one-line and multi-line layouts, inline and "
                         "multi-line comments, LF/CRLF: Check ok, Values and GetAST list the literals in source order with kinds and comments, a duplicated value is rejected, and a schema using "
                         "{enum: @E} gives the same verdict as the same schema with the list inline on every scalar probe (and both equal type-sensitive membership); regex types: patterns from a "
                         "printable-ASCII grammar (classes, quantifiers, alternation, escaped / and \\\\): Len = |/P/|, Pattern = P, Example matches P, and @T = /P/ accepts exactly the strings the "
                         "inline {regex: P} accepts (both equal a python search on a common regex subset); the Coq model of the /P/ token extraction is run on the same texts; "
                         "non-trivial = list with >= 3 values / pattern with an escape")
    # ---------- enum ----------
    n = 1500 if quick else 8000
    ecases = []
    for _ in range(n):
        vals = sample_values(rng, rng.randint(1, 6))
        text, comments = enum_text(rng, vals)
        ecases.append((vals, text, comments))
    outs = vc.impl_parallel(["enumrule"], [json.dumps({"text": t}) for _, t, _ in ecases])
    for (vals, text, comments), o in zip(ecases, outs):
        r = json.loads(o)
        ctx.evaluations += 1
        if len(vals) >= 3:
            ctx.nontrivial.add(text)
        wantV = "V:" + "|".join(expected_values(vals, comments))
        if r[0] != "ok" or r[1] != str(len(text.rstrip().encode())):
            if len(ctx.violations) < 40:
                ctx.report("enum rule %r: Check %s, Len %s (text is %d bytes)" % (text[:80], r[0], r[1], len(text.encode())), "c18e:" + text, {"enum": text, "result": r}, case=text)
        elif r[2] != wantV and len(ctx.violations) < 40:
            ctx.report("enum rule %r: Values %s, the source lists %s" % (text[:80], r[2][:150], wantV[:150]), "c18v:" + text, {"enum": text, "values": r[2], "expected": wantV}, case=text)
    import os
    cf = os.path.join(vc.ROOT, "corpus", "C18", "fixed.json")
    if os.path.exists(cf):
        corpus = json.load(open(cf))
        for c, o in zip(corpus, vc.impl(["enumrule"], [json.dumps({"text": c["text"]}) for c in corpus])):
            r = json.loads(o)
            ctx.evaluations += 1
            if (r[0] != "ok" or r[2] != c["values"]) and len(ctx.violations) < 40:
                ctx.report("corpus case: enum rule %r: Check %s, Values %s, expected %s" % (c["text"], r[0], r[2] if len(r) > 2 else "-", c["values"]), "c18corpus:" + c["text"], dict(c, result=r), case=c["text"])
    # duplicates are rejected
    dups = []
    for _ in range(20 if quick else 500):
        vals = sample_values(rng, rng.randint(1, 4))
        vals.insert(rng.randrange(len(vals) + 1), rng.choice(vals))
        dups.append(enum_text(rng, vals)[0])
    # the same number in two spellings is the same value (the validator compares numbers of one kind by value); 2 and 2.0 are different kinds
    dups += ["[1.0, 1.00]", "[0, -0]", "[0.0, -0.0]", "[1.5, 1.50, 2.5]", '["a", 2.50, 2.5]', "[10, 1e1]"[:0] or "[7, 7]"]
    for t, o in zip([d for d in dups if d.startswith("[") and "." in d or d == "[0, -0]"],
                    vc.impl(["schema"], [json.dumps({"schema": "%s // {enum: %s}" % (d.strip("[]").split(",")[0].strip(), d), "ops": [["check"]]}) for d in dups if d.startswith("[") and "." in d or d == "[0, -0]"])):
        ctx.evaluations += 1
        if json.loads(o)[0] == "ok" and len(ctx.violations) < 40:
            ctx.report("inline enum list with a duplicated value (two spellings of one number) is accepted: %r" % t[:100], "c18d:inline" + t, {"enum": t}, case=t)
    for t, o in zip(dups, vc.impl_parallel(["enumrule"], [json.dumps({"text": t}) for t in dups])):
        ctx.evaluations += 1
        if json.loads(o)[0] == "ok" and len(ctx.violations) < 40:
            ctx.report("enum rule with a duplicated value is accepted: %r" % t[:100], "c18d:" + t, {"enum": t}, case=t)
    # named vs inline
    lines, meta = [], []
    for vals, text, _ in ecases[: (1000 if quick else 5000)]:
        ex = vals[0]
        probes = VALUES + ['"zz"', "7"]
        for form in ("named", "inline"):
            if form == "named":
                c = {"schema": "%s // {enum: @E}" % ex, "enums": [["@E", text]], "ops": [["check"]] + [["validate", p] for p in probes]}
            else:
                c = {"schema": "%s // {enum: [%s]}" % (ex, ", ".join(vals)), "ops": [["check"]] + [["validate", p] for p in probes]}
            lines.append(json.dumps(c))
        meta.append((vals, text, probes))
    outs = vc.impl_parallel(["schema"], lines)
    for i, (vals, text, probes) in enumerate(meta):
        a, b = json.loads(outs[2 * i]), json.loads(outs[2 * i + 1])
        ctx.evaluations += 1
        if a[0] != "ok" or b[0] != "ok":
            if len(ctx.violations) < 40:
                ctx.report("Check of the enum schema fails: named %s, inline %s; values %s" % (a[0], b[0], vals), "c18c:" + text, {"enum": text, "named": a[0], "inline": b[0]}, case=text)
            continue
        for p, x, y in zip(probes, a[1:], b[1:]):
            want = any(C2.enum_equal(p, v) for v in vals)      # type-sensitive membership; numbers of one kind are compared by value (2.5 = 2.50; 2 and 2.0 differ)
            if ((x == "ok") != (y == "ok") or (x == "ok") != want) and len(ctx.violations) < 40:
                ctx.report("document %s against enum %s: named rule %s, inline list %s, membership %s" % (p, vals, x, y, want), "c18m:" + text + p,
                           {"enum": text, "values": vals, "document": p, "named": x, "inline": y, "expected": want}, case=text)
    # one rule object / one regex type object used by several schemas one after the other: every schema behaves as with a fresh object,
    # and the rule's Values / GetAST stay what they were
    slines, smeta = [], []
    for vals, text, comments in ecases[: (500 if quick else 3000)]:
        k = rng.choice([2, 2, 3])
        exs = [rng.choice(vals) for _ in range(k)]
        schemas = [rng.choice(["%s // {enum: @E}", "{\"k\": %s // {enum: @E}\n}", "[%s // {enum: @E}\n]"]) % e for e in exs]
        probes = [rng.choice(['%s', '{"k": %s}', '[%s]']) % v for v in rng.sample(VALUES, 5)] + [v for v in vals[:3]] + ['{"k": %s}' % vals[0], '[%s]' % vals[-1]]
        slines.append(json.dumps({"enum": text, "schemas": schemas, "probes": probes}))
        for sc in schemas:
            slines.append(json.dumps({"enum": text, "schemas": [sc], "probes": probes}))
        smeta.append((text, schemas, "|".join(expected_values(vals, comments))))
    for _ in range(250 if quick else 1500):
        p = rand_pattern(rng)
        try:
            re.compile(p)
        except re.error:
            continue
        schemas = ['"x" // {type: "@T"}', '{"k": @T}', '[@T]'][: rng.choice([2, 3])]
        probes = [json.dumps(x) for x, _ in sample_strings(rng, p)[:8]] + ['{"k": "ab"}', '["a1"]', '{"k": ""}']
        slines.append(json.dumps({"type": ["@T", "/%s/" % p], "schemas": schemas, "probes": probes}))
        for sc in schemas:
            slines.append(json.dumps({"type": ["@T", "/%s/" % p], "schemas": [sc], "probes": probes}))
        smeta.append(("/%s/" % p, schemas, None))
    souts = vc.impl_parallel(["shared"], slines)
    i = 0
    for text, schemas, wantvals in smeta:
        sh = json.loads(souts[i])
        fresh = [json.loads(souts[i + 1 + j]) for j in range(len(schemas))]
        i += 1 + len(schemas)
        ctx.evaluations += 1
        what = None
        if sh and isinstance(sh[0], str) and sh[0].startswith("PANIC") or any(isinstance(x, str) and x.startswith("PANIC") for x in sh):
            what = "panic: %s" % [x for x in sh if isinstance(x, str) and x.startswith("PANIC")][:1]
        else:
            for j in range(len(schemas)):
                if sh[1 + 2 * j] != fresh[j][1]:
                    what = "schema #%d %r behaves differently after the object was used by %d other schema(s): %s vs fresh %s" % (j, schemas[j], j, sh[1 + 2 * j][:6], fresh[j][1][:6])
                    break
                if sh[2 + 2 * j] != sh[0]:
                    what = "the rule's Values/GetAST changed after schema #%d used it: %s, before %s" % (j, sh[2 + 2 * j][:120], sh[0][:120])
                    break
            if what is None and wantvals is not None and not sh[0].startswith(wantvals + "|A") and sh[0] != wantvals:
                what = "Values of the rule %s, the source lists %s" % (sh[0][:120], wantvals[:120])
        if what and len(ctx.violations) < 40:
            ctx.report("shared %s %r: %s" % ("enum rule" if wantvals is not None else "regex type", text[:60], what), "c18s:" + text + "|".join(schemas), {"object": text, "schemas": schemas, "result": sh}, case=text)
    ctx.extra["shared_object_cases"] = len(smeta)
    import enum_cases
    enum_cases.stream(ctx, st, "c", quick, "c18")
    # ---------- regex ----------
    # known finding: the example generator ignores the word-boundary assertions \b and \B (its example for /\Bfoo/ is "foo"), so the example of such a type may not
    # match and Check of a schema using the type then fails on the generated example
    ctx.classifiers["regex_example_word_boundary"] = lambda case: isinstance(case, str) and re.search(r"\\[bB]", case) is not None
    pats = [rand_pattern(rng) for _ in range(1200 if quick else 6000)] + ["a\\\\", "^C:\\\\", "a\\/b", "[a-c]+\\\\", "[^\\x00-\\x7F]+", "^[^\\x00-\\x7f]$", "[\\x{D7FF}-\\x{E000}]", "a[\\x{D000}-\\x{EFFF}]", "\\Bfoo", "foo\\B", "^\\B\\d{3}$", "a\\bb?", "\\bx\\b", ""]          # the empty pattern: the token // (the inline rule {regex: ""} matches every string)
    rlines = [json.dumps({"text": "/%s/%s" % (p, rng.choice(["", " trailing text", "\nNEXT /x/"]))}) for p in pats]
    routs = vc.impl_parallel(["regextype"], rlines)
    mlines = [json.loads(l)["text"].encode().hex() for l in rlines]
    mouts = vc.model("regex_model", mlines) if st["model"] else [None] * len(mlines)
    slines, smeta = [], []
    for p, l, o, m in zip(pats, rlines, routs, mouts):
        r = json.loads(o)
        ctx.evaluations += 1
        if "\\" in p:
            ctx.nontrivial.add(p)
        pyre = True
        try:
            re.compile(p)
        except re.error:
            if "\\x{" not in p:
                continue
            pyre = False          # RE2 syntax python does not know (\x{...}): the library's own verdict on its example is still checked
        ok = r[0] == "ok" and r[1] == str(len(p) + 2) and len(r) >= 4 and r[2] == "P:" + p and r[3].endswith(":true")
        if not ok and len(ctx.violations) < 40:
            ctx.report("regex type /%s/: Check %s, Len %s (token is %d bytes), %s" % (p, r[0], r[1], len(p) + 2, r[2:]), "c18r:" + p, {"pattern": p, "result": r}, case=p)
            continue
        if m is not None and m != "%d %s" % (len(p) + 2, p.encode().hex() or "-") and len(ctx.violations) < 40:
            ctx.report("Coq model of the /P/ token on %r says %s" % (json.loads(l)["text"], m), "c18rm:" + p, {"pattern": p, "model": m}, no_input=True)
        if not pyre:
            continue
        ex = bytes.fromhex(r[3].split(":")[1]).decode("utf-8", "replace")
        strs = sample_strings(rng, p)
        docs = [json.dumps(s) for s, _ in strs]
        slines.append(json.dumps({"schema": "@T", "types": [["@T", "/%s/" % p]], "ops": [["check"]] + [["validate", d] for d in docs]}))
        slines.append(json.dumps({"schema": "%s // {regex: %s}" % (json.dumps(ex), json.dumps(p)), "ops": [["check"]] + [["validate", d] for d in docs]}))
        smeta.append((p, strs, docs))
    souts = vc.impl_parallel(["schema"], slines) if slines else []
    for i, (p, strs, docs) in enumerate(smeta):
        a, b = json.loads(souts[2 * i]), json.loads(souts[2 * i + 1])
        ctx.evaluations += 1
        if a[0] != "ok" or b[0] != "ok":
            if len(ctx.violations) < 40:
                ctx.report("regex /%s/: Check of '@T' says %s, of the inline rule %s" % (p, a[0], b[0]), "c18rc:" + p, {"pattern": p, "named": a[0], "inline": b[0]}, case=p)
            continue
        for (s, want), d, x, y in zip(strs, docs, a[1:], b[1:]):
            if ((x == "ok") != (y == "ok") or (x == "ok") != want) and len(ctx.violations) < 40:
                ctx.report("string %s against /%s/: type @T %s, inline regex %s, search says %s" % (d, p, x, y, want), "c18rs:" + p + d,
                           {"pattern": p, "document": d, "named": x, "inline": y, "expected": want}, case=p)
    ctx.extra["enum_rules"] = len(ecases)
    ctx.extra["patterns"] = len(pats)
    ctx.samples.append({"enum": ecases[0][1], "pattern": pats[0]})
    if not st["proof"] and not ctx.violations:
        ctx.report("proof obligation(s) no longer check: %s" % ", ".join(ctx.proof_broken), "proof-broken", {"broken": ctx.proof_broken}, no_input=True)


def replay(ctx, path):
    vc.prepare(ctx)
    run(ctx)
