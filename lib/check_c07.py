"""C07 — every API call returns a structured error instead of panicking.
Part A (error tables) is decided by Coq over tables translated from the source.
Part C: byte-level and grammar-aware fuzzing of every public constructor/method combination;
the oracle is intrinsic (no panic, library error type, position inside the source, Error() renders)."""
import json, os, re
import vcommon as vc

BAD = re.compile(r"(PANIC\(|FOREIGN\(|BADPOS\(|ERRORPANIC\(|KITLOSS\(|RUNTIME\(|EMPTYMSG\(|NOPOS\((?!104\))|HANG|no_EOF)")   # NOPOS(104): the infinite-recursion error is a bare library error without a position; TestSchema_Check/negative/"invalid recursion" pins its text
TOKENS = [b"{", b"}", b"[", b"]", b'"', b":", b",", b"//", b"/*", b"*/", b"#", b"###", b"@", b"|", b"\n", b"\r\n", b" ", b"\t",
          b"0", b"1", b"-", b".", b"e", b"E", b"+", b"\\", b"\\u", b"a", b"true", b"null", b"@t", b"\x00", b"\x1f", b"\x7f", b"\xff",
          b"// {", b"{min: 1}", b'{type: "@t"}', b"optional", b'{or: [', b"/", b"*", b"nullable: true", b'{enum: @e}', b"{regex: \"a\"}"]
HAND_SCHEMAS = [
    b'{\n  "a": 1, // {min: 0} - note\n  "b": "s" /* {minLength: 1} */\n}',
    b'[ // {minItems: 1}\n  1, # comment\n  2\n]',
    b'{ ### block\ncomment ###\n  "k": @t | @u, // {optional: true}\n  @k : 1\n}',
    b'"x" // {or: [{type: "string", maxLength: 3}, {type: "integer"}]}',
    b'{} // {additionalProperties: "string", nullable: true}',
    b'1.5 // {type: "decimal", precision: 2}',
    b'"a" // {enum: ["a", 1, null]}',
    b'@t',
    b'@t | @u // note',
    b'{ // {allOf: "@t"}\n "z": 1\n}',
    b'[@t, "s", 3]',
    b'"2020-01-01" // {type: "date"}',
    b'{"a": {"b": [1, {"c": null}]}}',
    b'1 ##', b'1 /* a *', b'@a |', b'', b' ', b'\n[',
]
HAND_ENUMS = [b'[1, "a", null, true, 2.5]', b'[\n 1, // one\n "a" /* two */\n]', b'[1] /* a *', b'[]', b'["\\u0041"]', b'[1,1]']
HAND_REGEX = [b'/a+/', b'/[a-c]\\/x/', b'', b'/', b'/a', b'/(/', b'/a\\\\/', b'/a/ trailing']
HAND_JSON = [b'{"a":[1,2,{"b":null}]}', b'"\\ud83d\\ude00"', b'-0.5e+10', b'[1, 2', b'{"a": 10', b'tru', b'', b'1.', b'[1,]', b'{"a" 1}', b'"\x01"']


def hexs(b):
    return b.hex() if b else "-"


def load_testdata():
    root = os.path.join(vc.REPO, "testdata")
    seeds = {"schema": [], "json": [], "enum": [], "type": []}
    for dp, dn, fn in os.walk(root):
        for f in sorted(fn):
            p = os.path.join(dp, f)
            try:
                b = open(p, "rb").read()
            except OSError:
                continue
            if len(b) > 3000:
                continue
            if f.endswith(".jschema"):
                seeds["schema"].append(b)
            elif f.endswith(".json"):
                seeds["json"].append(b)
            elif f.endswith(".enum"):
                seeds["enum"].append(b)
            elif f.endswith(".type"):
                seeds["type"].append(b)
    return seeds


def mutate(rng, b, n=None):
    b = bytearray(b)
    for _ in range(n or rng.choice([1, 1, 1, 2, 3])):
        r = rng.random()
        pos = rng.randrange(len(b) + 1)
        if r < 0.35:
            b[pos:pos] = rng.choice(TOKENS)
        elif r < 0.55 and b:
            del b[pos % len(b): pos % len(b) + rng.choice([1, 1, 2, 5])]
        elif r < 0.75 and b:
            b[pos % len(b)] = rng.choice(rng.choice(TOKENS))
        elif r < 0.9:
            b = b[:pos]
        else:
            j = rng.randrange(len(b) + 1)
            b[pos:pos] = b[j: j + rng.randrange(12)]
    return bytes(b[:4096])


def gen_cases(ctx, quick):
    rng = ctx.rng
    seeds = load_testdata()
    S = seeds["schema"] + HAND_SCHEMAS + seeds["type"]
    E = seeds["enum"] + HAND_ENUMS
    J = seeds["json"][:200] + HAND_JSON
    cases = []
    # corpus as is
    for b in S:
        cases.append(("schema", b, None))
    for b in E:
        cases.append(("enum", b, None))
    for b in HAND_REGEX:
        cases.append(("regex", b, None))
    for b in J:
        cases.append(("json", b, None))
        cases.append(("jsont", b, None))
    for b in HAND_SCHEMAS + seeds["type"][:20]:
        cases.append(("schemaT", b"@t", b))
        cases.append(("schemaT", b'{"a": @t}', b))
    # every rule name with values of every JSON kind and degenerate strings, on every kind of example
    RULES = ["min", "max", "exclusiveMinimum", "exclusiveMaximum", "minLength", "maxLength", "regex", "minItems", "maxItems", "additionalProperties", "nullable", "const", "optional",
             "precision", "type", "enum", "or", "allOf", "bogus"]
    VALS = ['""', '" "', '"@"', '"@ "', '"#"', 'null', '[]', '{}', '[""]', '[{}]', '-1', '1.5', '0', '99999999999999999999', '"x"', 'true', '"true"', '"@t"', '["@t", ""]', '{"type": ""}']
    EXS = ['"abc"', "5", "5.5", "true", "null", "[\n  1\n]", "{\n  \"k\": 1\n}", "[]", "{}"]
    for r_ in RULES:
        for v_ in VALS:
            for ex_ in EXS:
                head, _, rest = ex_.partition("\n")
                text = head + " // {%s: %s}" % (r_, v_) + ("\n" + rest if rest else "")
                cases.append(("schema", text.encode(), None))
    # user types that refer to themselves or to each other, in value and in key position
    for root in (b"@t", b'{"a": @t}', b"{\n  @t: 1\n}", b"[@t]", b'{} // {additionalProperties: "@t"}', b'1 // {type: "@t"}', b'{ // {allOf: "@t"}\n}'):
        for ty in (b"@t", b"@t | @t", b"@t | @u", b'"k" // {type: "@t"}', b'{ // {allOf: "@t"}\n}', b"[@t]", b'{"x": @t}', b"{\n  @t: 1\n}"):
            cases.append(("schemaT", root, ty))
    # a type that inherits (allOf) from a longer type with a defect somewhere inside: the error lies in the BASE type's text
    longp = [b'{\n  "aaaaaaaaaaaaaaaaaaaaaaaaaaaaaaaaaaaaaaaa": 1,\n  "x": 1 // {min: 5}\n}', b'{\n  "pppppppppppppppppppppppp": "s", // {minLength: 9}\n  "q": 2\n}',
             b'{\n  "k": 1,\n  "deep": {\n    "inner": [1, 2] // {minItems: 5}\n  }\n}', b'{\n  "ok": 1\n}', b'{\n  "t": @missing\n}']
    for pt in longp:
        for dt in (b'{ // {allOf: "@p"}\n}', b'{ // {allOf: "@p"}\n  "own": 2\n}', b'{ // {allOf: ["@p"]}\n  "o": true // {optional: true}\n}'):
            for rt in (b"@d", b'{"k": @d}', b"[@d]", b'{ // {allOf: "@d"}\n  "r": 1\n}'):
                cases.append(("schemaTT", rt, dt, pt))
                cases.append(("schemaTT0", rt, dt, pt))        # all three files unnamed: which file an error belongs to must not be decided by its name
    # truncation at every offset
    tr_s = S if not quick else rng.sample(S, min(len(S), 40)) + HAND_SCHEMAS
    for b in tr_s:
        for i in range(len(b)):
            cases.append(("schema", b[:i], None))
    for b in E:
        for i in range(len(b)):
            cases.append(("enum", b[:i], None))
    for b in HAND_REGEX:
        for i in range(len(b)):
            cases.append(("regex", b[:i], None))
    for b in (J if not quick else rng.sample(J, min(len(J), 40)) + HAND_JSON):
        for i in range(len(b)):
            cases.append(("json", b[:i], None))
            cases.append(("jsont", b[:i], None))
    # mutations
    nm = 20000 if quick else 150000
    for _ in range(nm):
        r = rng.random()
        if r < 0.55:
            cases.append(("schema", mutate(rng, rng.choice(S)), rng.choice([None, b"1", b'{"a":1}', b"[1,2]"])))
        elif r < 0.65:
            cases.append(("schemaT", rng.choice([b"@t", b'{"a": @t}', b'[@t]', b'1 // {type: "@t"}']), mutate(rng, rng.choice(S))))
        elif r < 0.75:
            cases.append(("enum", mutate(rng, rng.choice(E)), None))
        elif r < 0.82:
            cases.append(("regex", mutate(rng, rng.choice(HAND_REGEX)), None))
        else:
            cases.append((rng.choice(["json", "jsont"]), mutate(rng, rng.choice(J)), None))
    return cases


SIG = re.compile(r"(\w+):((?:PANIC|KITPANIC|KITLOSS|FOREIGN|BADPOS|ERRORPANIC|RUNTIME|EMPTYMSG|NOPOS)\([^;]*\)|HANG|L\d+@\d+;no_EOF)")


def signature(out):
    """normalised set of (method, violation class) for triage."""
    sigs = set()
    for part in out.split(";"):
        if BAD.search(part):
            m, _, cls = part.partition(":")
            cls = re.sub(r"\d+", "N", cls)
            sigs.add(m + ":" + cls[:90])
    return sorted(sigs)


# ---- known-finding classes (decidable predicates on (kind, source, second, output)) ----
def classes(case, out):
    kind, src, second = case
    cl = set()
    return cl


def run(ctx):
    st = vc.prepare(ctx, need_model=False)
    quick = ctx.tier == "quick"
    ctx.extra["rule"] = ("Part A: Coq theorems over Gen/ErrTables (all codes, all errors.Format sites, all bare-code sites). Part C: every testdata "
                         "schema/enum/type/json file and hand-written seeds through every public constructor/method combination in two orders, truncated at every "
                         "offset, and token-level mutations (insert/delete/replace/cut/splice over a JSight token alphabet incl. control and high bytes) up to 4 KiB; "
                         "violation = escaped panic, non-library error type, position outside the source or no position at all, Error()/Message() panics, no EOF, hang; non-trivial = distinct "
                         "input whose outcome contains at least one library error")
    ctx.assumptions += ["Part C is sampled (fuzzing), not proved: it supports the claim for the layers above the scanners",
                        "a position is 'inside the source' when < len(source), or 0 for an empty source"]
    if not st["impl"]:
        ctx.report("harness failed to build: " + json.dumps(st["logs"])[:1500], "build", st["logs"], no_input=True)
        return
    cases = []
    cdir = os.path.join(vc.ROOT, "corpus", "C07")
    if os.path.isdir(cdir):
        for f in sorted(os.listdir(cdir)):
            for l in open(os.path.join(cdir, f)):
                l = l.strip()
                if l and not l.startswith("#"):
                    t = l.split()
                    cases.append((t[0], bytes.fromhex(t[1]) if t[1] != "-" else b"", (bytes.fromhex(t[2]) if t[2] != "-" else b"") if len(t) > 2 else None))
    cases += gen_cases(ctx, quick)
    # numbers whose exponent is near the machine word, as documents and as examples; an enum rule with a comment before its first value
    for sc in (b"1 // {max: 100}", b"1 // {min: 0}", b"1.5", b'{\n  "a": 1 // {min: 0}\n}', b"[1]", b"1 // {enum: [1, 2]}", b"1 // {const: true}"):
        for num in (b"1e9223372036854775806", b"1e-9223372036854775807", b"1e9223372036854775807", b"-1.5E+9223372036854775800", b"1e2147483648", b"0.1e-2147483649"):
            doc = num if not sc.startswith((b"{", b"[")) else (b'{"a": ' + num + b"}" if sc.startswith(b"{") else b"[" + num + b"]")
            cases.append(("schema", sc, doc))
    for sc in (b"1", b"{}", b'{\n  "a": 1\n}', b"@t"):
        for doc in (b"", b" ", b"\n\t "):
            cases.append(("schema", sc, doc))
    cases.append(("schema", b"1 /* {enum: [ // note before the first value\n 1]} */", b"1"))
    cases.append(("schema", b"1 // {min: 1e9223372036854775806}", b"1"))
    cases = [c if len(c) == 4 else c + (None,) for c in cases]
    lines = ["%s %s%s%s" % (k, hexs(s), (" " + hexs(d)) if d is not None else "", (" " + hexs(t)) if t is not None else "") for k, s, d, t in cases]
    # dedupe, keep order
    seen, ul, uc = set(), [], []
    for l, c in zip(lines, cases):
        if l not in seen:
            seen.add(l)
            ul.append(l)
            uc.append(c)
    # an input that kills or hangs the process (stack overflow, fatal error) is isolated by bisection and counts as a panic of the call
    outs = vc.impl_isolating(["fuzzapi"], ul, 1, shards=16, timeout=900, crash_value="Process:PANIC(the process died or hung: fatal error / stack overflow)")
    ctx.evaluations += len(ul)
    hist = {}
    triage = {}
    for l, c, o in zip(ul, uc, outs):
        if re.search(r":[LV]\d", o):
            ctx.nontrivial.add(l)
        for part in o.split(";"):
            cls = re.sub(r"\d+", "N", part.partition(":")[2])[:40]
            hist[cls] = hist.get(cls, 0) + 1
        if BAD.search(o):
            sig = "|".join(signature(o))
            triage.setdefault(sig, []).append((l, c, o))
    ctx.extra["outcome_histogram"] = dict(sorted(hist.items(), key=lambda kv: -kv[1])[:25])
    ctx.extra["kinds"] = {k: sum(1 for c in uc if c[0] == k) for k in ("schema", "schemaT", "enum", "regex", "json", "jsont")}
    ctx.samples += [{"case": ul[i], "source": uc[i][1][:80].decode("latin1"), "outcome": outs[i][:200]} for i in (0, len(ul) // 2, len(ul) - 1)]
    for sig, items in sorted(triage.items(), key=lambda kv: -len(kv[1])):
        items.sort(key=lambda it: len(it[0]))
        l, c, o = items[0]
        what = "%s on %r%s: %s  [%d inputs with this signature]" % (c[0], c[1][:60], (" + %r" % c[2][:40]) if c[2] else "", sig[:300], len(items))
        for l2, c2, o2 in items[:400]:
            ctx.report(what, "fuzz:" + l2, {"case": l2, "kind": c2[0], "source_hex": hexs(c2[1]), "source": c2[1].decode("latin1"),
                                            "second": (c2[2] or b"").decode("latin1"), "outcome": o2, "signature": sig}, case=(c2, o2))
    ctx.extra["violation_signatures"] = {k[:200]: len(v) for k, v in triage.items()}
    if not st["proof"] and not ctx.violations:
        ctx.report("proof obligation(s) no longer check: %s" % ", ".join(ctx.proof_broken), "proof-broken",
                   {"broken": ctx.proof_broken, "log": st["logs"].get("make", "")[-3000:],
                    "theorems": ["C07_site_arity", "C07_bare_codes_have_no_placeholders", "C07_every_code_has_template"]}, no_input=True)


def replay(ctx, path):
    r = json.load(open(path))
    vc.prepare(ctx, need_model=False)
    if "case" in r:
        o = vc.impl(["fuzzapi"], [r["case"]])[0]
        ctx.evaluations += 1
        if BAD.search(o):
            ctx.report("replay: " + "|".join(signature(o)), "fuzz:" + r["case"], {"case": r["case"], "outcome": o})
    else:
        run(ctx)
