"""The Coq model of the enum-rule scanner (coq/theories/Enum/EnumScanner.v, entry enum_model) against rules/enum: raw event stream (modes n, N = length-computing),
Enum.Len (l), Enum.Check (c).  Shared by the C06 / C14 / C18 checks; tools/enum_difftest.py is the large version (8M inputs) used when the model was written."""
import itertools, random

ALPHA = [b"[", b"]", b",", b'"', b"\\", b"/", b"*", b"\n", b"\r", b" ", b"1", b"0", b"-", b".", b"e", b"t", b"n", b"a", b"#", b"{", b"}", b"\x00", b"\x7f"]


def texts(seed, quick):
    import check_c18 as C
    rng = random.Random(seed * 31 + 5)
    out = []
    n = 400 if quick else 20000
    for _ in range(n):
        vals = C.sample_values(rng, rng.randint(0, 6))
        t, _ = C.enum_text(rng, vals)
        t = rng.choice(["", " ", "\n"]) + t + rng.choice(["", " ", "\n", " x", "\n]", ",", " // c", " /* c */", "/"])
        b = t.encode()
        out.append(b)
        for _ in range(3 if quick else 6):
            out.append(b[: rng.randrange(len(b) + 1)])
        for _ in range(3):
            i = rng.randrange(len(b) + 1)
            k = rng.random()
            out.append(b[:i] + rng.choice(ALPHA) + (b[i:] if k < 0.5 else b[i + 1:]) if k < 0.8 else b[:i] + b[i + 1:])
    L = 3 if quick else 4
    for n in range(0, L + 1):
        for t in itertools.product(ALPHA, repeat=n):
            out.append(b"".join(t))
    for _ in range(3000 if quick else 200000):
        out.append(b"[" + b"".join(rng.choice(ALPHA) for _ in range(rng.randint(2, 9))))
    return list(dict.fromkeys(out))


def stream(ctx, st, modes, quick, prefix):
    import vcommon as vc
    if not (st.get("model") and st.get("impl")):
        return
    ts = texts(ctx.seed, quick)
    lines = ["%s %s" % (m, t.hex() or "-") for t in ts for m in modes]
    mo = vc.model_parallel("enum_model", lines, shards=16)
    io = vc.impl_parallel(["enumx"], lines, shards=16)
    bad = 0
    for l, m, i in zip(lines, mo, io):
        ctx.evaluations += 1
        if i.startswith("PANIC"):
            i = "PANIC"
        if m != i:
            bad += 1
            if len(ctx.violations) < 40:
                t = bytes.fromhex(l[2:]) if l[2:] != "-" else b""
                what = {"n": "event stream", "N": "event stream (length mode)", "l": "Len", "c": "Check"}[l[0]]
                ctx.report("enum rule %r: %s of the scanner is %s, the Coq model of the scanner says %s" % (t[:80], what, i[:160], m[:160]), prefix + "enummodel:" + l,
                           {"text_hex": l[2:], "mode": l[0], "implementation": i, "model": m}, case=t, no_input=True)
    ctx.extra["enum_scanner_model"] = {"texts": len(ts), "modes": modes, "lines": len(lines), "mismatches": bad}
