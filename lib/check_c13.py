"""C13 — meaning is invariant under surface syntax of schema and document."""
import json, re
import vcommon as vc
import unquote_cases as UQ
import jsight as J


def print_layout(w, lay, rng, indent=0, mark=None, comma=False, key=None):
    """print_schema with a layout: nl, indent unit, comment style, annotation style, quoted rule names, trailing comma in rule objects, rule order"""
    unit = lay["indent"]
    pad = unit * indent
    head = pad + (J.jkey(key) + ": " if key is not None else "")
    rs = J.rules_text(w, mark)
    if lay["rule_order"] == "reversed":
        rs = rs[::-1]
    elif lay["rule_order"] == "sorted":
        rs = sorted(rs)
    if lay["quoted_names"]:
        rs = ['"%s":%s' % (r.split(":", 1)[0], r.split(":", 1)[1]) for r in rs]
    body = ", ".join(rs) + ("," if rs and lay["trailing_comma"] else "")
    note = lay["note"] if lay["note"] else None
    if rs:
        if lay["annotation"] == "multiline":
            a = " /* {%s}%s */" % (body, (" - " + note) if note else "")
        else:
            a = " // {%s}%s" % (body, (" - " + note) if note else "")
    else:
        a = ""
    cm = (" #" + (" " + lay["comment"] if lay["comment"] else "")) if (lay["comment"] is not None and lay["annotation"] != "inline-blocked") else ""
    c = "," if comma else ""
    if w.kind in "SIFBN":
        return [head + w.tok + c + a + (cm if not a or lay["annotation"] == "multiline" else "")]
    lines = []
    if w.kind == "O":
        if not w.members:
            return [head + "{}" + c + a]
        lines.append(head + "{" + a)
        if lay["block_comment"]:
            lines.append(pad + unit + "### " + lay["block_comment"] + " ###")
        for i, (k, m, x) in enumerate(w.members):
            lines += print_layout(x, lay, rng, indent + 1, m, i < len(w.members) - 1, k)
        lines.append(pad + "}" + c)
        return lines
    if not w.items:
        return [head + "[]" + c + a]
    lines.append(head + "[" + a)
    for i, x in enumerate(w.items):
        lines += print_layout(x, lay, rng, indent + 1, None, i < len(w.items) - 1, None)
    lines.append(pad + "]" + c)
    return lines


def rand_layout(rng):
    return {"nl": rng.choice(["\n", "\r\n", "\r"]), "indent": rng.choice(["", " ", "  ", "\t", "    "]), "comment": rng.choice([None, None, "user comment", "x", ""]),
            "block_comment": rng.choice([None, None, "block\ncomment", "b"]), "annotation": rng.choice(["inline", "inline", "multiline"]),
            "quoted_names": rng.random() < 0.3, "trailing_comma": rng.random() < 0.3, "rule_order": rng.choice(["written", "reversed", "sorted"]),
            "note": rng.choice([None, None, "a note"])}


BASE = {"nl": "\n", "indent": "  ", "comment": None, "block_comment": None, "annotation": "inline", "quoted_names": False, "trailing_comma": False, "rule_order": "written", "note": None}


def strip_comments(a):
    if isinstance(a, dict):
        return {k: strip_comments(v) for k, v in a.items() if k != "c"}
    if isinstance(a, list):
        return [strip_comments(x) for x in a]
    return a


def canon_rules(a):
    """rule order is one of the rewrites: compare rules as a sorted list"""
    if isinstance(a, dict):
        d = {k: canon_rules(v) for k, v in a.items()}
        if "rules" in d:
            d["rules"] = sorted(d["rules"], key=lambda r: json.dumps(r, sort_keys=True))
        return d
    if isinstance(a, list):
        return [canon_rules(x) for x in a]
    return a


def respell_doc(rng, d):
    """same JSON value: whitespace, property order, escape sequences"""
    if d[0] == "o":
        ms = list(d[1])
        rng.shuffle(ms)
        return ("o", [(k, respell_doc(rng, x)) for k, x in ms])
    if d[0] == "a":
        return ("a", [respell_doc(rng, x) for x in d[1]])
    if d[0] == "s":
        s = json.loads(d[1])
        out = '"' + "".join(("\\u%04x" % ord(ch)) if (rng.random() < 0.4 and ord(ch) < 0x10000) else json.dumps(ch)[1:-1] for ch in s) + '"'
        return ("s", out)
    return d


def run(ctx):
    st = vc.prepare(ctx)
    if not st["impl"]:
        ctx.report("harness failed to build: " + json.dumps(st["logs"])[:1500], "build", st["logs"], no_input=True)
        return
    quick = ctx.tier == "quick"
    rng = ctx.rng
    ctx.classifiers["annotation_line_after_an_annotated_line"] = lambda case: isinstance(case, dict) and case.get("cls") == "annotation-after-annotated-line"
    ctx.classifiers["const_compares_raw_token"] = lambda case: isinstance(case, dict) and case.get("cls") == "const-escape"
    ctx.extra["rule"] = ("generated schemas with rules (depth <= 4) printed under random compositions of meaning-preserving rewrites: LF / CRLF / CR line ends, indentation (none, spaces, tabs), "
                         "# user comments and ### blocks, inline vs multi-line annotations, notes, quoted vs bare rule names, trailing comma in the rule object, rule order; Check verdict, AST "
                         "(comments aside, rules as a set) and the verdicts of a document set must coincide with the base spelling; documents re-spelled by whitespace, property order and "
                         "\\\\uXXXX escapes must get the same verdict; non-trivial = schema with >= 2 annotated nodes")
    ctx.assumptions += ["intrinsic oracle (equality across spellings); document half: Text/Unquote.v (escape spellings) and Json grammar (blanks, member order) are modelled and proved; schema half: intrinsic oracle only (the schema scanner is not modelled): partial"]
    groups = []
    n = 2000 if quick else 12000
    for _ in range(n):
        w = J.rand_rule_schema(rng, rng.randint(1, 4))
        docs = []
        base_doc = None
        for _ in range(3):
            d = J.conforming(rng, strip_rules(w), False)
            docs += [d, J.mutate_doc(rng, d)]
        spellings = [BASE] + [rand_layout(rng) for _ in range(4)]
        groups.append((w, spellings, docs))
    # const on strings: the document may spell the same string with escapes
    for s_ in (["abc", "a b", "é", "k"] if quick else ["abc", "a b", "é", "k", "x/y", "tab\t"]):
        w = J.W("O", members=[("c", None, J.W("S", tok=json.dumps(s_, ensure_ascii=False), rules=[("const", "true")])), ("n", None, J.W("I", tok="1"))])
        d = ("o", [("c", ("s", json.dumps(s_, ensure_ascii=False))), ("n", ("i", "1"))])
        groups.append((w, [BASE, rand_layout(rng)], [d, d, d]))
    lines = []
    for w, spellings, docs in groups:
        dtexts = [J.print_doc(d) for d in docs] + [J.print_doc(respell_doc(rng, d), rng) for d in docs]
        for lay in spellings:
            text = lay["nl"].join(print_layout(w, lay, rng))
            lines.append(json.dumps({"schema": text, "ops": [["check"], ["ast"]] + [["validate", t] for t in dtexts]}))
    outs = vc.impl_parallel(["schema"], lines)
    i = 0
    for w, spellings, docs in groups:
        res = []
        for lay in spellings:
            res.append((lay, json.loads(lines[i])["schema"], json.loads(outs[i])))
            i += 1
        ctx.evaluations += len(res)
        if sum(1 for x in J.all_nodes(w) if J.rules_text(x)) >= 2:
            ctx.nontrivial.add(res[0][1])
        base = res[0][2]
        nd = len(docs)
        # document re-spelling: verdict of doc k equals verdict of its respelling k+nd
        if base[0] == "ok":
            for k in range(nd):
                v1, v2 = base[2 + k], base[2 + nd + k]
                if (v1 == "ok") != (v2 == "ok") and len(ctx.violations) < 40:
                    dt = json.loads(lines[i - len(spellings)])["ops"]
                    info = {"schema": res[0][1], "document": dt[2 + k][1], "respelled": dt[2 + nd + k][1], "verdicts": [v1, v2],
                            "cls": "const-escape" if ("const: true" in res[0][1] and "\\u" in dt[2 + nd + k][1]) else None}
                    ctx.report("re-spelling the document changes the verdict: %r -> %s, %r -> %s; schema %r" % (dt[2 + k][1][:60], v1, dt[2 + nd + k][1][:80], v2, res[0][1][:100]),
                               "c13doc:" + res[0][1] + dt[2 + k][1], info, case=info)
        for lay, text, r in res[1:]:
            what = None
            if (r[0] == "ok") != (base[0] == "ok"):
                what = "Check verdict changes with the spelling: %s vs %s" % (base[0], r[0])
            elif r[0] == "ok":
                a0 = canon_rules(strip_comments(json.loads(base[1][2:]))) if base[1].startswith("A:") else base[1]
                a1 = canon_rules(strip_comments(json.loads(r[1][2:]))) if r[1].startswith("A:") else r[1]
                if json.dumps(a0, sort_keys=True) != json.dumps(a1, sort_keys=True):
                    what = "the AST (comments aside) changes with the spelling"
                else:
                    for k in range(2 * nd):
                        if (base[2 + k] == "ok") != (r[2 + k] == "ok"):
                            what = "a validation verdict changes with the spelling: document #%d %s vs %s" % (k, base[2 + k], r[2 + k])
                            break
            if what and len(ctx.violations) < 40:
                ctx.report("%s; base spelling %r, re-spelled %r (layout %s)" % (what, res[0][1][:120], text[:160], {k: v for k, v in lay.items() if v != BASE[k]}), "c13:" + text,
                           {"base": res[0][1], "respelled": text, "layout": lay, "base_results": base[:2], "respelled_results": r[:2]}, case={"schema": text})
    # corpus: pairs (base spelling, re-spelled) that once differed
    import os
    pairs = []
    for fn in sorted(os.listdir(os.path.join(vc.ROOT, "corpus", "C13"))):
        if fn.startswith(("fixed-", "known-")) and fn.endswith(".json"):
            pairs += json.load(open(os.path.join(vc.ROOT, "corpus", "C13", fn)))
    if pairs:
        co = vc.impl(["schema"], [json.dumps({"schema": t, "ops": [["check"], ["ast"]]}) for pr in pairs for t in (pr["base"], pr["respelled"])])
        for k, pr in enumerate(pairs):
            a, b = json.loads(co[2 * k]), json.loads(co[2 * k + 1])
            ctx.evaluations += 1
            same_ast = a[0] == "ok" and b[0] == "ok" and json.dumps(canon_rules(strip_comments(json.loads(a[1][2:]))), sort_keys=True) == json.dumps(canon_rules(strip_comments(json.loads(b[1][2:]))), sort_keys=True)
            if not same_ast and len(ctx.violations) < 40:
                ctx.report("corpus case: re-spelling changes Check/AST: %r -> %s, %r -> %s" % (pr["base"], a[0], pr["respelled"], b[0]), "c13corpus:" + pr["respelled"], dict(pr, results=[a[0], b[0]]), case={"schema": pr["respelled"], "cls": pr.get("cls")})
    # document keys matched by a key shortcut: an escaped spelling of the key is the same key
    ks = []
    for kt in ('"k"', '"key" // {minLength: 1, maxLength: 3}', '"k" // {regex: "^k"}', '"k" // {enum: ["k", "key"]}', '"k" // {const: true}'):
        for key in ("k", "key", "kx", "z"):
            esc = "".join("\\u%04x" % ord(ch) for ch in key)
            half = "\\u%04x" % ord(key[0]) + key[1:]
            ks.append((kt, ['{"%s": 1}' % key, '{"%s": 1}' % esc, '{"%s": 1}' % half, '{ "%s" : 1 }' % esc]))
    kouts = vc.impl(["schema"], [json.dumps({"schema": "{\n  @K: 1\n}", "types": [["@K", kt]], "ops": [["check"]] + [["validate", d] for d in docs]}) for kt, docs in ks])
    for (kt, docs), o in zip(ks, kouts):
        r = json.loads(o)
        ctx.evaluations += len(docs)
        vs = [x.split("@")[0] for x in r[1:]]
        if r[0] == "ok" and len(set(vs)) > 1 and len(ctx.violations) < 40:
            info = {"schema": "{\n  @K: 1\n}", "types": [["@K", kt]], "documents": docs, "verdicts": r[1:]}
            ctx.report("re-spelling a document key with escapes changes the verdict under the key shortcut @K = %s: %s" % (kt, list(zip(docs, r[1:]))[:4]), "c13key:" + kt + docs[0], info, case=info)
    ctx.extra["key_shortcut_respellings"] = len(ks)
    # rule order inside the rule-sets of an "or" rule (a second loader handles them)
    import itertools
    sets = {"A": [("type", '"integer"'), ("min", "0"), ("exclusiveMinimum", "true")], "B": [("type", '"string"'), ("minLength", "1"), ("maxLength", "9")],
            "C": [("type", '"integer"'), ("max", "10"), ("exclusiveMaximum", "true"), ("min", "-5")], "D": [("type", '"float"'), ("precision", "2"), ("min", "0.5")]}
    ogroups = []
    for names, ex in ((("A", "B"), "5"), (("C", "B"), "5"), (("B", "C"), '"s"'), (("A", "D"), "5")):
        perms = [list(itertools.permutations(sets[nm])) for nm in names]
        combos = list(itertools.product(*perms))
        if quick:
            combos = combos[:1] + rng.sample(combos[1:], min(len(combos) - 1, 12))
        texts = []
        for combo in combos:
            q = rng.random() < 0.3
            texts.append("%s // {or: [%s]}" % (ex, ", ".join("{%s}" % ", ".join(('"%s": %s' if q else "%s: %s") % kv for kv in rs) for rs in combo)))
        ogroups.append(texts)
    # the enum rule inside a rule-set, bare, quoted and with a blank before the colon
    ogroups.append(['1 // {or: [{enum: [1, 2]}, {type: "string"}]}', '1 // {or: [{"enum": [1, 2]}, {type: "string"}]}', '1 // {or: [{enum : [1, 2]}, {type: "string"}]}',
                    '1 // {or: [{ "enum" : [1, 2] }, {"type": "string"}]}'])
    oprobes = ["5", "0", "-1", "-5", "10", "11", '"x"', '""', '"0123456789"', "true", "0.5", "0.25", "1.234"]
    olines = [json.dumps({"schema": t, "ops": [["check"], ["ast"]] + [["validate", p] for p in oprobes]}) for g in ogroups for t in g]
    oouts = vc.impl_parallel(["schema"], olines)
    i = 0

    def canon_props(a):
        if isinstance(a, dict):
            d = {k: canon_props(v) for k, v in a.items()}
            if "props" in d:
                d["props"] = sorted(d["props"], key=lambda r: json.dumps(r, sort_keys=True))
            return d
        if isinstance(a, list):
            return [canon_props(x) for x in a]
        return a
    for g in ogroups:
        rs = [json.loads(oouts[i + j]) for j in range(len(g))]
        i += len(g)
        ctx.evaluations += len(g)
        base = rs[0]
        for t, r in zip(g[1:], rs[1:]):
            what = None
            if r[0] != base[0]:
                what = "Check verdict changes with the order or the spelling of the rules inside an or rule-set: %s vs %s" % (base[0], r[0])
            elif r[0] == "ok":
                if r[1].startswith("A:") and base[1].startswith("A:") and json.dumps(canon_props(strip_comments(json.loads(base[1][2:]))), sort_keys=True) != json.dumps(canon_props(strip_comments(json.loads(r[1][2:]))), sort_keys=True):
                    what = "the AST (rule order aside) changes with the order of the rules inside an or rule-set"
                elif [x == "ok" for x in r[2:]] != [x == "ok" for x in base[2:]]:
                    what = "validation verdicts change with the order of the rules inside an or rule-set: %s vs %s" % (base[2:], r[2:])
            if what and len(ctx.violations) < 40:
                ctx.report("%s; base %r, re-ordered %r" % (what, g[0], t), "c13or:" + t, {"base": g[0], "respelled": t, "base_results": base, "respelled_results": r}, case={"schema": t})
    ctx.extra["or_rule_set_orderings"] = sum(len(g) for g in ogroups)
    UQ.check_unquote(ctx, st, quick, "c13")
    import schema_scan_cases
    schema_scan_cases.stream(ctx, st, "s", quick, "c13")
    ctx.extra["schemas"] = len(groups)
    ctx.extra["spellings"] = len(lines)
    ctx.samples.append({"base": json.loads(lines[0])["schema"], "respelled": json.loads(lines[2])["schema"]})


def strip_rules(w):
    import copy
    w2 = copy.deepcopy(w)
    for x in J.all_nodes(w2):
        x.rules = []
    return w2


def replay(ctx, path):
    vc.prepare(ctx, need_model=False)
    run(ctx)
