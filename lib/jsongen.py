"""generators of JSON-ish byte strings shared by the C05/C06/C14/C17 checks."""
import itertools

ALPHA16 = [b"{", b"}", b"[", b"]", b",", b":", b'"', b"\\", b"0", b"1", b"-", b".", b"e", b"+", b" ", b"x"]
ALPHA_WORDS = [b"t", b"r", b"u", b"e", b"f", b"a", b"l", b"s", b"n", b"[", b"]", b",", b" "]
WS = [b"", b" ", b"\t", b"\n", b"\r\n", b"  ", b" \n "]


def exhaustive(alpha, maxlen):
    for n in range(0, maxlen + 1):
        for t in itertools.product(alpha, repeat=n):
            yield b"".join(t)


def rand_string_token(rng):
    parts = [b'"']
    for _ in range(rng.choice([0, 1, 1, 2, 3, 6])):
        r = rng.random()
        if r < 0.5:
            parts.append(bytes([rng.choice(b"abcxyz 09_-/")]))
        elif r < 0.6:
            parts.append(rng.choice([b"\\n", b"\\t", b'\\"', b"\\\\", b"\\/", b"\\b", b"\\f", b"\\r"]))
        elif r < 0.75:
            parts.append(b"\\u" + bytes(rng.choice(b"0123456789abcdefABCDEF") for _ in range(4)))
        elif r < 0.9:
            parts.append(rng.choice(["é", "€", "🏆", "ж"]).encode())
        else:
            parts.append(bytes([rng.choice([0x7F, 0x80, 0xFF, 0x20, 0x21])]))
    parts.append(b'"')
    return b"".join(parts)


def rand_number_token(rng):
    s = b"-" if rng.random() < 0.3 else b""
    s += rng.choice([b"0", b"1", b"7", b"12", b"900", str(rng.randrange(10 ** rng.randint(1, 12))).encode()])
    if rng.random() < 0.4:
        s += b"." + "".join(rng.choice("0123456789") for _ in range(rng.randint(1, 5))).encode()
    if rng.random() < 0.3:
        s += rng.choice([b"e", b"E"]) + rng.choice([b"", b"+", b"-"]) + str(rng.randrange(0, 40)).encode()
    return s


def rand_scalar(rng):
    r = rng.random()
    if r < 0.35:
        return rand_number_token(rng)
    if r < 0.7:
        return rand_string_token(rng)
    return rng.choice([b"true", b"false", b"null"])


def rand_value(rng, depth, width, ws=True):
    """valid JSON value text with random inter-token whitespace"""
    w = (lambda: rng.choice(WS)) if ws else (lambda: b"")
    if depth <= 0 or rng.random() < 0.3:
        return rand_scalar(rng)
    n = rng.choice([0, 0, 1, 1, 2, 3, width])
    if rng.random() < 0.5:
        items = [w() + rand_value(rng, depth - 1, width, ws) + w() for _ in range(n)]
        return b"[" + (b",".join(items) if items else w()) + b"]"
    items = [w() + rand_string_token(rng) + w() + b":" + w() + rand_value(rng, depth - 1, width, ws) + w() for _ in range(n)]
    return b"{" + (b",".join(items) if items else w()) + b"}"


def rand_text(rng, depth=8, width=8):
    return rng.choice(WS) + rand_value(rng, rng.randint(0, depth), width) + rng.choice(WS)


MUT_TOKENS = [b"{", b"}", b"[", b"]", b",", b":", b'"', b"\\", b"0", b"1", b"-", b".", b"e", b"E", b"+", b" ", b"\n", b"x", b"t", b"true", b"null",
              b"\x00", b"\x1f", b"\x7f", b"\xff", b"\\u", b"\\u00", b"00", b"1.", b"1e", b"//", b"#"]


def mutate(rng, b):
    b = bytearray(b)
    for _ in range(rng.choice([1, 1, 2, 3])):
        r = rng.random()
        pos = rng.randrange(len(b) + 1)
        if r < 0.4:
            b[pos:pos] = rng.choice(MUT_TOKENS)
        elif r < 0.6 and b:
            del b[pos % len(b)]
        elif r < 0.8 and b:
            b[pos % len(b)] = rng.choice(rng.choice(MUT_TOKENS))
        else:
            b = b[:pos]
    return bytes(b[:4096])
