"""C11 — results are deterministic, history-independent and stable."""
import json
import vcommon as vc
import jsight as J
import check_c09 as G


def rand_pool(rng):
    schemas = []
    for _ in range(rng.randint(1, 3)):
        if rng.random() < 0.5:
            w = J.rand_rule_schema(rng, rng.randint(0, 3))
            schemas.append({"text": J.print_schema(w, rng), "types": []})
        else:
            k = rng.randint(1, 4)
            g = [G.rand_type(rng, k, rng.random() < 0.2) for _ in range(k)]
            texts = [G.print_type(p)[0] for p in g]
            schemas.append({"text": texts[0], "types": [[G.name(i), t] for i, t in enumerate(texts)]})
    # a schema with two defective added types: which one Check reports must not depend on map order
    if rng.random() < 0.3:
        schemas.append({"text": "{\n  \"a\": @x,\n  \"b\": @y\n}", "types": [["@x", "1 // {min: 5}"], ["@y", "\"s\" // {minLength: 9}"]]})
    shared = []
    if rng.random() < 0.35:
        # user-type objects shared by the schemas of the pool: an allOf child without required own keys, its parents also used on their own
        own = rng.choice(["", '\n  "o": true // {optional: true}\n'])
        shared = [["@A", '{\n  "a": 1\n}'], ["@B", '{\n  "b": 2\n}'], ["@M", "{ // {allOf: %s}%s}" % (rng.choice(['["@A", "@B"]', '["@B", "@A"]', '"@A"']), own)]]
        menu = [("@A", ["@A"]), ("@M", None), ("@B", ["@B"]), ('{\n  "x": @A,\n  "y": @M // {optional: true}\n}', None), ("[@M, @A]", None), ('{\n  "p": @A,\n  "q": @B\n}', ["@A", "@B"])]
        for t, use in rng.sample(menu, rng.choice([2, 3, 4])):
            schemas.append({"text": t, "types": [], "use_shared": use} if use is not None else {"text": t, "types": []})
    docs = [J.print_doc(J.rand_doc(rng, 2), rng) for _ in range(2)] + ['{"a":1}', "[1, 2", ""]
    if not shared and rng.random() < 0.3:
        # the same type NAMES with different meanings in different schemas of the pool (each schema has its own type objects): key types of key shortcuts and
        # value types; anything remembered per name across schemas shows up as a verdict that depends on which schema was asked first
        kdefs = rng.sample(['"ab" // {regex: "^[a-z]+$"}', '"12" // {regex: "^[0-9]+$"}', '"x" // {minLength: 1, maxLength: 1}', '"k" // {enum: ["k", "ab"]}'], 2)
        vdefs = rng.sample(["1 // {min: 0}", '"s"', "true", "1.5"], 2)
        schemas = [{"text": '{\n  @key: @val\n}', "types": [["@key", kdefs[i]], ["@val", vdefs[i]]]} for i in range(2)]
        if rng.random() < 0.5:
            schemas.append({"text": '{\n  "p": {\n    @key: 1 // {optional: true}\n  }\n}', "types": [["@key", rng.choice(kdefs)]]})
        kd = ['"ab"', '"12"', '"x"', '"k"', '"zz9"']
        vd = ["1", "-1", '"s"', "true", "1.5"]
        docs = ['{%s: %s}' % (rng.choice(kd), rng.choice(vd)) for _ in range(5)] + ['{"ab": 1, "12": "s"}', '{"p": {"ab": 1}}', '{"p": {"12": 1}}', "{}"]
        return {"schemas": schemas, "shared_types": [], "docs": docs, "enums": ['[1, 2]'], "regexes": ["/a/"], "validate_heavy": True, "samename": [kdefs, vdefs]}
    if shared:
        docs = ['{"a":1}', '{"a":1,"b":2}', '{"b":2}', '{"x":{"a":1}}', '[{"a":1,"b":2},{"a":1}]', '{"p":{"a":1},"q":{"b":2}}', ""]
    enums = [rng.choice(['[1, 2, "a"]', '[\n  "x", // c\n  null\n]', "[1, 1]", "[1"])]
    regexes = [rng.choice(["/[a-c]{3}/", "/x+y?/", "/(ab|cd)\\d/", "/a"])]
    return {"schemas": schemas, "shared_types": shared, "docs": docs, "enums": enums, "regexes": regexes}


def samename_oracle(pool, ops):
    """expected verdicts of validate on the two `{@key: @val}` schemas of a same-name pool, from the schema's OWN definitions (a verdict remembered per type
    name across schemas would contradict it); None = not judged"""
    import re
    kdefs, vdefs = pool["samename"]
    kok = {'"ab" // {regex: "^[a-z]+$"}': lambda k: re.fullmatch("[a-z]+", k) is not None, '"12" // {regex: "^[0-9]+$"}': lambda k: re.fullmatch("[0-9]+", k) is not None,
           '"x" // {minLength: 1, maxLength: 1}': lambda k: len(k) == 1, '"k" // {enum: ["k", "ab"]}': lambda k: k in ("k", "ab")}
    vok = {"1 // {min: 0}": lambda v: re.fullmatch("[0-9]+", v) is not None, '"s"': lambda v: v.startswith('"'), "true": lambda v: v in ("true", "false"),
           "1.5": lambda v: re.fullmatch(r"-?[0-9]+(\.[0-9]+)?", v) is not None}
    out = []
    for op in ops:
        exp = None
        if op[0] == "validate" and op[1] < 2:
            m = re.fullmatch(r'\{"([a-z0-9]+)": ([^,{}]+)\}', pool["docs"][op[2]])
            if m:
                exp = "ok" if kok[kdefs[op[1]]](m.group(1)) and vok[vdefs[op[1]]](m.group(2)) else "err"
            elif pool["docs"][op[2]] == "{}":
                exp = "err"
        out.append(exp)
    return out


def rand_ops(rng, pool, n):
    ops = []
    for _ in range(n):
        r = rng.random()
        si = rng.randrange(len(pool["schemas"]))
        if r < 0.55 or ((pool.get("shared_types") or pool.get("validate_heavy")) and r < 0.9):
            name = rng.choice(["check", "len", "example", "ast", "used", "validate", "validate", "example"] + (["validate"] * 6 if (pool.get("shared_types") or pool.get("validate_heavy")) else []))
            ops.append([name, si, rng.randrange(len(pool["docs"]))] if name == "validate" else [name, si])
        elif r < 0.7:
            ops.append([rng.choice(["dcheck", "dlen"]), rng.randrange(len(pool["docs"]))])
        elif r < 0.78:
            ops.append(["validateshared", si, rng.randrange(len(pool["docs"]))])
        elif r < 0.9:
            ops.append([rng.choice(["echeck", "elen", "evalues"]), 0])
        else:
            ops.append([rng.choice(["rcheck", "rlen", "rexample"]), 0])
    return ops


def run(ctx):
    st = vc.prepare(ctx, need_model=False)
    if not st["impl"]:
        ctx.report("harness failed to build: " + json.dumps(st["logs"])[:1500], "build", st["logs"], no_input=True)
        return
    quick = ctx.tier == "quick"
    rng = ctx.rng
    ctx.classifiers["shared_allof_private_parent"] = lambda case: isinstance(case, dict) and case.get("cls") == "shared-allof-private-parent"
    ctx.classifiers["shared_document_cursor"] = lambda case: isinstance(case, dict) and case.get("op", [""])[0] == "validateshared"
    ctx.extra["rule"] = ("histories of up to 12 public operations (Check, Len, Example, GetAST, UsedUserTypes, Validate with a fresh or a shared Document; Document Check/Len; Enum Check/Len/Values; "
                         "Regex Check/Len/Example) over a pool of 1-4 schemas (with rules, type graphs, two defective added types), documents (valid, truncated, empty), an enum rule and a regex "
                         "type: every result must equal the result of the same operation on freshly built objects, every history is run 3 times (Go randomises map iteration per run), and every "
                         "value handed to the caller (example bytes, AST, used-type list, enum values) is re-rendered after the whole history and must be unchanged; the range-over-map site "
                         "inventory is recomputed from the source by tabx; non-trivial = history with >= 6 operations touching >= 2 objects")
    ctx.assumptions += ["forced iteration orders at each range-over-map site (rangemap rewriter of the design) are not implemented: map-order independence is sampled by repeated runs only",
                        "Coq part: C11_* theorems about the once-cell/pool model (Api/Objects.v)"]
    cases = []
    n = 2000 if quick else 10000
    for _ in range(n):
        pool = rand_pool(rng)
        ops = rand_ops(rng, pool, rng.randint(3, 12))
        cases.append(dict(pool, ops=ops, oracle=samename_oracle(pool, ops)) if pool.get("samename") else dict(pool, ops=ops))
    # one type object with an allOf parent, shared by two schemas that define the parent differently (each privately): what the child inherits in one schema must not
    # depend on the other schema having been compiled before
    for _ in range(40 if quick else 400):
        pa, pb = rng.sample([('"x"', "1"), ('"y"', '"s"'), ('"w"', "true"), ('"v"', "2.5")], 2)
        shared = [["@b", '{ // {allOf: "@a"}\n  "z": 1\n}']]
        schemas = [{"text": "@b", "types": [["@a", "{\n  %s: %s\n}" % pa]]}, {"text": rng.choice(["@b", '{\n  "k": @b\n}']), "types": [["@a", "{\n  %s: %s\n}" % pb]]}]
        wrap = (lambda d: d) if schemas[1]["text"] == "@b" else (lambda d: '{"k":%s}' % d)
        docs = ['{%s:%s,"z":1}' % pa, wrap('{%s:%s,"z":1}' % pb), wrap('{%s:%s,"z":1}' % pa), '{"z":1}']
        first = rng.choice([0, 1])
        ops = [["check", first]] + [[rng.choice(["validate", "validate", "example", "check"]), rng.choice([0, 1])] for _ in range(rng.randint(2, 6))]
        ops = [o + [rng.randrange(len(docs))] if o[0] == "validate" else o for o in ops]
        cases.append({"schemas": schemas, "shared_types": shared, "docs": docs, "enums": ["[1]"], "regexes": ["/a/"], "ops": ops, "cls": "shared-allof-private-parent"})
    # shared PARENT types: one schema inherits from two shared types with allOf (own keys none or optional), another uses the first parent directly:
    # compiling the heir must not change what the parent itself requires
    for _ in range(40 if quick else 400):
        own = rng.choice(["\n", '\n  "own": 1 // {optional: true}\n'])
        parents = rng.choice([["@A", "@B"], ["@B", "@A"], ["@A", "@B", "@C"]])
        shared = [["@A", '{\n  "a": 1\n}'], ["@B", '{\n  "b": 2\n}'], ["@C", '{\n  "c": 3 // {optional: true}\n}']]
        schemas = [{"text": "{ // {allOf: %s}%s}" % (json.dumps(parents), own), "types": []}, {"text": rng.choice(["@A", '{\n  "k": @A\n}', "@B"]), "types": []}]
        wrap = (lambda d: d) if schemas[1]["text"].startswith("@") else (lambda d: '{"k":%s}' % d)
        docs = ['{"a":1,"b":2}', wrap('{"a":1}'), wrap('{"b":2}'), wrap('{"a":1,"b":2}'), '{"a":1,"b":2,"c":3}']
        ops = [[rng.choice(["check", "validate", "validate", "example"]), rng.choice([0, 1])] for _ in range(rng.randint(3, 8))]
        ops = [o + [rng.randrange(len(docs))] if o[0] == "validate" else o for o in ops]
        cases.append({"schemas": schemas, "shared_types": shared, "docs": docs, "enums": ["[1]"], "regexes": ["/a/"], "ops": ops})
    # error values inside unnamed types (or rule-sets, or-shortcuts): every field a caller can read is the same in every run
    for text, types in (('{\n  "a": @A\n}', [["@A", '1 // {or: [{type: "@X", nullable: true}, "string"]}']]), ('{\n  "k": @B | @C\n}', [["@B", "1"]]),
                        ('{\n  "a": @B\n}', [["@B", '{\n  "c": @X | @Y\n}']])):
        cases.append({"schemas": [{"text": text, "types": types}], "shared_types": [], "docs": ["1"], "enums": ["[1]"], "regexes": ["/a/"], "ops": [["check", 0], ["validate", 0, 0], ["check", 0]]})
    # two schemas with DIFFERENT regex types under the same name: each keeps its own pattern and example
    for _ in range(30 if quick else 300):
        pa, pb = rng.sample(["/^a+$/", "/^[0-9]{2}$/", "/^x?y$/", "/b/", "/^$/"], 2)
        schemas = [{"text": '{\n  "id": @id\n}', "types": [], "regex_types": [["@id", pa]]}, {"text": rng.choice(['{\n  "id": @id\n}', "@id"]), "types": [], "regex_types": [["@id", pb]]}]
        docs = ['{"id":"aa"}', '{"id":"42"}', '{"id":"y"}', '{"id":"b"}', '{"id":""}', '"aa"', '"42"', '"b"', '""']
        ops = [[rng.choice(["check", "example", "validate", "validate"]), rng.choice([0, 1])] for _ in range(rng.randint(3, 8))]
        ops = [o + [rng.randrange(len(docs))] if o[0] == "validate" else o for o in ops]
        # what each schema must answer is decided by ITS pattern (python re; the patterns are in the common subset)
        import re as _re
        oracle = []
        for o in ops:
            if o[0] != "validate":
                oracle.append(None)
                continue
            pat = (pa, pb)[o[1]][1:-1]
            dv = json.loads(docs[o[2]])
            wrapped = schemas[o[1]]["text"] != "@id"
            val = dv.get("id") if (wrapped and isinstance(dv, dict)) else (dv if (not wrapped and isinstance(dv, str)) else None)
            oracle.append("ok" if (val is not None and _re.search(pat.replace("$", "\\Z"), val)) else "err")
        cases.append({"schemas": schemas, "shared_types": [], "docs": docs, "enums": ["[1]"], "regexes": ["/a/"], "ops": ops, "oracle": oracle})
    # the caller writes into (and appends to) every example it receives: nothing the library does later may change
    for _ in range(60 if quick else 600):
        kind = rng.choice(["lit", "ref", "obj"])
        if kind == "lit":
            schemas = [{"text": rng.choice(["12 // {min: 1}", '"abc" // {minLength: 1}', "true", "12"]), "types": []}]
        elif kind == "ref":
            schemas = [{"text": "@A", "types": [["@A", rng.choice(['"abc" // {minLength: 1}', "7", '{\n  "k": 1\n}'])]]}]
        else:
            schemas = [{"text": '{\n  "k": "v",\n  "n": 12\n}', "types": []}]
        ops = [[rng.choice(["example", "example", "len", "check", "validate", "ast"]), 0] for _ in range(rng.randint(3, 8))]
        ops = [o + [0] if o[0] == "validate" else o for o in ops]
        cases.append({"schemas": schemas, "shared_types": [], "docs": ["12"], "enums": ["[1]"], "regexes": ["/a/"], "ops": ops, "scribble": True})
    import os
    cdir = os.path.join(vc.ROOT, "corpus", "C11")
    if os.path.isdir(cdir):
        for f in sorted(os.listdir(cdir)):
            cases = json.load(open(os.path.join(cdir, f))) + cases
    lines = [json.dumps(c) for c in cases]
    runs = [vc.impl_parallel(["history"], lines, shards=16) for _ in range(3)]
    for c, l, outs in zip(cases, lines, zip(*runs)):
        ctx.evaluations += 1
        if len(c["ops"]) >= 6:
            ctx.nontrivial.add(l)
        rs = [json.loads(o) for o in outs]
        for k, op in enumerate(c["ops"]):
            h, f, late = rs[0][k]
            # an error value is compared across objects and runs by code and position (the statement's list); its rendered text only with its own later rendering
            # since the fixes 14a88ff (required keys in schema order) and d7272bd / 4088268 (no heap address in the 1303 message) the rendered text is compared as well
            core = lambda x: x
            h_full, h, f = h, core(h), core(f)
            info = {"pool": {kk: c.get(kk) for kk in ("schemas", "shared_types", "docs", "enums", "regexes")}, "history": c["ops"][:k + 1], "op": op, "in_history": h, "fresh": f, "later": late,
                    "cls": c.get("cls")}
            exp = (c.get("oracle") or [None] * len(c["ops"]))[k]
            if exp is not None and (exp == "ok") != (h.split("#")[0] == "ok"):
                if len(ctx.violations) < 40:
                    ctx.report("operation %s returns %s, that schema's own type definitions say %s (another schema of the process has a type of the same name)" % (op, h[:60], exp),
                               "c11o:" + l + str(k), info, case=info)
                break
            if h != f:
                if len(ctx.violations) < 40:
                    ctx.report("operation %s after history %s returns %s, on fresh objects %s" % (op, c["ops"][:k], h[:100], f[:100]), "c11h:" + l + str(k), info, case=info)
                break
            if late and late != h_full:
                if len(ctx.violations) < 40:
                    ctx.report("the value returned by %s changed after later calls: %s -> %s (history %s)" % (op, h[:80], late[:80], c["ops"]), "c11s:" + l + str(k), info, case=info)
                break
            alt = [core(r[k][1]) for r in rs[1:]]
            if any(a != f for a in alt):
                if len(ctx.violations) < 40:
                    ctx.report("operation %s on fresh objects gives different results on different runs (map iteration order): %s vs %s" % (op, f[:100], [a[:100] for a in alt]), "c11m:" + l + str(k),
                               dict(info, other_runs=alt), case=info)
                break
    # rare nondeterminism (allocator / map order with probability well below 1%): schemas with SEVERAL defects - a type referenced in several places but not added,
    # rule violations in several types - built and checked 300 times in one process; every repetition must give the same result
    rl = []
    for _ in range(60 if quick else 1500):
        k = rng.randint(2, 5)
        g = [G.rand_type(rng, k, True) for _ in range(k)]
        for i in range(1, k):
            if rng.random() < 0.3:
                g[i] = [("alias", rng.sample(list(range(k)) + [k + 1], min(k, rng.choice([2, 3]))))]
        texts = [G.print_type(p)[0] for p in g]
        rl.append(json.dumps({"schemas": [{"text": texts[0], "types": [[G.name(i), t] for i, t in enumerate(texts)]}], "docs": [], "enums": [], "regexes": [], "ops": [], "n": 300}))
    rl.append(json.dumps({"schemas": [{"text": "{\n  \"a\": @x,\n  \"b\": @y\n}", "types": [["@x", "1 // {min: 5}"], ["@y", "\"s\" // {minLength: 9}"]]}], "docs": [], "enums": [], "regexes": [], "ops": [], "n": 300}))
    # user types that bring their own types (same name, different meaning, in two branches; a type two levels down); several defective allOf types
    nested_cases = [
        {"text": '{"a": @t1,\n"b": @t2}', "types": [], "nested": [["@t1", '{"p": @x}', [["@x", '"s"']]], ["@t2", '{"q": @x}', [["@x", "1"]]]]},
        {"text": '{"a": @t1}', "types": [], "nested": [["@t1", '{"p": @y}', [["@y", '{"z": @z}', [["@z", "1"]]]]]]},
        {"text": '{"a": @t1,\n"b": @t2,\n"c": @t3}', "types": [], "nested": [["@t1", '{"p": @x}', [["@x", '"s"']]], ["@t2", '{"q": @x}', [["@x", "1"]]], ["@t3", '{"r": @x}', [["@x", "true"]]]]},
        {"text": '{"k": 1}', "types": [["@a", '{} // {allOf: "@x"}'], ["@b", '{} // {allOf: "@lit"}'], ["@c", '{} // {allOf: "@z"}'], ["@lit", "true"]]},
        {"text": '{"k": @a | @b | @c}', "types": [["@a", '{ // {allOf: "@x"}\n}'], ["@b", '{ // {allOf: "@y"}\n}'], ["@c", '{ // {allOf: "@z"}\n}']]},
    ]
    for text, doc in (("[ // {maxItems: 3}\n  @A | @B\n]", "[1, 1, 1]"), ('[@A | @B, "s", 3]', '[1, "x", 5]'), ('{"k": @A | @B, "z": 1}', '{"k": 1, "z": 2}'),
                      ('{\n  "k": [@A | @B] // {optional: true}\n}', '{"k": [1, 1]}')):
        rl.append(json.dumps({"schemas": [{"text": text, "types": [["@A", "1"], ["@B", "2 // {min: 0}"]]}], "docs": [doc], "enums": [], "regexes": [], "ops": [], "n": 400}))
    for ap, doc in (("string", '{"x": "1.5"}'), ("float", '{"x": "12.30"}'), ("string", '{"ip": "192.168.0.1"}'), ("integer", '{"x": "1.0"}'), ("email", '{"m": "a@b.cc"}')):
        rl.append(json.dumps({"schemas": [{"text": '{} // {additionalProperties: "%s"}' % ap, "types": []}], "docs": [doc], "enums": [], "regexes": [], "ops": [], "n": 300}))
    for nc in nested_cases:
        rl.append(json.dumps({"schemas": [nc], "docs": ['{"a":{"p":"s"},"b":{"q":1}}', '{"a":{"p":{"z":1}}}'], "enums": [], "regexes": [], "ops": [], "n": 500}))
    if os.path.isdir(cdir):
        for f in sorted(os.listdir(cdir)):
            for c in json.load(open(os.path.join(cdir, f))):
                rl.append(json.dumps(dict(c, ops=[], n=1000)))
    nrep = 0
    for l, o in zip(rl, vc.impl_parallel(["repeatcheck"], rl, shards=16)):
        r = json.loads(o)
        ctx.evaluations += 1
        nrep += 1
        if len(r) != 1 and len(ctx.violations) < 40:
            c = json.loads(l)
            ctx.report("the same schema built and checked %d times gives %d different results: %s; types %r" % (c["n"], len(r), [x[:60] for x in r][:3], [t[1][:60] for t in c["schemas"][0]["types"]][:4]),
                       "c11rep:" + l, {"case": c, "distinct_results": r}, case={"op": ["repeatcheck"]})
    # the order of set-up calls and of earlier queries (schema harness): equal inputs, equal results
    #  - a type object queried before it is added anywhere (it is loaded earlier; unnamed types of two types in files of the same name);
    #  - AddRule after a query that loaded the schema: either it reports an error or the rule counts (the AddRule-first history is the reference);
    #  - an operation on a type object itself (failing: a parent of its allOf is known to the root only) before the root is checked.
    TWO = [["@A", '1 // {or: [{type: "@X", nullable: true}, "string"]}'], ["@B", '1 // {or: [{type: "@Y", nullable: true}, "string"]}']]
    ALLOF = {"schema": "@A", "roottypes": True, "types": [["@A", '{ // {allOf: ["@P", "@Q"]}\n}'], ["@P", '{"p": 1}'], ["@Q", '{"q": 2}']], "private": [["@A", "@P", '{"p": 1}']]}
    ALLOF2 = {"schema": '{\n  "x": @A\n}', "roottypes": True, "types": [["@A", '{ // {allOf: ["@Q", "@P"]}\n  "own": 1\n}'], ["@P", '{"p": 1}'], ["@Q", '{"q": 2}']], "private": [["@A", "@P", '{"p": 1}']]}
    order_cases = []
    for tf in ("types.jst", "api.jst"):
        for root in ('{"a": @A, "b": @B}', '{"b": @B, "a": @A}'):
            ref = {"schema": root, "type_file": tf, "types": TWO, "ops": [["checkfull"]]}
            for pre in (["@B"], ["@A"], ["@B", "@A"], ["@A", "@B"]):
                order_cases.append(("a type object queried before it is added", ref, dict(ref, preload=pre), 0, 0))
    for first in (["used"], ["ast"], ["len"], ["example"], ["check"], ["addtype", "@T", "1"], ["validate", "1"]):
        for schema, rule in (("1 // {enum: @E}", "[1, 2]"), ('{\n  "k": "a" // {enum: @E}\n}', '["a", "b"]')):
            ref = {"schema": schema, "ops": [["addrule", "@E", rule], ["checkfull"]]}
            order_cases.append(("AddRule after %s" % first[0], ref, {"schema": schema, "ops": [first, ["addrule", "@E", rule], ["checkfull"]]}, 1, 2))
    for base in (ALLOF, ALLOF2):
        for tyop in ("typecheck", "typeexample", "typeast", "typeused"):
            order_cases.append(("%s on the type object before the root is checked" % tyop, dict(base, ops=[["checkfull"]]), dict(base, ops=[[tyop, "@A"], ["checkfull"]]), 0, 1))
    # the known class (C11-shared-type-allOf-history): the Schema object of a type is itself a user of the tree that the root compiles - CompileAllOf of either rewrites it
    D1A = {"schema": "@T", "roottypes": True, "types": [["@T", '{ // {allOf: "@P"}\n}'], ["@P", '{"w": 1}']]}
    D1B = {"schema": "@T", "roottypes": True, "types": [["@T", '{ // {allOf: "@P"}\n}'], ["@P", '{"w": "s"}']], "private": [["@T", "@P", '{"w": 1}']]}
    known_order = [("Check of the type object after Check of the root it was added to", dict(D1A, ops=[["typecheck", "@T"]]), dict(D1A, ops=[["check"], ["typecheck", "@T"]]), 0, 1),
                   ("Validate by the root after Check of the type object (which knows another @P)", dict(D1B, ops=[["validate", '{"w": "s"}']]), dict(D1B, ops=[["typecheck", "@T"], ["validate", '{"w": "s"}']]), 0, 1)]
    n_known_order = len(known_order)
    order_cases += known_order
    ol = []
    for _, ref, alt, _, _ in order_cases:
        ol += [json.dumps(ref), json.dumps(alt)]
    oo = vc.impl_isolating(["schema"], ol, 3)
    for i, (what, ref, alt, ri, ai) in enumerate(order_cases):
        ctx.evaluations += 1
        r1, r2 = json.loads(oo[2 * i]), json.loads(oo[2 * i + 1])
        if len(r1) <= ri or len(r2) <= ai:
            ctx.report("machinery: unexpected harness output %s / %s" % (oo[2 * i][:100], oo[2 * i + 1][:100]), "c11order:" + ol[2 * i + 1], {"case": alt}, no_input=True)
            continue
        if what.startswith("AddRule") and r2[ai - 1] != "ok":
            continue        # AddRule refused: the caller knows the rule does not count
        if r1[ri] != r2[ai] and len(ctx.violations) < 40:
            dec = lambda x: (x.split("#")[0] + " " + bytes.fromhex(x.split("#")[1]).decode("utf-8", "replace").split("\n")[0]) if "#" in x else x
            info = {"what": what, "reference": ref, "history": alt, "reference_result": dec(r1[ri]), "history_result": dec(r2[ai]), "op": ["order"],
                    "cls": "shared-allof-private-parent" if i >= len(order_cases) - n_known_order else None}
            ctx.report("%s: Check says %s; without it %s (schema %r)" % (what, dec(r2[ai])[:120], dec(r1[ri])[:120], alt["schema"][:60]), "c11order:" + ol[2 * i + 1], info, case=info)
    ctx.extra["order_cases"] = len(order_cases)
    ctx.extra["repeat_cases"] = nrep
    ctx.extra["histories"] = len(cases)
    ctx.extra["op_histogram"] = {}
    for c in cases:
        for op in c["ops"]:
            ctx.extra["op_histogram"][op[0]] = ctx.extra["op_histogram"].get(op[0], 0) + 1
    ctx.samples.append({"history": cases[0]["ops"], "schemas": cases[0]["schemas"][:1]})
    if not st["proof"] and not ctx.violations:
        ctx.report("proof obligation(s) no longer check: %s" % ", ".join(ctx.proof_broken), "proof-broken", {"broken": ctx.proof_broken}, no_input=True)


def replay(ctx, path):
    vc.prepare(ctx, need_model=False)
    run(ctx)
