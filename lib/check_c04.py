"""C04 — Check accepts a schema only if its own EXAMPLE obeys its rules."""
import copy, json
import vcommon as vc
import jsight as J


def run(ctx):
    st = vc.prepare(ctx)
    if not st["impl"]:
        ctx.report("harness failed to build: " + json.dumps(st["logs"])[:1500], "build", st["logs"], no_input=True)
        return
    quick = ctx.tier == "quick"
    rng = ctx.rng
    ctx.extra["rule"] = ("generated plain-JSON schemas (depth <= 4, every nesting position incl. array elements after the first and objects inside arrays) whose nodes carry rule sets their "
                         "examples obey (min/max/exclusive, precision+decimal, min/maxLength, regex, enum, declared type, formats, min/maxItems, nullable, optional): Check must succeed and "
                         "Validate(example text) must succeed; and every single-rule corruption (the example of one node replaced by a value violating one of its rules, or the item count "
                         "changed): Check must fail at the offset of that value; non-trivial = schema with a container and at least two rules")
    ctx.assumptions += ["Coq part: C04_self_valid on the rule-free fragment (Shape model) and the exact numeric rule semantics of C10; rule semantics of the other rules are checked through the API only"]
    n = 6000 if quick else 40000
    base, planted = [], []
    for _ in range(n):
        w = J.rand_rule_schema(rng, rng.randint(0, 4))
        text = J.print_schema(w, rng)
        base.append((w, text))
        nodes = J.all_nodes(w)
        cands = [(x, v) for x in nodes for v in x.viol]
        rng.shuffle(cands)
        for x, (rule, tok) in cands[:3]:
            w2 = copy.deepcopy(w)
            nodes2 = J.all_nodes(w2)
            x2 = nodes2[nodes.index(x)]
            if tok is None:       # item count
                if rule == "minItems":
                    k = int(dict(x2.rules)["minItems"])
                    x2.items = x2.items[: max(0, k - 1)]
                    if not x2.items:
                        continue
                else:
                    k = int(dict(x2.rules)["maxItems"])
                    x2.items = x2.items + [copy.deepcopy(x2.items[-1]) for _ in range(k + 1 - len(x2.items))]
                marker = None
            else:
                x2.tok = tok
                marker = tok
            # make the planted node findable: prefix a unique key path is overkill; we locate it by printing with a sentinel
            x2.sentinel = True
            t2 = J.print_schema(w2, None)
            planted.append((w2, x2, rule, t2))
    ops = [["check"]]
    lines = [json.dumps({"schema": t, "ops": [["check"], ["validate", J.plain_json(w)]]}) for w, t in base]
    outs = vc.impl_parallel(["schema"], lines)
    for (w, t), o in zip(base, outs):
        r = json.loads(o)
        ctx.evaluations += 1
        if len(J.all_nodes(w)) > 1 and sum(len(x.rules) for x in J.all_nodes(w)) >= 2:
            ctx.nontrivial.add(t)
        if r[0] != "ok":
            if len(ctx.violations) < 40:
                ctx.report("Check rejects a schema whose example obeys all its rules: %s on %r" % (r[0], t[:200]), "c04a:" + t, {"schema": t, "check": r[0]}, case=t)
        elif r[1] != "ok" and len(ctx.violations) < 40:
            ctx.report("Check succeeds but validating the schema's own example fails: %s; schema %r example %r" % (r[1], t[:200], J.plain_json(w)[:120]), "c04b:" + t,
                       {"schema": t, "example": J.plain_json(w), "validate": r[1]}, case=t)
    # corruptions: Check must fail at the offending value
    lines = [json.dumps({"schema": t, "ops": [["check"]]}) for _, _, _, t in planted]
    outs = vc.impl_parallel(["schema"], lines) if lines else []
    for (w2, x2, rule, t), o in zip(planted, outs):
        r = json.loads(o)[0]
        ctx.evaluations += 1
        want = value_offset(w2, x2, t)
        if r == "ok":
            if len(ctx.violations) < 40:
                ctx.report("Check accepts a schema whose example violates its own rule %s: %r" % (rule, t[:200]), "c04c:" + t, {"schema": t, "violated_rule": rule}, case=t)
        elif want is not None and not r.endswith("@%d" % want) and len(ctx.violations) < 40:
            ctx.report("Check reports %s for a violated %s rule, the offending value starts at %d: %r" % (r, rule, want, t[:200]), "c04d:" + t,
                       {"schema": t, "violated_rule": rule, "implementation": r, "expected_position": want}, case=t)
    # rule parameters beyond the machine word: a length or item count of 2^64 + k must not be read as k
    huge = []
    for V in (2 ** 64, 2 ** 64 + 1, 2 ** 64 + 3, 10 ** 20, 2 ** 65 + 2, 10 * 2 ** 64 + 1, 2 ** 128 + 1):
        huge.append(('"abc" // {minLength: %d}' % V, "minLength"))
        huge.append(('{\n  "k": "abcd" // {minLength: %d}\n}' % V, "minLength"))
        huge.append(('[ // {minItems: %d}\n  1, 2\n]' % V, "minItems"))
        huge.append(('{\n  "k": [ // {minItems: %d}\n    "x"\n  ]\n}' % V, "minItems"))
    # small item counts against every smaller maxItems / larger minItems (incl. one item under maxItems: 0), top level and nested
    for n in (1, 2, 3):
        items = ", ".join(str(i + 1) for i in range(n))
        for k in range(0, n):
            huge.append(('[ // {maxItems: %d}\n  %s\n]' % (k, items), "maxItems"))
            huge.append(('{\n  "a": [ // {maxItems: %d}\n    %s\n  ]\n}' % (k, items), "maxItems"))
        for k in (n + 1, n + 2):
            huge.append(('[ // {minItems: %d}\n  %s\n]' % (k, items), "minItems"))
    for (t, rule), o in zip(huge, vc.impl(["schema"], [json.dumps({"schema": t, "ops": [["check"]]}) for t, _ in huge])):
        ctx.evaluations += 1
        if json.loads(o)[0] == "ok" and len(ctx.violations) < 40:
            ctx.report("Check accepts a schema whose example violates its own rule %s (a parameter beyond 2^64 read modulo 2^64, or a small item count against a smaller maxItems / larger minItems): %r" % (rule, t[:200]), "c04c:" + t, {"schema": t, "violated_rule": rule}, case=t)
    # an or rule-set describing an array cannot have items: an item count it cannot meet must be refused, not accepted with an example matching no alternative
    rs = ['[] // {or: [{type: "array", minItems: 1}, {type: "string"}]}', '[] // {or: [{type: "string"}, {type: "array", minItems: 2, maxItems: 3}]}',
          '{\n  "k": [] // {or: [{type: "array", minItems: 1}, {type: "null"}]}\n}']
    for t, o in zip(rs, vc.impl(["schema"], [json.dumps({"schema": t, "ops": [["check"], ["validate", "[]" if t.startswith("[") else '{"k": []}']]}) for t in rs])):
        r = json.loads(o)
        ctx.evaluations += 1
        if r[0] == "ok" and len(ctx.violations) < 40:
            ctx.report("Check accepts a schema whose example violates its own rule minItems (inside an or rule-set): %r" % t, "c04c:" + t, {"schema": t, "violated_rule": "minItems"}, case=t)
    ctx.extra["huge_parameter_cases"] = len(huge)
    import os
    cf = os.path.join(vc.ROOT, "corpus", "C04", "fixed.json")
    if os.path.exists(cf):
        corpus = json.load(open(cf))
        for c, o in zip(corpus, vc.impl(["schema"], [json.dumps({"schema": c["schema"], "ops": [["check"], ["validate", c["document"]]]}) for c in corpus])):
            r = json.loads(o)
            ctx.evaluations += 1
            got = "accept" if r[1] == "ok" else "reject"
            if (r[0] != "ok" or got != c["expect"]) and len(ctx.violations) < 40:
                ctx.report("corpus case: Check %s, Validate(%s) %s, expected %s: schema %r" % (r[0], c["document"], r[1], c["expect"], c["schema"]), "c04corpus:" + c["schema"] + c["document"], dict(c, implementation=r), case=c["schema"])
    declared_stream(ctx, rng, 2000 if quick else 8000)
    ctx.extra["schemas"] = len(base)
    ctx.extra["corruptions"] = len(planted)
    ctx.samples.append({"schema": base[3][1]})
    if planted:
        ctx.samples.append({"corrupted_schema": planted[0][3], "rule": planted[0][2]})
    if not st["proof"] and not ctx.violations:
        ctx.report("proof obligation(s) no longer check: %s" % ", ".join(ctx.proof_broken), "proof-broken", {"broken": ctx.proof_broken}, no_input=True)


KEX = {"object": "{}", "array": "[]", "string": '"abc"', "integer": "7", "float": "2.5", "boolean": "true"}


def declared_stream(ctx, rng, n):
    """declared types on several nodes of one schema: {type: "kind"}, {or: ["k1", "k2"]}, {or: [rule-sets]}, {type: "@T"}, each with or without nullable: true.
    Check succeeds iff every example has a declared kind and obeys the rules of (one of) its alternatives; otherwise it fails at a non-conforming value."""
    types = [["@I", "5 // {min: 0, max: 9}"], ["@S", '"abc" // {minLength: 2}']]
    cases = []
    for _ in range(n):
        props = []
        for key in rng.sample(["a", "b", "c", "d"], rng.choice([1, 2, 2, 3, 4])):
            form = rng.choice(["type", "or-names", "or-names", "or-sets", "tref"])
            conform = rng.random() < 0.7
            nullable = rng.random() < 0.4
            if form == "type":
                exk = rng.choice(list(KEX))
                other = [k for k in KEX if k != exk and {k, exk} != {"integer", "float"}]
                ex, rule = KEX[exk], 'type: "%s"' % (exk if conform else rng.choice(other))
            elif form == "or-names":
                exk = rng.choice(list(KEX))
                other = [k for k in KEX if k != exk and {k, exk} != {"integer", "float"}]
                ks = ([exk] + rng.sample(other, 1)) if conform else rng.sample(other, 2)
                rng.shuffle(ks)
                ex, rule = KEX[exk], "or: [%s]" % ", ".join('"%s"' % k if rng.random() < 0.6 else '{type: "%s"}' % k for k in ks)
            elif form == "or-sets":
                lo, ml = rng.choice([0, 5, 10]), rng.choice([1, 3, 5])
                if rng.random() < 0.5:
                    v = lo + rng.choice([0, 1, 7]) if conform else lo - rng.choice([1, 2])
                    ex = str(v)
                else:
                    ex = json.dumps("x" * (ml + rng.choice([0, 1]) if conform else ml - 1))
                alts = ['{type: "integer", min: %d}' % lo, '{type: "string", minLength: %d}' % ml]
                if rng.random() < 0.5:
                    # a container alternative next to the scalar ones: the scalar example still has to obey the rules of a scalar alternative
                    alts.append(rng.choice(['{type: "object"}', '{type: "array"}', '{type: "object", additionalProperties: true}', '{type: "array", minItems: 0}']))
                rng.shuffle(alts)
                rule = "or: [%s]" % ", ".join(alts)
            else:
                t = rng.choice(["@I", "@S"])
                if t == "@I":
                    ex = str(rng.choice([0, 5, 9])) if conform else rng.choice(["-1", "10", '"s"', "true"])
                else:
                    ex = rng.choice(['"ab"', '"abcd"']) if conform else rng.choice(['"a"', '""', "3"])
                rule = 'type: "%s"' % t
            rules = [rule] + (["nullable: true"] if nullable else [])
            rng.shuffle(rules)
            props.append((key, ex, rules, conform))
        # print, remembering the offset of each example value
        text, offs = "{\n", []
        for i, (key, ex, rules, conform) in enumerate(props):
            head = '  "%s": ' % key
            offs.append(len(text.encode()) + len(head))
            text += head + ex + ("," if i < len(props) - 1 else "") + " // {%s}\n" % ", ".join(rules)
        text += "}"
        cases.append((text, props, offs))
    outs = vc.impl_parallel(["schema"], [json.dumps({"schema": t, "types": types, "ops": [["check"], ["validate", "{" + ",".join('"%s":%s' % (k, ex) for k, ex, _, _ in props) + "}"]]}) for t, props, _ in cases])
    nbad = 0
    for (text, props, offs), o in zip(cases, outs):
        r = json.loads(o)
        ctx.evaluations += 1
        bad = [off for (k, ex, rules, conform), off in zip(props, offs) if not conform]
        if len(props) >= 2:
            ctx.nontrivial.add(text)
        nbad += 1 if bad else 0
        info = {"schema": text, "types": types, "check": r[0], "non_conforming_offsets": bad}
        if not bad:
            if r[0] != "ok":
                if len(ctx.violations) < 40:
                    ctx.report("Check rejects a schema whose examples have their declared types: %s on %r" % (r[0], text[:200]), "c04e:" + text, info, case=text)
            elif r[1] != "ok" and len(ctx.violations) < 40:
                ctx.report("Check succeeds but validating the schema's own example fails: %s; schema %r" % (r[1], text[:200]), "c04f:" + text, dict(info, validate=r[1]), case=text)
        elif r[0] == "ok":
            if len(ctx.violations) < 40:
                ctx.report("Check accepts a schema with an example outside its declared type(s) at offset(s) %s: %r" % (bad, text[:220]), "c04g:" + text, info, case=text)
        elif not any(r[0].endswith("@%d" % b) for b in bad) and len(ctx.violations) < 40:
            ctx.report("Check reports %s, the non-conforming example value(s) start at %s: %r" % (r[0], bad, text[:220]), "c04h:" + text, info, case=text)
    ctx.extra["declared_type_schemas"] = {"n": len(cases), "with_violation": nbad}


def value_offset(w, target, text):
    """byte offset of the target node's value in the printed schema (print_schema is deterministic without rng)"""
    # re-print with the target's token/bracket replaced by a sentinel of the same printing path
    import copy as _c
    pos = [None]

    def walk(node, indent, key, comma):
        pad = "  " * indent
        head = pad + (J.jkey(key) + ": " if key is not None else "")
        return head

    # simple approach: print the schema up to the target by a parallel traversal that accumulates text length
    out = []

    def emit(node, indent=0, mark=None, comma=False, key=None):
        pad = "  " * indent
        head = pad + (J.jkey(key) + ": " if key is not None else "")
        a = J.annot(J.rules_text(node, mark), None, node.note)
        c = "," if comma else ""
        cur = sum(len(s.encode()) + 1 for s in out)
        if node is target:
            pos[0] = cur + len(head.encode())
        if node.kind in "SIFBN":
            out.append(head + node.tok + c + a)
        elif node.kind == "O":
            if not node.members:
                out.append(head + "{}" + c + a)
            else:
                out.append(head + "{" + a)
                for i, (k, m, x) in enumerate(node.members):
                    emit(x, indent + 1, m, i < len(node.members) - 1, k)
                out.append(pad + "}" + c)
        else:
            if not node.items:
                out.append(head + "[]" + c + a)
            else:
                out.append(head + "[" + a)
                for i, x in enumerate(node.items):
                    emit(x, indent + 1, None, i < len(node.items) - 1, None)
                out.append(pad + "]" + c)

    emit(w)
    assert "\n".join(out) == text
    return pos[0]


def replay(ctx, path):
    r = json.load(open(path))
    vc.prepare(ctx)
    o = json.loads(vc.impl(["schema"], [json.dumps({"schema": r["schema"], "ops": [["check"]] + ([["validate", r["example"]]] if "example" in r else [])})])[0])
    ctx.evaluations += 1
    if "violated_rule" in r and o[0] == "ok":
        ctx.report("replay: Check accepts a schema violating its own rule", "c04c:" + r["schema"], r)
    if "example" in r and o[0] == "ok" and o[1] != "ok":
        ctx.report("replay: Check ok but example rejected: %s" % o[1], "c04b:" + r["schema"], r)
