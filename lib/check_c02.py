"""C02 — scalar rules admit exactly the values their definitions describe."""
import datetime, json, re
from fractions import Fraction
import vcommon as vc
import unquote_cases as UQ
import check_c10 as N10


def jtype(tok):
    """kind of a scalar JSON token as json.Guess classifies it"""
    if tok.startswith('"'):
        return "string"
    if tok in ("true", "false"):
        return "boolean"
    if tok == "null":
        return "null"
    st, k = N10.expansion(N10.value(tok))
    dot_noexp = "." in tok and not re.search("[eE]", tok)
    return "float" if (dot_noexp or k > 0) else "integer"


def kind_ok(example_kind, doc_kind, nullable):
    return doc_kind == example_kind or (doc_kind == "integer" and example_kind == "float") or (doc_kind == "null" and nullable)


def decoded(tok):
    return json.loads(tok)


def frac_digits(tok):
    return N10.expansion(N10.value(tok))[1]


def date_ok(s):
    if not re.fullmatch(r"\d{4}-\d{2}-\d{2}", s):
        return False
    y, m, d = int(s[:4]), int(s[5:7]), int(s[8:])
    if y == 0:
        return 1 <= m <= 12 and 1 <= d <= [31, 29, 31, 30, 31, 30, 31, 31, 30, 31, 30, 31][m - 1]
    try:
        datetime.date(y, m, d)
        return True
    except ValueError:
        return False


def uuid_ok(s):
    h = "[0-9a-fA-F]"
    canon = "%s{8}-%s{4}-%s{4}-%s{4}-%s{12}" % (h, h, h, h, h)
    return bool(re.fullmatch(canon, s) or re.fullmatch("(?i:urn:uuid:)" + canon, s) or re.fullmatch(r"\{" + canon + r"\}", s) or re.fullmatch(h + "{32}", s))


class Case:
    def __init__(self, example, rules, probes, sem, label):
        self.example, self.rules, self.probes, self.sem, self.label = example, rules, probes, sem, label   # sem(tok) -> bool: all rules satisfied


def num_cases(rng):
    out = []
    for _ in range(1):
        ex_kind = rng.choice(["integer", "float"])
        a = rng.randint(-20, 20)
        b = a + rng.randint(0, 6)
        xa, xb = rng.choice([None, True, False]), rng.choice([None, True, False])
        mid = a + (b - a) // 2
        if (xa and mid == a) or (xb and mid == b):
            if b - a >= 2:
                mid = a + 1
            else:
                xa = xb = None
        ex = str(mid) if ex_kind == "integer" else ("%d.5" % mid if mid + 0.5 < b or (mid + 0.5 == b and not xb) else "%d.0" % mid)
        if ex_kind == "float" and not (Fraction(a) <= N10.value(ex) <= Fraction(b)):
            ex = "%d.0" % mid
        rules = ["min: %d" % a, "max: %d" % b]
        if xa is not None:
            rules.append("exclusiveMinimum: %s" % str(xa).lower())
        if xb is not None:
            rules.append("exclusiveMaximum: %s" % str(xb).lower())
        rng.shuffle(rules)
        probes = []
        for bound in (a, b):
            for delta in (Fraction(-1), Fraction(-1, 1000), Fraction(0), Fraction(1, 1000), Fraction(1)):
                v = Fraction(bound) + delta
                st, k = N10.expansion(v)
                probes += [st, st + (".0" if k == 0 else "0"), N10.expansion(v * 10)[0] + "e-1", N10.expansion(v / 100)[0] + "E+2"]
        probes += ["-0", "0", "-0.0", '"5"', "true", "null"]

        def sem(tok, a=a, b=b, xa=xa, xb=xb):
            v = N10.value(tok)
            lo = v > a if xa else v >= a
            hi = v < b if xb else v <= b
            return lo and hi
        out.append(Case(ex, rules, probes, sem, "min/max"))
    return out


def precision_cases(rng):
    p = rng.randint(1, 4)
    ex = "1." + "5" * rng.randint(1, p)
    probes = []
    for d in (0, p - 1, p, p + 1, p + 3):
        if d < 0:
            continue
        base = "3" if d == 0 else "3." + "7" * d
        probes += [base, base + "0", base + "00", "-" + base]
        if d > 0:
            probes.append("3" + "7" * d + "e-%d" % d)
            probes.append("0." + "0" * (d - 1) + "7")
    probes += ["12", "1e2", "1.0", '"1.5"', "null"]
    rules = ['type: "decimal"', "precision: %d" % p]
    rng.shuffle(rules)
    return [Case(ex, rules, probes, lambda tok, p=p: frac_digits(tok) <= p, "precision")]


def length_cases(rng):
    n = rng.randint(1, 5)
    m = n + rng.randint(0, 3)
    body = "a" * n
    probes = []
    for L in (0, n - 1, n, n + 1, m - 1, m, m + 1, m + 2):
        if L < 0:
            continue
        probes.append('"%s"' % ("x" * L))
        if L >= 2:
            probes.append('"%s"' % ("é" + "x" * (L - 2)))          # one 2-byte character
        if L >= 1:
            probes.append('"\\u0041%s"' % ("x" * (L - 1)))         # escape = one byte
            probes.append('"\\n%s"' % ("x" * (L - 1)))
    probes += ["1", "null", '"€"', '"\\u20ac"', '"🏆"']
    rules = ["minLength: %d" % n, "maxLength: %d" % m]
    rng.shuffle(rules)
    return [Case('"%s"' % body, rules, probes, lambda tok, n=n, m=m: n <= len(decoded(tok).encode("utf-8")) <= m, "minLength/maxLength")]


def regex_cases(rng):
    out = []
    for pat, ex, probes in [("^[a-z]+$", "abc", ['"abc"', '"abC"', '""', '"a b"', '"\\u0061"', '"x\\n"', '"é"']),
                            ("ab", "xaby", ['"ab"', '"a b"', '"xxabxx"', '"AB"', '"a\\u0062"', '"ba"']),
                            ("^\\\\d{2,3}$", "12", ['"12"', '"123"', '"1234"', '"1"', '"1a"']),
                            ("^(foo|bar)?baz$", "foobaz", ['"baz"', '"foobaz"', '"barbaz"', '"foobarbaz"', '"xbaz"'])]:
        py = re.compile(pat.replace("\\\\", "\\").replace("$", "\\Z"))   # RE2: $ only at the end of the text
        out.append(Case('"%s"' % ex, ['regex: "%s"' % pat], probes + ["1", "null"], lambda tok, py=py: py.search(decoded(tok)) is not None, "regex"))
    return [rng.choice(out)]


def enum_cases(rng):
    items = ['"a"', "1", '"1"', "true", '"true"', "null", "2.5", '"2.5"', '""']
    chosen = rng.sample(items, rng.randint(2, 5))
    ex = chosen[0]
    probes = items + ['"b"', "2", "false", '"null"']

    def sem(tok, chosen=chosen):
        return tok in chosen
    return [Case(ex, ["enum: [%s]" % ", ".join(chosen)], probes, sem, "enum")]


def const_cases(rng):
    ex = rng.choice(['"abc"', "12", "1.5", "true", "null"])
    probes = [ex, '"abd"', "13", "1.6", "false", '"12"']
    flag = rng.choice(["true", "false"])
    return [Case(ex, ["const: %s" % flag], probes, (lambda tok, ex=ex: tok == ex) if flag == "true" else (lambda tok: True), "const")]


NUM_SPELLINGS = {"12": ["12e0", "120e-1", "1.2e1", "1.2E+1", "0.12e2"], "1": ["1e0", "10e-1", "0.1e1", "1E+0"], "0": ["-0", "0.0e1", "-0.0e2"], "100": ["1e2", "1E+2", "1000e-1", "10.0e1"],
                 "1.5": ["1.50", "15e-1", "0.15e1", "1.500"], "2.5": ["2.50", "25e-1", "0.25E+1"], "-3": ["-3e0", "-30e-1", "-0.3e1"]}


def numeq(a, b):
    """equality of two scalar tokens: numbers by value (C10: equality depends only on the normalised expansion), everything else by decoded text and kind"""
    na, nb = N10.RFC.match(a), N10.RFC.match(b)
    if na and nb:
        return N10.value(a) == N10.value(b)
    return a == b


def enum_equal(a, b):
    """membership test of enum: same kind (integer and float are different kinds: 2 is not 2.0) and, for numbers, the same value; other tokens by text"""
    if N10.RFC.match(a) and N10.RFC.match(b):
        return jtype(a) == jtype(b) and N10.value(a) == N10.value(b)
    return a == b


def numeq_cases(rng):
    """const and enum on numbers: a re-spelling of the same number is the same number"""
    out = []
    ex = rng.choice(list(NUM_SPELLINGS))
    probes = [ex] + NUM_SPELLINGS[ex] + [rng.choice(NUM_SPELLINGS[rng.choice(list(NUM_SPELLINGS))]) for _ in range(2)] + ['"%s"' % ex, "7", "7.25"]
    out.append(Case(ex, ["const: true"], probes, lambda tok, ex=ex: numeq(tok, ex), "const"))
    others = rng.sample([k for k in NUM_SPELLINGS if k != ex], 2) + rng.sample(['"a"', '"%s"' % ex, "true"], 1)
    chosen = [ex] + others
    rng.shuffle(chosen)
    out.append(Case(ex, ["enum: [%s]" % ", ".join(chosen)], probes + NUM_SPELLINGS[others[0]][:2], lambda tok, chosen=chosen: any(enum_equal(tok, c) for c in chosen), "enum"))
    return out


def combo_cases(rng):
    """two rule families on one node: enum with look-alike values of several kinds + const: the value must be in the list AND equal the example"""
    items = ['"a"', "1", '"1"', "true", '"true"', "null", '"null"', "2.5", '"2.5"', '""']
    base = rng.choice(["1", '"1"', "true", '"true"', "null", '"null"', "2.5", '"2.5"'])
    twin = base[1:-1] if base.startswith('"') else '"%s"' % base
    chosen = [base, twin] + rng.sample([x for x in items if x not in (base, twin)], rng.randint(0, 2))
    rng.shuffle(chosen)
    flag = rng.choice(["true", "true", "false"])
    rules = ["enum: [%s]" % ", ".join(chosen), "const: %s" % flag]
    rng.shuffle(rules)

    def sem(tok, chosen=chosen, base=base, flag=flag):
        return tok in chosen and (flag == "false" or tok == base)
    return [Case(base, rules, items + ['"b"', "2"], sem, "enum")]


def datetime_ok(s):
    """RFC 3339 section 5.6, written from the grammar: date-time = full-date "T" full-time (T and Z in either case); full-date is a day of the calendar; hour 00-23, minute 00-59,
    second 00-60; time-secfrac = "." 1*DIGIT; time-offset = "Z" / ("+"/"-") hour ":" minute; a second of 60 is the last second of a day of UTC"""
    import re
    m = re.fullmatch(r"(\d{4}-\d{2}-\d{2})[Tt](\d{2}):(\d{2}):(\d{2})(\.\d+)?([Zz]|[+-]\d{2}:\d{2})", s, re.ASCII)
    if not m or not date_ok(m.group(1)):
        return False
    hh, mi, ss = int(m.group(2)), int(m.group(3)), int(m.group(4))
    if hh > 23 or mi > 59 or ss > 60:
        return False
    z = m.group(6)
    off = 0
    if z not in ("Z", "z"):
        oh, om = int(z[1:3]), int(z[4:6])
        if oh > 23 or om > 59:
            return False
        off = (oh * 60 + om) * (-1 if z[0] == "-" else 1)
    return ss != 60 or (hh * 60 + mi - off) % 1440 == 1439


def rand_datetime(rng):
    """a date-time, mostly valid, then mutated in one place with probability 1/2"""
    y, mo, d = rng.choice([1999, 2000, 2016, 2020, 2021, 2100, 9999, 1]), rng.randint(1, 12), rng.randint(1, 31)
    hh, mi, ss = rng.choice([0, 7, 15, 23, 24]), rng.choice([0, 29, 30, 59, 60]), rng.choice([0, 30, 59, 60, 60, 61])
    frac = rng.choice(["", "", ".5", ".123456789", ".", ",5"])
    z = rng.choice(["Z", "z", "+00:00", "-00:00", "+23:59", "-23:59", "+24:00", "+09:00", "-08:00", "+00:30", "-05:30", "+0100", "", "+01:60"])
    if ss == 60 and rng.random() < 0.6:        # steer towards the leap second rule: pick the time that makes it the last second of a UTC day for this zone
        off = 0
        import re
        m = re.fullmatch(r"([+-])(\d\d):(\d\d)", z)
        if m:
            off = (int(m.group(2)) * 60 + int(m.group(3))) * (-1 if m.group(1) == "-" else 1)
        t = (1439 + off) % 1440
        hh, mi = t // 60, t % 60
        if rng.random() < 0.3:
            mi = (mi + 1) % 60
    s = "%04d-%02d-%02d%s%02d:%02d:%02d%s%s" % (y, mo, d, rng.choice(["T", "T", "t", " "]), hh, mi, ss, frac, z)
    if rng.random() < 0.3:
        i = rng.randrange(len(s))
        s = s[:i] + rng.choice(["", "x", "0", ":", "-", " "]) + s[i + rng.choice([0, 1]):]
    return s


def format_cases(rng):
    out = []
    years = ["0000", "0001", "1899", "1900", "2000", "2023", "2024", "2100", "9999"]
    dprobes = ['"%s-%02d-%02d"' % (rng.choice(years), rng.randint(0, 13), rng.randint(0, 32)) for _ in range(25)] + \
              ['"2020-02-29"', '"2021-02-29"', '"1900-02-29"', '"2000-02-29"', '"2020-2-9"', '"2020/02/09"', '" 2020-02-09"', '"2020-02-09 "', '"+2020-02-09"', '"20200209"', '"2020-02-09T00:00:00Z"', '""']
    out.append(Case('"2020-01-31"', ['type: "date"'], dprobes, lambda tok: date_ok(decoded(tok)), "date"))
    u = "550e8400-e29b-41d4-a716-446655440000"
    uprobes = ['"%s"' % x for x in [u, u.upper(), "urn:uuid:" + u, "URN:UUID:" + u, "{" + u + "}", u.replace("-", ""), u[:-1], u + "0", u.replace("e", "g", 1), "{" + u, u.replace("-", ":"), "urn:uuid" + u + ":", ""]]
    out.append(Case('"%s"' % u, ['type: "uuid"'], uprobes, lambda tok: uuid_ok(decoded(tok)), "uuid"))
    out.append(Case('"a@b.cc"', ['type: "email"'], ['"a@b.cc"', '"x.y@z.org"', '"no-at-sign"', '""', '"a@"'], lambda tok: decoded(tok) in ("a@b.cc", "x.y@z.org"), "email"))
    out.append(Case('"http://a.b/c"', ['type: "uri"'], ['"http://a.b/c"', '"https://x.org/p?q=1"', '"no scheme"', '""'], lambda tok: decoded(tok).startswith("http"), "uri"))
    # RFC 3339 section 5.6: date-time = full-date "T" full-time, "T"/"Z" in either case, time-secfrac = "." 1*DIGIT, hour 00-23, minute 00-59, second 00-60 (leap second),
    # time-numoffset = ("+" / "-") hour ":" minute; the date is a day of the calendar
    dt_ok = ["2020-01-01T00:00:00Z", "2020-02-29T23:59:59+02:00", "2020-01-01t00:00:00z", "2020-01-01T00:00:00.5Z", "2020-01-01T00:00:00.123456789-23:59", "2016-12-31T23:59:60Z",
             "2016-12-31T15:59:60.7-08:00", "2017-01-01T08:59:60+09:00", "2017-01-01T00:29:60+00:30", "2016-12-31T18:59:60-05:00", "1985-04-12T23:20:50.52Z", "1996-12-19T16:39:57-08:00", "1937-01-01T12:00:27.87+00:20"]
    dt_bad = ["2021-02-29T00:00:00Z", "2020-01-01 00:00:00", "2020-01-01", "", "2020-01-01T00:00:00,5Z", "2020-01-01T00:00:00.5+24:00", "2020-01-01T00:00:00+23:60", "2020-01-01T1:00:00Z",
              "2020-01-01T24:00:00Z", "2020-01-01T00:60:00Z", "2020-01-01T00:00:61Z", "2020-01-01T00:00:00", "2020-01-01T00:00:00.Z", "2020-13-01T00:00:00Z", "2020-01-01T00:00:00+0100",
              "2020-01-01T00:00:00Zx", " 2020-01-01T00:00:00Z", "20200101T000000Z"]
    assert all(datetime_ok(x) for x in dt_ok) and not any(datetime_ok(x) for x in dt_bad)
    dtp = dt_ok + dt_bad + [rand_datetime(rng) for _ in range(30)]
    out.append(Case('"2020-01-01T00:00:00Z"', ['type: "datetime"'], ['"%s"' % x for x in dtp], lambda tok: datetime_ok(decoded(tok)), "datetime"))
    return [rng.choice(out), out[0] if rng.random() < 0.3 else rng.choice(out)]


def run(ctx):
    st = vc.prepare(ctx)
    if not st["impl"]:
        ctx.report("harness failed to build: " + json.dumps(st["logs"])[:1500], "build", st["logs"], no_input=True)
        return
    quick = ctx.tier == "quick"
    rng = ctx.rng
    ctx.extra["rule"] = ("scalar examples with rule sets Check accepts; probe values on, just inside and just outside every boundary in several spellings (trailing zeros, exponent forms, negative "
                         "zero, multi-byte and escaped strings, every year/month/day boundary for date, the four uuid shapes): Validate verdict = admissible kind AND every rule (min/max with "
                         "exclusive flags, precision as fractional digits of the normalised expansion, minLength/maxLength on the decoded UTF-8 byte length, regex search on the decoded string, "
                         "type-sensitive enum membership, const = example, formats); nullable:true admits null whatever the other rules; rules with value false are inert; date/uuid also "
                         "against the extracted Coq models; non-trivial = probe within one ulp/one byte of a bound")
    ctx.assumptions += ["string length is counted in bytes of the decoded UTF-8 text (the statement says 'decoded string length'; the library and this oracle agree on bytes)",
                        "regex/email/uri are delegated to Go's regexp / net/mail / net/url: only clearly valid and clearly invalid probes are used for them; datetime is the library's own RFC 3339 parser (fix 3e85282): judged by an oracle written from the grammar and by the extracted Coq model"]
    ctx.classifiers["zero_int_then_exp_document"] = lambda case: isinstance(case, dict) and bool(N10.ZERO_INT_EXP.match(case.get("document", "")))
    cases = []
    n = 600 if quick else 6000
    for _ in range(n):
        for gen in (num_cases, precision_cases, length_cases, regex_cases, enum_cases, const_cases, format_cases, combo_cases, numeq_cases):
            cases += gen(rng)
    lines, meta = [], []
    for c in cases:
        for variant in ("plain", "nullable", "false-rules"):
            rules = list(c.rules)
            if variant == "nullable":
                if c.label == "enum":
                    continue
                rules.append("nullable: true")
            elif variant == "false-rules":
                if c.label in ("enum", "const"):
                    continue
                rules += ["nullable: false"] + (["const: false"] if c.label not in ("precision",) else [])
            schema = "%s // {%s}" % (c.example, ", ".join(rules))
            probes = list(dict.fromkeys(c.probes))
            lines.append(json.dumps({"schema": schema, "ops": [["check"]] + [["validate", p] for p in probes]}))
            meta.append((c, variant, schema, probes))
    outs = vc.impl_parallel(["schema"], lines)
    # exponents beyond the machine word: 10^(2^64+k) is not 10^k. The true value of M e+X (M != 0, X >= 2^63) is beyond every bound, so with min and max both present
    # the document must not be accepted (a structured refusal of any kind is fine)
    hx = []
    for _ in range(40 if quick else 400):
        a = rng.randint(-20, 20); b = a + rng.randint(0, 6)
        M = rng.choice([x for x in range(a, b + 1) if x != 0] or [a - 1 or 1])
        ex = str(a)
        for X in (2 ** 64, 2 ** 64 + 1, 2 ** 64 + rng.randint(2, 5), 2 ** 65, 10 ** 20, 2 ** 63, 2 ** 63 - 1 + 2 ** 64, 3 * 2 ** 64):
            for doc in ("%de%d" % (M, X), "%dE+%d" % (M, X), "%d.0e%d" % (M, X)):
                hx.append(("%s // {min: %d, max: %d}" % (ex, a, b), doc))
    houts = vc.impl_parallel(["schema"], [json.dumps({"schema": sc, "ops": [["check"], ["validate", d]]}) for sc, d in hx])
    for (sc, d), o in zip(hx, houts):
        r = json.loads(o)
        ctx.evaluations += 1
        if r[0] == "ok" and r[1] == "ok" and len(ctx.violations) < 60:
            info = {"schema": sc, "document": d, "implementation": r[1], "expected": "reject", "rule": "min/max", "variant": "huge-exponent"}
            ctx.report("min/max: Validate(%s) against %r says ok, the value is beyond every bound (the exponent is read modulo 2^64)" % (d, sc), "c02:" + sc + "|" + d, info, case=info)
    ctx.extra["huge_exponent_probes"] = len(hx)
    fmt_lines = []
    for (c, variant, schema, probes), o in zip(meta, outs):
        r = json.loads(o)
        if r[0] != "ok":
            if len(ctx.violations) < 40:
                ctx.report("Check rejects %r: %s" % (schema, r[0]), "c02check:" + schema, {"schema": schema, "check": r[0], "rule": c.label}, case={"schema": schema})
            continue
        exk = jtype(c.example)
        for p, got in zip(probes, r[1:]):
            ctx.evaluations += 1
            dk = jtype(p)
            nullable = variant == "nullable"
            if dk == "null" and nullable:
                want = True
            elif c.label == "enum":
                want = c.sem(p)
            elif not kind_ok(exk, dk, nullable):
                want = False
            else:
                try:
                    want = c.sem(p)
                except Exception:
                    continue
            ok = got == "ok"
            info = {"schema": schema, "document": p, "implementation": got, "expected": "accept" if want else "reject", "rule": c.label, "variant": variant,
                    "null_with_rules": dk == "null" and nullable and c.label not in ("const",)}
            ctx.nontrivial.add(schema + "|" + p)
            if ok != want and len(ctx.violations) < 60:
                ctx.report("%s: Validate(%s) against %r says %s, the rules say %s" % (c.label, p, schema, got, "accept" if want else "reject"), "c02:" + schema + "|" + p, info, case=info)
            if c.label in ("date", "uuid", "datetime") and dk == "string":
                fmt_lines.append({"date": "d ", "uuid": "u ", "datetime": "t "}[c.label] + (decoded(p).encode("utf-8").hex() or "-"))
    # Coq models of date / uuid against the python oracle (and thereby against the library above)
    if st["model"] and fmt_lines:
        fmt_lines = list(dict.fromkeys(fmt_lines))
        mo = vc.model("formats_model", fmt_lines)
        for l, m in zip(fmt_lines, mo):
            s = bytes.fromhex(l[2:]).decode("utf-8") if l[2:] != "-" else ""
            want = date_ok(s) if l[0] == "d" else (uuid_ok(s) if l[0] == "u" else datetime_ok(s))
            if (m == "T") != want:
                ctx.report("Coq %s model on %r says %s, oracle says %s" % ({"d": "date", "u": "uuid", "t": "datetime"}[l[0]], s, m, want), "c02fmt:" + l, {"line": l, "model": m}, no_input=True)
    UQ.check_unquote(ctx, st, quick, "c02")
    ctx.extra["schemas"] = len(lines)
    ctx.extra["by_rule"] = {k: sum(1 for c, _, _, _ in meta if c.label == k) for k in sorted(set(c.label for c, _, _, _ in meta))}
    ctx.samples.append({"schema": meta[0][2], "probes": meta[0][3][:8]})
    if not st["proof"] and not ctx.violations:
        ctx.report("proof obligation(s) no longer check: %s" % ", ".join(ctx.proof_broken), "proof-broken", {"broken": ctx.proof_broken}, no_input=True)


def replay(ctx, path):
    r = json.load(open(path))
    vc.prepare(ctx)
    run(ctx)
