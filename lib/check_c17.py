"""C17 — errors point at the offending byte and render correctly.
Rendering half: exhaustive small files x all positions against the Coq model and an independent oracle for
LF / CR / CRLF files. Position half (JSON documents): the error position of Document.Check against an independent
LL(1) parser (first byte that cannot continue the text; last byte when the input ends early)."""
import itertools, json, re
import vcommon as vc
import jsonref, jsongen, jsoncheck as jc

ALPHA = [b"a", b" ", b"\t", b"\n", b"\r"]


def kind(content):
    """'lf' | 'cr' | 'crlf' | None (mixed line ends: only totality is required)"""
    if b"\r" not in content:
        return "lf"
    if b"\n" not in content:
        return "cr"
    if re.fullmatch(rb"(?:[^\r\n]|\r\n)*", content):
        return "crlf"
    return None


def oracle(content, p, k):
    term = {"lf": b"\n", "cr": b"\r", "crlf": b"\r\n"}[k]
    # lines with their terminators; the terminator belongs to the line it ends
    pos, ln = 0, 1
    while True:
        j = content.find(term, pos)
        end = len(content) if j < 0 else j
        stop = len(content) if j < 0 else j + len(term)
        if p < stop or j < 0:
            line = content[pos:end]
            break
        pos, ln = stop, ln + 1
    lead = len(line) - len(line.lstrip(b" \t"))
    # the statement: "the text of that line (left-trimmed, truncated at 200 bytes)" - the indentation does not count against the 200 bytes
    trimmed = line.lstrip(b" \t")
    shown = trimmed if len(trimmed) <= 200 else trimmed[:197] + b"..."
    # a line of blanks only: its left-trimmed text is empty and the caret stands at the first column
    caret = max(0, (p - pos) - lead)
    return ln, shown, caret


def judge_render(ctx, label, cases):
    lines = ["%s %d" % (c.hex() or "-", p) for c, p in cases]
    got = vc.impl_parallel(["render"], lines)
    mod = vc.model_parallel("render_model", lines)
    nb = 0
    for (c, p), g, m in zip(cases, got, mod):
        what, noinput = None, False
        if not re.fullmatch(r"\d+\|[0-9a-f]*\|\d+", g):
            what = "rendering an error at %d in %r: %s" % (p, c[:60], g[:200])
        else:
            k = kind(c)
            if k:
                ln, shown, caret = oracle(c, p, k)
                gl, gt, gc = g.split("|")
                if int(gl) != ln:
                    what = "line number for position %d in %r (%s file): rendered %s, expected %d" % (p, c[:60], k, gl, ln)
                elif shown is not None and bytes.fromhex(gt) != shown:
                    what = "source line for position %d in %r: rendered %r, expected %r" % (p, c[:60], bytes.fromhex(gt)[:80], shown[:80])
                elif caret is not None and shown is not None and int(gc) != caret:
                    what = "caret for position %d in %r: %s dashes, expected %d" % (p, c[:60], gc, caret)
            if what is None and g != m:
                what, noinput = "rendering position %d in %r: library %s, Coq model %s" % (p, c[:60], g, m), True
        if what:
            nb += 1
            if len(ctx.violations) < 40:
                ctx.report(what, "render:%s:%d" % (c.hex(), p), {"content_hex": c.hex(), "content": c.decode("latin1"), "position": p, "implementation": g, "model": m,
                                                                "found_in": label}, case=(c, p), no_input=noinput)
    ctx.evaluations += len(cases)
    return nb


def judge_positions(ctx, label, texts):
    res = jc.run_modes(texts, ["c"])
    nb = 0
    for t, r in zip(texts, res):
        g, m = r["c"]
        s = jsonref.strict_result(t)
        if s[0] == "ok":
            want = "ok"
        elif s[0] == "empty":
            want = "E203@0"
        else:
            want = "@%d" % s[1]
        what, noinput = None, False
        if want.startswith("@"):
            if not g.endswith(want) or not g.startswith("E"):
                what = "parse error position for %r: library %s, first byte that cannot continue the text (or last byte of a truncated text) is %s" % (t[:70], g, want)
        elif g != want:
            what = "Check(%r): library %s, expected %s" % (t[:70], g, want)
        if what is None and g != m:
            what, noinput = "Check(%r): library %s, Coq model %s" % (t[:70], g, m), True
        if what:
            nb += 1
            if len(ctx.violations) < 40:
                ctx.report(what, "jsonpos:" + t.hex(), {"text_hex": t.hex(), "text": t.decode("latin1"), "implementation": g, "model": m, "expected": want, "found_in": label},
                           case=t, no_input=noinput)
    ctx.evaluations += len(texts)


def run(ctx):
    st = jc.build(ctx)
    if st is None:
        return
    quick = ctx.tier == "quick"
    rng = ctx.rng
    L = 5 if quick else 7
    ctx.extra["rule"] = ("rendering: every file content over {a, space, tab, LF, CR} up to length L x every position inside it, plus random longer files (long lines > 200 bytes, "
                         "indentation, LF/CR/CRLF) x random positions: no panic, and for LF/CR/CRLF files line number, left-trimmed (truncated) line text and caret offset equal an "
                         "independent oracle; every case also against the Coq model. positions: error position of Document.Check on exhaustive/truncated/mutated JSON texts against an "
                         "independent LL(1) parser. non-trivial = content with a line break and a non-blank byte / text with a structural byte")
    ctx.assumptions += ["validation-error positions are checked for two planted violation classes (unknown key, wrong kind) at every nesting position of generated rule-free schemas",
                        "for files mixing CR and LF irregularly only totality is required"]
    cases = []
    for n in range(1, L + 1):
        for t in itertools.product(ALPHA, repeat=n):
            c = b"".join(t)
            for p in range(n):
                cases.append((c, p))
    ctx.extra["exhaustive_len"] = L
    ctx.extra["exhaustive"] = True
    nr = 3000 if quick else 60000
    for _ in range(nr):
        nl = rng.choice([b"\n", b"\r", b"\r\n"])
        lines = []
        for _ in range(rng.randint(1, 8)):
            ind = rng.choice([b"", b" ", b"  ", b"\t", b" \t "])
            body = bytes(rng.choice(b"abc {}[]\":,1") for _ in range(rng.choice([0, 1, 3, 10, 40, 190, 198, 199, 200, 201, 204, 260])))
            lines.append(ind + body)
        c = nl.join(lines) + (nl if rng.random() < 0.5 else b"")
        if c:
            for _ in range(3):
                cases.append((c, rng.randrange(len(c))))
    corp = []
    for c in jc.corpus("C17"):
        corp += [(c, p) for p in range(len(c))]
    judge_render(ctx, "corpus", corp) if corp else None
    judge_render(ctx, "files x positions", cases)
    # one DocumentError object moved with SetIndex and rendered at each stop: every rendering equals the rendering of a fresh error at that position
    by_content = {}
    for c, p_ in cases:
        by_content.setdefault(c, []).append(p_)
    mv = []
    for c, ps in list(by_content.items())[:: max(1, len(by_content) // (1500 if quick else 20000))]:
        if len(c) >= 2:
            seq = [rng.randrange(len(c)) for _ in range(rng.choice([2, 3, 5]))]
            mv.append((c, seq))
    fresh = vc.impl_parallel(["render"], ["%s %d" % (c.hex(), q) for c, seq in mv for q in seq])
    moved = vc.impl_parallel(["rendermove"], ["%s %s" % (c.hex(), " ".join(map(str, seq))) for c, seq in mv])
    k = 0
    for (c, seq), mo_ in zip(mv, moved):
        want = ";".join(fresh[k:k + len(seq)])
        k += len(seq)
        ctx.evaluations += 1
        if mo_ != want and len(ctx.violations) < 40:
            ctx.report("an error moved with SetIndex through positions %s of %r renders %s, fresh errors at those positions render %s" % (seq, c[:60], mo_[:160], want[:160]),
                       "rendermove:%s:%s" % (c.hex(), seq), {"content_hex": c.hex(), "positions": seq, "moved": mo_, "fresh": want}, case=c)
    ctx.extra["moved_error_cases"] = len(mv)
    for c, p in cases:
        if (b"\n" in c or b"\r" in c) and c.strip(b" \t\r\n"):
            ctx.nontrivial.add((c, p))
    ctx.samples.append({"content": cases[len(cases) // 2][0].decode("latin1"), "position": cases[len(cases) // 2][1]})
    # positions of parse errors
    groups = jc.gen_texts(ctx, quick, exhaustive_len=4 if quick else 5)
    for label, texts in groups:
        texts = list(dict.fromkeys(texts))
        judge_positions(ctx, label, texts)
    judge_validation_positions(ctx, quick)
    judge_schema_truncations(ctx, quick)
    jc.proof_tail(ctx, st, ["C17_*"])


def plant(rng, w, d):
    """returns (new document, marker token, expected code) with ONE planted violation, or None"""
    import jsight as J
    sites = []

    def walk(wn, dn, path):
        if wn.any:
            return
        if wn.kind == "O" and dn[0] == "o":
            sites.append(("key", path))
            for i, (k, x) in enumerate(dn[1]):
                m = [c for c in wn.members if c[0] == k]
                if m:
                    walk(m[0][2], x, path + (i,))
        elif wn.kind == "A" and dn[0] == "a" and wn.items:
            for i, x in enumerate(dn[1]):
                walk(wn.items[min(i, len(wn.items) - 1)], x, path + (i,))
        elif wn.kind in "SIFB" and dn[0] in "sifb":
            sites.append(("kind", path, wn.kind))
    walk(w, d, ())
    if not sites:
        return None
    s = rng.choice(sites)
    if s[0] == "key":
        def f(x):
            ms = list(x[1])
            ms.insert(rng.randrange(len(ms) + 1), ("zz_unknown_zz", rng.choice([("i", "1"), ("s", '"v"'), ("o", [("x", ("i", "5"))]), ("a", [("i", "1")]), ("n", "null")])))
            return ("o", ms)
        return J.replace_at(d, s[1], f), '"zz_unknown_zz"', "E206"
    tok = '"zz_wrong_zz"' if s[2] != "S" else "424242"
    return J.replace_at(d, s[1], lambda x: ("s" if s[2] != "S" else "i", tok)), tok, "E210"


def judge_validation_positions(ctx, quick):
    """a validation error's position is the start of the offending value or key in the document"""
    import jsight as J
    rng = ctx.rng
    lines, meta = [], []
    for _ in range(300 if quick else 10000):
        w = J.rand_schema(rng, rng.randint(1, 4))
        import check_c01
        if w.kind not in "OA":
            continue
        if rng.random() < 0.5:
            # additionalProperties: false written out: an unknown key is refused all the same, AT THE KEY
            for x in J.all_nodes(w):
                if x.kind == "O" and not x.any and not any(r_[0] == "additionalProperties" for r_ in x.rules):
                    x.rules.append(("additionalProperties", "false"))
        d = J.conforming(rng, w, False)
        p = plant(rng, w, d)
        if p is None:
            continue
        d2, marker, code = p
        text = J.print_doc(d2, rng)
        if text.count(marker) != 1:
            continue
        lines.append(json.dumps({"schema": J.print_schema(w, rng), "ops": [["check"], ["validate", text]]}))
        meta.append((text, marker, code))
    outs = vc.impl_parallel(["schema"], lines) if lines else []
    for l, (text, marker, code), o in zip(lines, meta, outs):
        r = json.loads(o)
        ctx.evaluations += 1
        if r[0] != "ok":
            continue
        want = "%s@%d" % (code, len(text[:text.index(marker)].encode()))
        if r[1] != want and len(ctx.violations) < 40:
            ctx.report("validation error position: library %s, the offending %s starts at %s; document %r" % (r[1], "key" if code == "E206" else "value", want, text[:120]),
                       "valpos:" + l, {"schema": json.loads(l)["schema"], "document": text, "implementation": r[1], "expected": want}, case=text)
    ctx.extra["validation_position_cases"] = len(lines)


def judge_schema_truncations(ctx, quick):
    """schema and enum texts that end inside an opener (the first byte of // or /*, an unclosed ### comment, an unclosed /*): the input ends early, so Check fails at the last byte;
    and ## followed by a byte other than #: the first byte that cannot continue the text is that byte"""
    import jsight as J
    rng = ctx.rng
    # bases without annotations or comments on their last line (after an annotation the rest of the line belongs to it)
    bases = ["1", "{}", "[]", '"s"', '{\n  "a": 1\n}', "true // {const: true}\n"] + [J.plain_json(J.rand_rule_schema(rng, rng.randint(0, 2))) for _ in range(20 if quick else 300)]
    cases = []
    for b in bases:
        sep = " " if not b.endswith("\n") else ""
        for suf in ("/", "/*", "/* {min: 1", "/* c", "###", "### x", "### x ##", "### x #\n y"):
            t = b + sep + suf
            cases.append((t, len(t.encode()) - 1, "the text ends inside %r" % suf))
        for suf, off in (("##x", 2), ("## c", 2), ("##\n", 2)):
            t = b + sep + suf
            cases.append((t, len((b + sep).encode()) + off, "after ## only # can follow"))
    cases.append(("/", 0, "the text ends inside '/'"))
    outs = vc.impl(["schema"], [json.dumps({"schema": t, "ops": [["check"]]}) for t, _, _ in cases])
    for (t, want, why), o in zip(cases, outs):
        r = json.loads(o)[0]
        ctx.evaluations += 1
        # where an annotation is not allowed at all (after the closing bracket of a non-empty array, ...) the slash itself is the offending byte (304)
        slash = t.rfind(" /")
        if r == "E304@%d" % (slash + 1) and slash >= 0 and "/" in why:
            continue
        if (r == "ok" or not r.endswith("@%d" % want)) and len(ctx.violations) < 40:
            ctx.report("schema parse error position: Check(%r) says %s, %s: expected an error at %d" % (t[-40:], r, why, want), "schemapos:" + t, {"schema": t, "implementation": r, "expected_position": want, "why": why}, case=t)
    dups = [("1 // {min: 1, min:     2}", 14), ('1 // {"min": 1, "min":     2}', 16), ('"a" // {minLength: 1, regex: "a", minLength:   2}', 34), ("1 /* {min: 1,\n    min: 2} */", 18),
            ("{\n  \"k\": 1 // {optional: true, optional:  false}\n}", 31)]
    for (t, want), o in zip(dups, vc.impl(["schema"], [json.dumps({"schema": t, "ops": [["check"]]}) for t, _ in dups])):
        r = json.loads(o)[0]
        ctx.evaluations += 1
        if r != "E501@%d" % want and len(ctx.violations) < 40:
            ctx.report("a rule written twice: Check(%r) says %s, the repeated rule name starts at %d" % (t, r, want), "schemapos:" + t, {"schema": t, "implementation": r, "expected_position": want}, case=t)
    ecases = [("[1] /", 4), ("[1]/", 3), ('["a", "b"] /*', 12), ("[1 /", 3)]
    for (t, want), o in zip(ecases, vc.impl(["enumrule"], [json.dumps({"text": t}) for t, _ in ecases])):
        r = json.loads(o)[0]
        ctx.evaluations += 1
        if (r == "ok" or not r.endswith("@%d" % want)) and len(ctx.violations) < 40:
            ctx.report("enum rule parse error position: Check(%r) says %s, the text ends inside an opener: expected an error at %d" % (t, r, want), "enumpos:" + t, {"enum": t, "implementation": r, "expected_position": want}, case=t)
    ctx.extra["schema_truncation_cases"] = len(cases) + len(ecases)


def replay(ctx, path):
    r = json.load(open(path))
    st = jc.build(ctx)
    if st is None:
        return
    if "content_hex" in r:
        judge_render(ctx, "replay", [(bytes.fromhex(r["content_hex"]), r["position"])])
    else:
        judge_positions(ctx, "replay", [bytes.fromhex(r["text_hex"])])
