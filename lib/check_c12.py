"""C12 — a loaded schema can be shared by concurrent goroutines."""
import json, os, re
import vcommon as vc


def run_mode(ctx, secs, ng, mode):
    exe = os.path.join(vc.BUILD, "implrun-race")
    rc, o, e = vc.sh([exe, "concrace", str(secs), str(ctx.seed), str(ng), mode], timeout=secs * 10 + 180, env=vc.GOENV)
    summary = [l for l in o.splitlines() if l.startswith("concrace:")]
    m = re.search(r"operations=(\d+)", summary[-1]) if summary else None
    ctx.evaluations += int(m.group(1)) if m else 0
    ctx.extra.setdefault("runs", []).append(summary[-1] if summary else "no summary (rc=%d)" % rc)
    races = e.count("WARNING: DATA RACE")
    incons = [l for l in o.splitlines() if l.startswith("INCONSISTENT")]
    info = {"mode": mode, "goroutines": ng, "seconds": secs, "cmd": "build/implrun-race concrace %d %d %d %s" % (secs, ctx.seed, ng, mode), "stdout": o[-2000:], "stderr": e[-6000:],
            "races": races, "inconsistent": incons[:5]}
    if incons:
        ctx.report("concurrent calls return something else than the sequential run: %s" % incons[0][:300], "c12i:" + mode + incons[0], info, case=info)
    if races:
        # which code races: the first frames of the first report
        frames = re.findall(r"^\s+(github\.com/jsightapi/\S+)\(\)", e, re.M)[:12]
        info["first_frames"] = frames
        info["allOf_only"] = all(("allOfConstraintCompiler" in r or "CompileAllOf" in r) for r in race_sites(e))
        ctx.report("data race under the race detector in mode %s with %d goroutines (%d reports); first frames: %s" % (mode, ng, races, frames[:3]), "c12r:" + mode + "|".join(frames[:4]), info, case=info)
    if rc not in (0, 66) and not races and not incons:
        ctx.report("concurrency stress ended abnormally (rc=%d): %s" % (rc, (e or o)[-300:]), "c12x:" + mode, info, case=info)


def race_sites(stderr):
    """for each race report, the set of library frames of both stacks; returns one string per report"""
    out = []
    for rep in stderr.split("WARNING: DATA RACE")[1:]:
        rep = rep.split("==================")[0]
        out.append(" ".join(re.findall(r"jsight-schema-go-library/(\S+)\(\)", rep)))
    return out


def run(ctx):
    st = vc.prepare(ctx, need_model=False)
    ok, l = vc.build_implrun(race=True)
    if not st["impl"] or not ok:
        ctx.report("race-instrumented harness failed to build: " + (l or "")[-800:], "build", {"log": l}, no_input=True)
        return
    quick = ctx.tier == "quick"
    ctx.classifiers["race_in_allOf_on_shared_type"] = lambda case: isinstance(case, dict) and case.get("mode") == "shared-types" and case.get("races") and case.get("allOf_only") and not case.get("inconsistent")
    ctx.extra["rule"] = ("goroutines (quick: 8 and 16; thorough: 2..32) issue random mixes of Check, Validate (own document), Len, Example, GetAST, UsedUserTypes against 5 shared schemas (user types, "
                         "recursion, allOf, a schema Check rejects, decimal rules) re-created every round so that the first use is raced again and again, while every third goroutine creates, compiles "
                         "and uses private schemas - in mode shared-types from the same user-type objects; run in the -race build; every result is compared with the sequential result on fresh "
                         "objects; non-trivial = every operation (all are concurrent)")
    ctx.assumptions += ["real data races and the Go scheduler are outside what a Gallina model can exhibit: the theorems (C12_once_*) are about the once-cell state machine; races are observed, not proved absent",
                        "injected yields: time.Sleep(1us) on a quarter of the operations"]
    plans = [(4, 8, "private"), (4, 16, "shared-types")] if quick else [(20, n, m) for n in (2, 4, 8, 16, 32) for m in ("private", "shared-types")]
    for secs, ng, mode in plans:
        run_mode(ctx, secs, ng, mode)
    ctx.nontrivial.update(range(min(ctx.evaluations, 100000)))
    ctx.samples.append({"plans": plans, "runs": ctx.extra.get("runs")})
    if not st["proof"] and not ctx.violations:
        ctx.report("proof obligation(s) no longer check: %s" % ", ".join(ctx.proof_broken), "proof-broken", {"broken": ctx.proof_broken}, no_input=True)


def replay(ctx, path):
    run(ctx)
