"""C03 — type references, or, allOf and additionalProperties compose as set operations."""
import json, copy, re
import vcommon as vc
import jsight as J

# ---- abstract nodes (tuples) ----
# ("int", lo, hi, nullable) | ("str", nullable) | ("bool",) | ("null",)
# ("obj", [(key, optional, node)], addp, allof_names)      addp: None | "any" | "string" | "integer" | "@name" | False
# ("arr", [node...])
# ("ref", [names], nullable)                                @a | @b   (shortcut)
# ("orsets", [alt...], example_tok)                         {or: [ {type: "integer", min: 0}, {type: "string"}, "@t" ]}  alt: ("int",lo,hi)|("str",)|("refname", name)
# ("kshort", keytype_name, node) appears as an object member with key "@K"


def gen_types(rng, n):
    env = {}
    names = ["@t%d" % i for i in range(n)]
    for i, nm in enumerate(names):
        r = rng.random()
        earlier = names[:i] if rng.random() < 0.8 else names      # mostly acyclic; sometimes (optionally) recursive
        if r < 0.25 or not names[:i]:
            lo = rng.choice([None, 0, 5]); hi = rng.choice([None, 10, 7])
            env[nm] = rng.choice([("int", lo, hi, False), ("str", False), ("int", None, None, False), ("bool",)])
        elif r < 0.65:
            ms = []
            for k in rng.sample(["a", "b", "c", "d"], rng.randint(1, 3)):
                q = rng.random()
                opt = rng.random() < 0.4
                if q < 0.35:
                    ms.append((k, opt, ("ref", rng.sample(earlier, min(len(earlier), rng.choice([1, 1, 2, 3]))), rng.random() < 0.2)))
                elif q < 0.5:
                    ms.append((k, opt, ("arr", [("ref", rng.sample(earlier, min(len(earlier), rng.choice([1, 2]))), False)])))
                elif q < 0.6 and i > 0:
                    ms.append((k, True, ("ref", [nm], False)))          # optional self-recursion
                else:
                    ms.append((k, opt, rng.choice([("int", None, None, False), ("str", False), ("bool",)])))
            addp = rng.choice([None, None, "any", "string", "integer", False, rng.choice(names[:i] or [None])])
            env[nm] = ("obj", ms, addp, [])
        elif r < 0.8:
            items = [("ref", rng.sample(earlier, min(len(earlier), rng.choice([1, 2, 2]))), False)]
            if rng.random() < 0.5:      # positional examples after a union: element i is governed by example element min(i, last)
                items += rng.sample([("str", False), ("int", None, None, False), ("bool",)], rng.choice([1, 2]))
            env[nm] = ("arr", items)
        else:
            env[nm] = ("ref", rng.sample(names[:i], min(i, rng.choice([1, 2, 2, 3]))), rng.random() < 0.4)   # alias / union type, possibly nullable
    # allOf: an object type may inherit from earlier object types that have no allOf cycles
    objs = [nm for nm in names if env[nm][0] == "obj"]
    for nm in objs:
        cands = [o for o in objs if names.index(o) < names.index(nm)]
        if cands and rng.random() < 0.35:
            parents = rng.sample(cands, min(len(cands), rng.choice([1, 1, 2])))
            own = set(k for k, _, _ in env[nm][1])
            ok = True
            seen = set(own)
            for p in parents:
                for k in all_props(env, p):
                    if k in seen:
                        ok = False
                    seen.add(k)
            same_addp = all(env[p][2] == env[nm][2] for p in parents)
            if ok and same_addp:
                env[nm] = ("obj", env[nm][1], env[nm][2], parents)
    return names, env


def all_props(env, nm, depth=0):
    t = env[nm]
    ks = [k for k, _, _ in t[1]]
    for p in t[3]:
        ks += all_props(env, p, depth + 1)
    return ks


def members_with_inherited(env, t):
    ms = list(t[1])
    for p in t[3]:
        ms += members_with_inherited(env, env[p])
    return ms


def effective_addp(env, t):
    """additionalProperties of an object: its own rule, else the rule inherited from an allOf parent (the library copies the parent's rule; two different rules are a Check error)"""
    if t[2] is not None:
        return t[2]
    for p in t[3]:
        a = effective_addp(env, env[p])
        if a is not None:
            return a
    return None


# ---- denotational semantics ----
AP_KINDS = {"string": "s", "integer": "i", "boolean": "b", "null": "n", "object": "o", "array": "a"}


BARE_KEY_TYPE_IS_LITERAL = [False]


def accepts_pinned(env, node, d):
    BARE_KEY_TYPE_IS_LITERAL[0] = True
    try:
        return accepts(env, node, d)
    finally:
        BARE_KEY_TYPE_IS_LITERAL[0] = False


def has_bare_key_type(env, node):
    if node[0] == "obj":
        return any((k.startswith("@") and env.get(k) == ("str", False)) or has_bare_key_type(env, x) for k, _, x in node[1])
    if node[0] == "arr":
        return any(has_bare_key_type(env, x) for x in node[1])
    return False


def accepts(env, node, d, fuel=60):
    if fuel <= 0:
        return False
    k = node[0]
    if k == "int":
        if d[0] == "n":
            return node[3]
        if d[0] != "i":
            return False
        v = int(J_value(d[1]))
        return (node[1] is None or v >= node[1]) and (node[2] is None or v <= node[2])
    if k == "str":
        return d[0] == "s" or (d[0] == "n" and node[1])
    if k == "bool":
        return d[0] == "b"
    if k == "null":
        return d[0] == "n"
    if k == "ref":
        if d[0] == "n" and node[2]:
            return True
        return any(accepts(env, env[n], d, fuel - 1) for n in node[1])
    if k == "strl":                                  # string with length bounds (bytes of the decoded text; ASCII here)
        return d[0] == "s" and node[1] <= len(json.loads(d[1])) <= node[2]
    if k == "strre":
        return d[0] == "s" and re.search(node[1], json.loads(d[1])) is not None
    if k == "strfmt":                                # a string format: only clearly valid / clearly invalid probes are used
        if d[0] != "s":
            return False
        v = json.loads(d[1])
        return {"email": v == "a@b.cc", "uuid": v == "550e8400-e29b-41d4-a716-446655440000"}[node[1]]
    if k == "dec":                                   # decimal with precision p: a number with at most p fractional digits
        import check_c10 as N10
        return d[0] in "if" and N10.expansion(N10.value(d[1]))[1] <= node[1]
    if k == "num":                                   # {min: m} without a type: a number >= m
        import check_c10 as N10
        return d[0] in "if" and N10.value(d[1]) >= node[1]
    if k == "tref":                                  # <example> // {type: "@T", nullable}
        return (d[0] == "n" and node[2]) or accepts(env, env[node[1]], d, fuel - 1)
    if k == "orform":                                # <example> // {or: [alt...], nullable}
        return (d[0] == "n" and node[2]) or any(accepts(env, alt_node(a), d, fuel - 1) for a in node[1])
    if k == "arr":
        if d[0] != "a":
            return False
        if not node[1]:
            return not d[1]
        return all(accepts(env, node[1][min(i, len(node[1]) - 1)], x, fuel - 1) for i, x in enumerate(d[1]))
    if k == "obj":
        if d[0] != "o":
            return False
        ms = members_with_inherited(env, node)
        keys = [kk for kk, _ in d[1]]
        for kk, opt, _ in ms:
            if not opt and not kk.startswith("@") and kk not in keys:
                return False
        shortcuts = [c for c in ms if c[0].startswith("@")]
        under = []                                   # for every property that key shortcuts admit: the shortcuts whose entry its value fits
        for kk, x in d[1]:
            m = [c for c in ms if c[0] == kk and not c[0].startswith("@")]
            if m:
                if not accepts(env, m[0][2], x, fuel - 1):
                    return False
                continue
            # key shortcut @K: v admits under that entry any key accepted by the string type @K; several shortcuts may admit the key: the value has to fit
            # the entry of one of them
            if BARE_KEY_TYPE_IS_LITERAL[0]:   # the library's (pinned) reading: a key type that is a bare example stands for that very key
                m = [c for c in shortcuts if (kk == "s" if env[c[0]] == ("str", False) else accepts(env, env[c[0]], ("s", json.dumps(kk)), fuel - 1))]
            else:
                m = [c for c in shortcuts if accepts(env, env[c[0]], ("s", json.dumps(kk)), fuel - 1)]
            if m:
                fits = [c[0] for c in m if accepts(env, c[2], x, fuel - 1)]
                if not fits:
                    return False
                under.append(fits)
            else:
                a = effective_addp(env, node)
                if a is None or a is False:
                    return False
                if a == "any":
                    continue
                if a in AP_KINDS:
                    if x[0] != AP_KINDS[a]:
                        return False
                elif not accepts(env, env[a], x, fuel - 1):
                    return False
        # a required entry needs a property of its own: the required key shortcuts must be assigned different properties (judged only when the object has
        # several shortcuts or JUDGE_REQUIRED_SHORTCUTS is set; see rule_form_cases for the single-shortcut policy)
        req = [c[0] for c in shortcuts if not c[1]]
        if req and (len(shortcuts) > 1 or JUDGE_REQUIRED_SHORTCUTS[0]):
            owner = {}

            def assign(sc, seen):
                for i, fits in enumerate(under):
                    if i in seen or sc not in fits:
                        continue
                    seen.add(i)
                    if i not in owner or assign(owner[i], seen):
                        owner[i] = sc
                        return True
                return False
            for sc in req:
                if not assign(sc, set()):
                    return False
        return True
    raise ValueError(k)


JUDGE_REQUIRED_SHORTCUTS = [True]


def alt_node(a):
    """an or-alternative as a node: "@T" -> reference; ("int", lo, hi) / ("strl", lo, hi) inline rule-sets; ("t", "@T") = {type: "@T"}"""
    if isinstance(a, str):
        return ("ref", [a], False)
    if a[0] == "t":
        return ("ref", [a[1]], False)
    if a[0] == "int":
        return ("int", a[1], a[2], False)
    if a[0] == "boolalt":
        return ("bool",)
    if a[0] == "fmt":
        return ("strfmt", a[1])
    if a[0] == "dec":
        return ("dec", a[1])
    if a[0] == "untyped-len":
        return ("strl", a[1], a[2])
    if a[0] == "untyped-min":          # min goes with integer and float: the kind of the outer example is kept when it is one of them, otherwise float
        return ("int", a[1], None, False) if a[2] == "i" else ("num", a[1])
    return a


def print_alt(a):
    if isinstance(a, str):
        return json.dumps(a)
    if a[0] == "t":
        return '{type: "%s"}' % a[1]
    if a[0] == "int":
        return "{%s}" % ", ".join(['type: "integer"'] + (["min: %d" % a[1]] if a[1] is not None else []) + (["max: %d" % a[2]] if a[2] is not None else []))
    if a[0] == "strl":
        return '{type: "string", minLength: %d, maxLength: %d}' % (a[1], a[2])
    if a[0] == "boolalt":
        return '{type: "boolean"}'
    if a[0] == "fmt":
        return '{type: "%s"}' % a[1]
    if a[0] == "dec":
        return '{type: "decimal", precision: %d}' % a[1]
    if a[0] == "untyped-len":
        return "{minLength: %d, maxLength: %d}" % (a[1], a[2])
    if a[0] == "untyped-min":
        return "{min: %d}" % a[1]
    raise ValueError(a)


def J_value(tok):
    import check_c10 as N10
    return int(N10.value(tok))


# ---- printing ----
def print_node(env, node, indent=0, key=None, comma=False, optional=False):
    pad = "  " * indent
    head = pad + (json.dumps(key) + ": " if key is not None else "")
    c = "," if comma else ""
    rules = ["optional: true"] if optional else []
    k = node[0]
    if k == "int":
        ex = 5 if (node[1] in (None, 0, 5) and node[2] in (None, 10, 7)) else 1
        rs = rules + (["min: %d" % node[1]] if node[1] is not None else []) + (["max: %d" % node[2]] if node[2] is not None else []) + (["nullable: true"] if node[3] else [])
        return head + str(ex) + c + J.annot(rs)
    if k == "str":
        return head + '"s"' + c + J.annot(rules + (["nullable: true"] if node[1] else []))
    if k == "bool":
        return head + "true" + c + J.annot(rules)
    if k == "null":
        return head + "null" + c + J.annot(rules)
    if k == "ref":
        return head + " | ".join(node[1]) + c + J.annot(rules + (["nullable: true"] if node[2] else []))
    if k == "strl":
        return head + json.dumps("x" * node[1]) + c + J.annot(rules + ["minLength: %d" % node[1], "maxLength: %d" % node[2]])
    if k == "strre":
        return head + json.dumps(node[2]) + c + J.annot(rules + ["regex: %s" % json.dumps(node[1])])
    if k == "tref":
        return head + node[3] + c + J.annot(rules + ['type: "%s"' % node[1]] + (["nullable: true"] if node[2] else []))
    if k == "orform":
        return head + node[3] + c + J.annot(rules + ["or: [%s]" % ", ".join(print_alt(a) for a in node[1])] + (["nullable: true"] if node[2] else []))
    if k == "arr":
        lines = [head + "[" + J.annot(rules)]
        for i, x in enumerate(node[1]):
            lines.append(print_node(env, x, indent + 1, None, i < len(node[1]) - 1))
        lines.append(pad + "]" + c)
        return "\n".join(lines)
    if k == "obj":
        rs = list(rules)
        if node[2] is not None:
            rs.append("additionalProperties: %s" % ("false" if node[2] is False else ("true" if node[2] == "any" else json.dumps(node[2]))))
        if node[3]:
            rs.append("allOf: %s" % (json.dumps(node[3][0]) if len(node[3]) == 1 else json.dumps(node[3])))
        lines = [head + "{" + J.annot(rs)]
        for i, (kk, opt, x) in enumerate(node[1]):
            t = print_node(env, x, indent + 1, kk, i < len(node[1]) - 1, opt)
            if kk.startswith("@"):
                t = t.replace(json.dumps(kk) + ": ", kk + ": ", 1)      # key shortcut: the type name stands bare in key position
            lines.append(t)
        lines.append(pad + "}" + c)
        return "\n".join(lines)
    raise ValueError(k)


# ---- inhabitants ----
def inhabitant(rng, env, node, fuel=8):
    k = node[0]
    if k == "int":
        lo = node[1] if node[1] is not None else -3
        hi = node[2] if node[2] is not None else 20
        if lo > hi:
            return None
        return ("i", str(rng.randint(lo, hi)))
    if k == "str":
        return ("s", rng.choice(['"x"', '"yy"']))
    if k == "bool":
        return ("b", "true")
    if k == "null":
        return ("n", "null")
    if k == "ref":
        if fuel <= 0:
            return None
        for n in rng.sample(node[1], len(node[1])):
            d = inhabitant(rng, env, env[n], fuel - 1)
            if d is not None:
                return d
        return None
    if k == "arr":
        if not node[1] or fuel <= 0:
            return ("a", [])
        out = []
        for i in range(rng.choice([0, 1, 2, 3, len(node[1]), len(node[1]) + 1])):
            d = inhabitant(rng, env, node[1][min(i, len(node[1]) - 1)], fuel - 1)
            if d is None:
                break
            out.append(d)
        return ("a", out)
    if k == "obj":
        ms = []
        for kk, opt, x in members_with_inherited(env, node):
            if opt and (fuel <= 1 or rng.random() < 0.5):
                continue
            d = inhabitant(rng, env, x, fuel - 1)
            if d is None:
                if opt:
                    continue
                return None
            ms.append((kk, d))
        if node[2] not in (None, False) and rng.random() < 0.4:
            a = node[2]
            extra = {"any": ("b", "false"), "string": ("s", '"z"'), "integer": ("i", "3")}.get(a) or inhabitant(rng, env, env[a], fuel - 2)
            if extra is not None:
                ms.append(("extra", extra))
        rng.shuffle(ms)
        return ("o", ms)


SCALAR_PROBES = [("s", '"a@b.cc"'), ("s", '"550e8400-e29b-41d4-a716-446655440000"'), ("f", "0.5"), ("f", "2.25"), ("i", "-1"), ("i", "0"), ("i", "3"), ("i", "5"), ("i", "9"), ("i", "10"), ("i", "11"), ("i", "99"), ("s", '""'), ("s", '"x"'), ("s", '"xx"'), ("s", '"xxx"'), ("s", '"xxxx"'),
                 ("s", '"abc"'), ("s", '"ab1"'), ("b", "true"), ("n", "null"), ("o", []), ("a", [])]


def rule_form_cases(rng, n):
    """the reference forms of the statement other than the bare shortcut: {type: "@T"}, {or: [...]} with type names and inline rule-sets, each with and
    without nullable (null is the ONLY extra value nullable admits), and key shortcuts @K: v"""
    out = []
    for _ in range(n):
        lo = rng.choice([0, 3, 5]); hi = rng.choice([5, 9, 10])
        l1 = rng.choice([0, 1, 2]); l2 = l1 + rng.choice([0, 1, 2])
        env = {"@I": ("int", lo, hi, False), "@S": ("strl", l1, l2), "@R": ("strre", "^[a-c]+$", "abc"), "@B": ("bool",),
               "@U": ("ref", ["@I", "@S"], False), "@O": ("obj", [("id", False, ("int", None, None, False))], None, [])}
        names = ["@I", "@S", "@R", "@B", "@U", "@O"]
        ex = {"@I": str(lo), "@S": json.dumps("x" * l1), "@R": '"abc"', "@B": "true", "@U": str(lo)}
        form = rng.choice(["tref", "tref", "or-names", "or-sets", "or-kinds", "or-kinds", "or-mixed", "kshort", "kshort"])
        nullable = rng.random() < 0.5
        if form == "tref":
            t = rng.choice(["@I", "@S", "@R", "@B", "@U"])
            node = ("tref", t, nullable, ex[t])
        elif form == "or-names":
            ts = rng.sample(["@I", "@S", "@R", "@B"], 2)
            node = ("orform", ts, nullable, ex[ts[0]])
        elif form == "or-sets":
            a1 = ("int", rng.choice([None, 3, 10]), rng.choice([None, 10, 99]))
            a2 = ("strl", l1, l2)
            alts = [a1, a2]
            rng.shuffle(alts)
            node = ("orform", alts, nullable, str(a1[1] if a1[1] is not None else 5))
        elif form == "or-sets" and False:
            pass
        elif form == "or-kinds":
            # the JSON kind of an alternative follows what the rule-set declares (a string format, decimal = float) or, without a type, what its rules leave
            alts = rng.sample([("fmt", "email"), ("fmt", "uuid"), ("dec", 1), ("untyped-len", l1, l2), ("untyped-min", lo)], 1) + [rng.choice([("int", None, None), ("strl", 0, 0), ("boolalt",)])]
            rng.shuffle(alts)
            exmap = {"int": "5", "strl": '""', "boolalt": "true"}
            exk = [a for a in alts if a[0] in exmap][0][0]
            alts = [(a + ("i" if exk == "int" else "x",)) if a[0] == "untyped-min" else a for a in alts]
            node = ("orform", alts, nullable, exmap[exk])
        elif form == "or-mixed":
            alts = [("t", "@I"), ("strl", l1, l2)] if rng.random() < 0.5 else ["@S", ("int", 10, 99)]
            node = ("orform", alts, nullable, ex["@I"] if alts[0] == ("t", "@I") else ex["@S"])
        else:
            node = None
        if node is not None:
            where = rng.choice(["root", "prop", "item"])
            root = node if where == "root" else (("obj", [("p", rng.random() < 0.3, node), ("q", True, ("bool",))], None, []) if where == "prop" else ("arr", [node]))
            docs = []
            for d in SCALAR_PROBES:
                docs.append(d if where == "root" else (("o", [("p", d)]) if where == "prop" else ("a", [d, ("i", str(lo))] if rng.random() < 0.3 else [d])))
        else:
            # the key type in every form a string type can take: rules the object validator knows (regex, lengths), a plain string example, an alias, a union of
            # string types, a {type: "@S"} reference
            env["@P"] = ("str", False); env["@AL"] = ("ref", ["@S"], False); env["@SU"] = ("ref", ["@S", "@R"], False); env["@TS"] = ("tref", "@S", False, json.dumps("x" * l1))
            names = names + ["@P", "@AL", "@SU", "@TS"]
            K = rng.choice(["@R", "@S", "@R", "@S", "@P", "@AL", "@SU", "@TS"])
            v = rng.choice([("int", None, None, False), ("ref", ["@I"], False), ("strl", 1, 2)])
            addp = rng.choice([None, None, False, "boolean"])
            members = [("a", rng.random() < 0.5, ("int", None, None, False)), (K, rng.random() < 0.5, v)]
            if rng.random() < 0.5:
                # a second key shortcut whose key type overlaps the first one's: a key both admit stands under the entry its value fits; every required
                # shortcut needs a property of its own
                K2 = rng.choice([k for k in ["@R", "@S", "@AL", "@SU", "@TS"] if k != K])
                v2 = rng.choice([("strl", 1, 2), ("bool",), ("int", None, None, False), ("ref", ["@I"], False)])
                members.append((K2, rng.random() < 0.4, v2))
            root = ("obj", members, addp, [])
            keys = ["abc", "b", "cab", "abd", "x", "xx", "xxx", "", "a1", "zz"]
            vals = [("i", "1"), ("i", str(lo)), ("i", "-7"), ("s", '"x"'), ("s", '"xxx"'), ("b", "true"), ("n", "null")]
            docs = []
            for _ in range(12):
                ms = ([("a", ("i", "1"))] if rng.random() < 0.8 else []) + [(k, rng.choice(vals)) for k in rng.sample(keys, rng.choice([0, 1, 1, 2, 3]))]
                rng.shuffle(ms)
                docs.append(("o", ms))      # (a required shortcut entry without a property of its own is a missing required property: 205)
        out.append((names, env, root, docs))
    return out


def allof_stream(rng, n):
    """allOf children without required own keys whose parents are also used directly; nullable unions reached through references"""
    out = []
    for _ in range(n):
        env = {"@B": ("obj", [("b", False, ("int", None, None, False))], None, []), "@C": ("obj", [("c", False, ("str", False)), ("c2", True, ("bool",))], None, []),
               "@I": ("int", 0, None, False), "@S": ("str", False)}
        own = rng.choice([[], [("o", True, ("bool",))], [("o", False, ("bool",))]])
        env["@K"] = ("obj", own, None, rng.choice([["@B", "@C"], ["@C", "@B"], ["@B"]]))
        env["@T"] = ("ref", ["@I", "@S"], True)
        env["@U"] = ("ref", ["@T"], False)
        names = ["@B", "@C", "@I", "@S", "@K", "@T", "@U"]
        root = ("obj", [("combined", False, ("ref", ["@K"], False)), ("plain", rng.random() < 0.3, ("ref", [rng.choice(["@B", "@C"])], False)),
                        ("u", True, ("ref", [rng.choice(["@T", "@U"])], False)), ("arr", True, ("arr", [("ref", [rng.choice(["@T", "@U"]), "@B"], False)]))], None, [])
        # a parent without properties still hands down its additionalProperties rule
        eap = rng.choice(["string", "integer", "any", "@I", False])
        env["@E"] = ("obj", [], eap, [])
        env["@KE"] = ("obj", rng.choice([[], [("own", False, ("bool",))]]), None, rng.choice([["@E"], ["@B", "@E"], ["@E", "@C"]]))
        names += ["@E", "@KE"]
        root[1].append(("ke", True, ("ref", ["@KE"], False)))
        docs = []
        for _ in range(4):
            d = inhabitant(rng, env, root)
            if d is not None:
                docs.append(d)
                docs.append(J.mutate_doc(rng, d))
        docs.append(("o", [("combined", ("o", [("b", ("i", "1")), ("c", ("s", '"x"'))] + [(k, ("b", "true")) for k, _, _ in own])), ("plain", ("o", [("b", ("i", "2"))])),
                           ("u", ("n", "null")), ("arr", ("a", [("n", "null"), ("i", "3")]))]))
        base_ke = [(k, ({"int": ("i", "1"), "str": ("s", '"x"'), "bool": ("b", "true")}[x[0]])) for k, _, x in members_with_inherited(env, env["@KE"])]
        comb = ("combined", ("o", [("b", ("i", "1")), ("c", ("s", '"x"'))] + [(k, ("b", "true")) for k, _, _ in own]))
        for extra in ([], [("zz", ("s", '"v"'))], [("zz", ("i", "4"))], [("zz", ("s", '"v"')), ("yy", ("b", "false"))]):
            docs.append(("o", [comb, ("ke", ("o", base_ke + extra))]))
        out.append((names, env, root, docs))
    return out


# ---- the event-level machine model (Schema/Machine.v) on the same graphs, rules stripped ----
class NoWire(Exception):
    pass


def strip_node(node):
    """the rule-free skeleton of a node: integer ranges, string lengths and patterns are dropped (the machine models kinds, references, unions, additionalProperties)"""
    k = node[0]
    if k == "int":
        return ("int", None, None, node[3])
    if k in ("strl", "strre"):
        return ("str", False)
    if k in ("str", "bool", "null"):
        return node
    if k == "ref":
        return node
    if k == "tref":
        return ("ref", [node[1]], node[2])
    if k == "orform":
        raise NoWire("inline rule-sets need anonymous types")
    if k == "arr":
        return ("arr", [strip_node(x) for x in node[1]])
    if k == "obj":
        if any(kk.startswith("@") for kk, _, _ in node[1]):
            raise NoWire("key shortcut")
        return ("obj", [(kk, opt, strip_node(x)) for kk, opt, x in node[1]], node[2], node[3])
    raise NoWire(k)


def machine_wire(env, names, node):
    k = node[0]
    if k == "int":
        return "L I %d 0" % (1 if node[3] else 0)
    if k == "str":
        return "L S %d 0" % (1 if node[1] else 0)
    if k == "bool":
        return "L B 0 0"
    if k == "null":
        return "L N 0 0"
    if k == "ref":
        return "R %d %d %s" % (1 if node[2] else 0, len(node[1]), " ".join(str(names.index(n)) for n in node[1]))
    if k == "arr":
        return "A 0 0 %d %s" % (len(node[1]), " ".join(machine_wire(env, names, x) for x in node[1]))
    if k == "obj":
        ms = members_with_inherited(env, node)
        a = effective_addp(env, node)
        ap = "-" if a is None else ("f" if a is False else ("*" if a == "any" else ({"string": "kS", "integer": "kI", "boolean": "kB", "null": "kN", "object": "o", "array": "a"}.get(a) or "t%d" % names.index(a))))
        return "O 0 0 %s %d %s" % (ap, len(ms), " ".join("%s %d %s" % (kk.encode().hex() or "-", 0 if opt else 1, machine_wire(env, names, x)) for kk, opt, x in ms))
    raise NoWire(k)


def machine_stream(ctx, cases):
    """implementation vs extracted machine model vs the set semantics, on the rule-free skeletons of the generated graphs"""
    ml, il, meta, tl = [], [], [], []
    hx = lambda t: t.encode("utf-8").hex() or "-"
    for names, env, root, docs in cases:
        try:
            env2 = {nm: strip_node(env[nm]) for nm in names}
            root2 = strip_node(root)
            wr = machine_wire(env2, names, root2)
            we = " ; ".join("%d %s" % (i, machine_wire(env2, names, env2[nm])) for i, nm in enumerate(names))
        except NoWire:
            continue
        schema = print_node(env2, root2)
        types = [[nm, print_node(env2, env2[nm])] for nm in names]
        for d in docs or []:
            ml.append("%s ; %s ; %s" % (wr, J.doc_wire(d), we))
            meta.append((env2, root2, d, schema, types))
            # the same case from its TEXTS, inside the extracted model (Schema/E2ETypes.v): scanner -> loader -> graph; JSON scanner -> events -> machine
            tl.append("0 ; %s ; %s ; %s" % (hx(schema), hx(J.print_doc(d)), " ; ".join("%s %s" % (hx(n), hx(t)) for n, t in types)))
        il.append(json.dumps({"schema": schema, "types": types, "ops": [["check"]] + [["validate", J.print_doc(d)] for d in (docs or [])]}))
    if not ml:
        return
    mo = vc.model_parallel("machine_spec", ml)
    to = vc.model_parallel("e2e_types_model", tl)
    nt = 0
    io = vc.impl_isolating(["schema"], il, 1)
    flat = []
    for o, (names, env, root, docs) in zip(io, [c for c in cases if _wirable(c)]):
        r = json.loads(o)
        flat += [(r[0], x) for x in (r[1:] if len(r) > 1 else ["-"] * len(docs or []))] if r[0] == "ok" else [(r[0], None)] * len(docs or [])
    n = 0
    for (env2, root2, d, schema, types), m, (chk, got), tm in zip(meta, mo, flat, to):
        if chk != "ok" or got is None:
            continue
        n += 1
        if tm != "OUT":          # allOf lies outside the text fragment (the loader model does not flatten it)
            nt += 1
            tcode = "ok" if got == "ok" else got.split("@")[0]
            if tm != tcode and len(ctx.violations) < 40:
                ctx.report("Validate(%s) says %s, the Coq pipeline from the TEXTS (schema scanner, loader, type graph, JSON scanner, event machine) says %s; schema %r types %r" % (
                    J.print_doc(d)[:80], got, tm, schema[:80], [t[1][:40] for t in types][:4]), "c03texts:" + schema + J.doc_wire(d),
                    {"schema": schema, "types": types, "document": J.print_doc(d), "implementation": got, "pipeline_from_texts": tm}, case={"schema": schema, "types": types, "document": J.print_doc(d)}, no_input=True)
        ctx.evaluations += 1
        code = "ok" if got == "ok" else got.split("@")[0]
        want = accepts(env2, root2, d)
        m, spec, closed = m.split(" ")
        if (spec == "T") != want and len(ctx.violations) < 40:
            ctx.report("machinery: the Coq denotation maccepts says %s, the python transcription of the statement says %s; schema %r document %s" % (spec, want, schema[:80], J.print_doc(d)[:60]),
                       "c03spec:" + schema + J.doc_wire(d), {"schema": schema, "types": types, "document": J.print_doc(d)}, no_input=True)
        info = {"schema": schema, "types": types, "document": J.print_doc(d), "implementation": got, "machine_model": m, "set_semantics": "accept" if want else "reject"}
        if (code == "ok") != want and len(ctx.violations) < 40:
            ctx.report("Validate(%s) says %s, the set semantics of the types say %s; schema %r" % (J.print_doc(d)[:80], got, "accept" if want else "reject", schema[:80]), "c03m:" + schema + J.doc_wire(d), info, case=info)
        elif m != code and len(ctx.violations) < 40:
            ctx.report("Validate(%s) says %s, the event-level machine model says %s; schema %r types %r" % (J.print_doc(d)[:80], got, m, schema[:80], [t[1][:40] for t in types][:4]),
                       "c03machine:" + schema + J.doc_wire(d), info, case=info, no_input=True)
    ctx.extra["machine_model_cases"] = n
    ctx.extra["cases_run_from_their_texts_inside_the_model"] = nt


def _wirable(c):
    names, env, root, docs = c
    try:
        env2 = {nm: strip_node(env[nm]) for nm in names}
        machine_wire(env2, names, strip_node(root))
        for nm in names:
            machine_wire(env2, names, env2[nm])
        return True
    except NoWire:
        return False


def run(ctx):
    st = vc.prepare(ctx)
    if not st["impl"]:
        ctx.report("harness failed to build: " + json.dumps(st["logs"])[:1500], "build", st["logs"], no_input=True)
        return
    quick = ctx.tier == "quick"
    rng = ctx.rng
    ctx.extra["rule"] = ("type graphs of up to 6 user types (scalar types with integer ranges that overlap, objects with required/optional references, unions @a | @b with nullable, arrays of "
                         "unions, alias types, optional self-recursion, allOf chains, additionalProperties absent/false/true/JSON kind/user type); root = a reference, a union or an object over "
                         "them; documents = derived inhabitants and their mutations (drop/add/duplicate/reorder key, kind swap, null injection, array extend) and unrelated documents; verdict "
                         "against the denotational semantics of the statement (union of the named types, allOf = own + inherited requirements, additionalProperties decides unnamed keys); "
                         "non-trivial = document with a container validated against a schema with a union")
    ctx.classifiers["bare_example_key_type"] = lambda case: isinstance(case, dict) and case.get("cls") == "bare-key-type"
    ctx.classifiers["plain_key_spelled_like_a_key_shortcut"] = lambda case: isinstance(case, dict) and case.get("cls") == "plain-key-spelled-like-shortcut"
    ctx.assumptions += ["decided by comparison with a python transcription of the statement's set semantics (differential), no Coq model of the multi-leaf validator: partial"]
    cases = []
    n = 4000 if quick else 20000
    for _ in range(n):
        k = rng.randint(2, 6)
        names, env = gen_types(rng, k)
        root = rng.choice([("ref", [names[-1]], False), ("ref", rng.sample(names, min(k, 2)), rng.random() < 0.3),
                           ("obj", [("r", False, ("ref", rng.sample(names, min(k, rng.choice([1, 2, 3]))), False)), ("l", True, ("arr", [("ref", rng.sample(names, min(k, 2)), False)]))], None, [])])
        docs = []
        for _ in range(4):
            d = inhabitant(rng, env, root)
            if d is not None:
                docs.append(d)
                d2 = d
                for _ in range(rng.choice([1, 2])):
                    d2 = J.mutate_doc(rng, d2)
                docs.append(d2)
        docs.append(J.rand_doc(rng, 2))
        cases.append((names, env, root, docs))
    # overlapping alternatives inside arrays (both alternatives accept the element)
    for _ in range(800 if quick else 3000):
        a = ("int", rng.choice([None, 0]), None, False)
        b = ("int", None, rng.choice([None, 10, 100]), False)
        env = {"@A": a, "@B": b, "@S": ("str", False)}
        items = [("ref", ["@A", "@B"], False)] + rng.sample([("str", False), ("int", None, None, False), ("bool",), ("ref", ["@S", "@A"], False)], rng.choice([0, 1, 2]))
        root = rng.choice([("arr", items), ("obj", [("l", False, ("arr", items))], None, [])])
        docs = []
        for _ in range(5):
            xs = [rng.choice([("i", "1"), ("i", "3"), ("s", '"x"'), ("b", "true"), ("i", "-5"), ("i", "500")]) for _ in range(rng.randint(0, 4))]
            docs.append(("a", xs) if root[0] == "arr" else ("o", [("l", ("a", xs))]))
        cases.append((["@A", "@B", "@S"], env, root, docs))
    cases += allof_stream(rng, 800 if quick else 3000)
    # additionalProperties: several unnamed keys in one object, valid and invalid values in every order (each unnamed key is decided on its own)
    for _ in range(1200 if quick else 5000):
        env = {"@Id": ("obj", [("id", False, ("int", None, None, False))], None, []), "@N": ("int", 0, 9, False), "@S": ("str", False),
               "@U": ("ref", ["@N", "@Id"], False), "@L": ("arr", [("ref", ["@N"], False)])}
        names = ["@Id", "@N", "@S", "@U", "@L"]
        a = rng.choice(["any", "string", "integer", "boolean", "null", "object", "array", "@Id", "@N", "@U", "@L", "@S"])
        inner = ("obj", [("a", rng.random() < 0.5, ("int", None, None, False))], a, [])
        root = rng.choice([inner, ("obj", [("w", False, inner)], None, []), ("arr", [inner])])
        pool = [("i", "1"), ("i", "77"), ("s", '"x"'), ("s", '"1.5"'), ("s", '"a.b"'), ("s", '"192.168.0.1"'), ("b", "true"), ("n", "null"), ("o", []), ("o", [("id", ("i", "7"))]), ("o", [("k", ("i", "1"))]), ("a", []), ("a", [("i", "1"), ("i", "2")]),
                ("a", [("s", '"q"')]), ("o", [("id", ("s", '"no"'))])]
        docs = []
        for _ in range(6):
            ms = [("a", ("i", "1"))] if rng.random() < 0.8 else []
            ms += [(k, rng.choice(pool)) for k in rng.sample(["x", "y", "z", "p", "q"], rng.choice([1, 2, 2, 3, 4]))]
            if rng.random() < 0.5:
                rng.shuffle(ms)
            o = ("o", ms)
            docs.append(o if root is inner else (("o", [("w", o)]) if root[0] == "obj" else ("a", [o, o] if rng.random() < 0.3 else [o])))
        cases.append((names, env, root, docs))
    cases += rule_form_cases(rng, 1500 if quick else 6000)
    # corpus: minimised replays of repaired defects run first (a regression is an ordinary violation)
    import os
    cdir = os.path.join(vc.ROOT, "corpus", "C03")
    corpus = []
    for f in sorted(os.listdir(cdir)) if os.path.isdir(cdir) else []:
        if f.endswith(".json"):
            corpus += json.load(open(os.path.join(cdir, f)))
    if corpus:
        couts = vc.impl(["schema"], [json.dumps({"schema": c["schema"], "types": c.get("types", []), "roottypes": c.get("roottypes", False), "private": c.get("private", []),
                                                 "ops": [["check"], ["validate", c.get("document", "null")]]}) for c in corpus])
        for c, o in zip(corpus, couts):
            r = json.loads(o)
            ctx.evaluations += 1
            if c.get("expect_check") == "err":          # the schema itself must be refused (conflicting requirements)
                if r[0] == "ok" and len(ctx.violations) < 40:
                    ctx.report("corpus case: Check accepts %r types %r, expected a refusal: %s" % (c["schema"][:100], c.get("types"), c.get("why", "")), "c03corpus:" + c["schema"] + json.dumps(c.get("types")), dict(c, implementation=r), case=c)
                continue
            got = "accept" if (r[0] == "ok" and r[1] == "ok") else "reject"
            if c.get("check_may_fail") and r[0] != "ok":
                continue            # the schema is refused outright: nothing it could wrongly accept
            if (r[0] != "ok" or got != c["expect"]) and len(ctx.violations) < 40:
                ctx.report("corpus case: Check %s, Validate(%s) %s, expected %s; schema %r types %r" % (r[0], c["document"], r[1] if len(r) > 1 else "-", c["expect"], c["schema"][:100], c.get("types")),
                           "c03corpus:" + c["schema"] + "|" + c["document"], dict(c, implementation=r), case=c)
    ctx.extra["corpus_cases"] = len(corpus)
    lines = []
    for names, env, root, docs in cases:
        lines.append(json.dumps({"schema": print_node(env, root), "types": [[nm, print_node(env, env[nm])] for nm in names],
                                 "ops": [["check"]] + [["validate", J.print_doc(d, rng)] for d in docs]}))
    outs = vc.impl_isolating(["schema"], lines, 1)
    nchk = 0
    for (names, env, root, docs), l, o in zip(cases, lines, outs):
        r = json.loads(o)
        c = json.loads(l)
        if r[0] == "CRASH":
            ctx.report("Check/Validate crashes the process: %r" % c["schema"][:100], "c03crash:" + l, {"case": c}, case=c)
            continue
        if r[0] != "ok":
            continue           # conflicts / non-inhabitable combinations are C08/C09's business
        nchk += 1
        for d, got in zip(docs, r[1:]):
            ctx.evaluations += 1
            want = accepts(env, root, d)
            ok = got == "ok"
            if d[0] in "oa" and any(t[0] == "ref" and len(t[1]) > 1 for t in list(env.values()) + [root]):
                ctx.nontrivial.add(l[:200] + J.doc_wire(d))
            if ok != want and len(ctx.violations) < 40:
                info = {"schema": c["schema"], "types": c["types"], "document": J.print_doc(d), "implementation": got, "expected": "accept" if want else "reject"}
                if has_bare_key_type(env, root) and accepts_pinned(env, root, d) == ok:
                    info["cls"] = "bare-key-type"      # differs from the statement only in the pinned reading of a bare-example key type
                ctx.report("Validate(%s) says %s, the set semantics of the types say %s; schema %r types %r" % (J.print_doc(d)[:80], got, "accept" if want else "reject", c["schema"][:80],
                                                                                                               [t[1][:50] for t in c["types"]][:4]), "c03:" + l + J.doc_wire(d), info, case=info)
    if st.get("model"):
        machine_stream(ctx, cases)
    ctx.extra["graphs"] = len(cases)
    ctx.extra["accepted_by_check"] = nchk
    ctx.samples.append({"schema": json.loads(lines[1])["schema"], "types": json.loads(lines[1])["types"], "documents": json.loads(lines[1])["ops"][1:3]})


def replay(ctx, path):
    vc.prepare(ctx, need_model=False)
    run(ctx)
