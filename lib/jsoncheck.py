"""shared runner for the JSON-document checks (C05, C06, C14, C17)."""
import json, os
import vcommon as vc
import jsonref, jsongen


def hx(b):
    return b.hex() if b else "-"


def run_modes(texts, modes, shards=16):
    lines = ["%s %s" % (m, hx(t)) for t in texts for m in modes]
    impl = vc.impl_parallel(["json"], lines, shards=shards)
    model = vc.model_parallel("json_model", lines, shards=shards)
    k = len(modes)
    out = []
    for i, t in enumerate(texts):
        out.append({m: (impl[i * k + j], model[i * k + j]) for j, m in enumerate(modes)})
    return out


def corpus(prop):
    out = []
    cdir = os.path.join(vc.ROOT, "corpus", prop)
    if os.path.isdir(cdir):
        for f in sorted(os.listdir(cdir)):
            if not f.endswith(".hex"):
                continue
            for l in open(os.path.join(cdir, f)):
                l = l.strip()
                if l and not l.startswith("#"):
                    out.append(bytes.fromhex(l) if l != "-" else b"")
    return out


def gen_texts(ctx, quick, exhaustive_len=None):
    """(label, list of byte strings) groups"""
    rng = ctx.rng
    L = exhaustive_len or (4 if quick else 5)
    groups = []
    groups.append(("exhaustive16<=%d" % L, list(jsongen.exhaustive(jsongen.ALPHA16, L))))
    if not quick:
        # length 6..8 over the same alphabet: a sample (all 16.7M strings of length 6 need ~12 GB in this driver)
        groups.append(("sampled16 6..8", list(dict.fromkeys(b"".join(rng.choice(jsongen.ALPHA16) for _ in range(rng.randint(6, 8))) for _ in range(1500000)))))
    groups.append(("words<=%d" % (4 if quick else 5), list(jsongen.exhaustive(jsongen.ALPHA_WORDS, 4 if quick else 5))))
    nv = 1500 if quick else 60000
    valid = [jsongen.rand_text(rng) for _ in range(nv)]
    groups.append(("valid-generated", valid))
    trunc = []
    for t in valid[: (60 if quick else 1500)]:
        trunc += [t[:i] for i in range(len(t))]
    groups.append(("truncated", trunc))
    groups.append(("mutated", [jsongen.mutate(rng, rng.choice(valid)) for _ in range(3000 if quick else 200000)]))
    # valid texts behind / before byte sequences that editors and encoders add: a UTF-8 byte order mark (RFC 8259 8.1: MUST NOT be added), UTF-16 marks,
    # NBSP, NEL, form feed, vertical tab, zero-width space, NUL - none of them is JSON white space
    marks = [b"\xef\xbb\xbf", b"\xef\xbb", b"\xbf", b"\xfe\xff", b"\xff\xfe", b"\xc2\xa0", b"\xc2\x85", b"\x0c", b"\x0b", b"\xe2\x80\x8b", b"\x00", b"\xef\xbb\xbf\xef\xbb\xbf"]
    framed = []
    for t in valid[: (40 if quick else 600)] + [b"1", b"{}", b"[]", b'"a"', b"null"]:
        for m in marks:
            framed += [m + t, t + m, m + b" " + t, b" " + m + t]
    groups.append(("marks around valid texts", framed))
    return groups


def build(ctx):
    st = vc.prepare(ctx)
    if not st["impl"] or not st["model"]:
        ctx.report("harness or extracted model failed to build: " + json.dumps(st["logs"])[:1500], "build", st["logs"], no_input=True)
        return None
    return st


def proof_tail(ctx, st, theorems):
    if not st["proof"] and not ctx.violations:
        ctx.report("proof obligation(s) no longer check: %s" % ", ".join(ctx.proof_broken), "proof-broken",
                   {"broken": ctx.proof_broken, "log": st["logs"].get("make", "")[-3000:], "theorems": theorems}, no_input=True)
