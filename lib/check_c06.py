"""C06 — lexical events faithfully describe the scanned text."""
import json, re
import vcommon as vc
import jsonref, jsongen, jsoncheck as jc

NEWLINE = 20
CLOSE = {1: 0, 3: 2, 5: 4, 7: 6, 9: 8, 11: 10}


def parse_events(s):
    evs, _, end = s.rpartition("|")
    out = []
    for e in evs.split(","):
        if e:
            t, b, x = e.split(":")
            out.append((int(t), int(b), int(x)))
    return out, end


def intrinsic(evs, text):
    """properly nested, spans inside the input; returns error string or None"""
    st = []
    for t, b, e in evs:
        if not (0 <= b <= e < len(text)):
            return "span %d:%d:%d outside the input of %d bytes" % (t, b, e, len(text))
        if t in CLOSE:
            if not st or st[-1][0] != CLOSE[t] or st[-1][1] != b:
                return "closing event %d:%d:%d does not match the open event %s" % (t, b, e, st[-1:] if st else None)
            st.pop()
        else:
            st.append((t, b))
    if st:
        return "events left open at the end: %s" % st
    return None


def rebuild(evs, text):
    """JSON value from the events alone (python objects); raises on failure"""
    pos = [0]

    def val():
        t, b, e = evs[pos[0]]
        if t == 0:
            pos[0] += 1
            t2, b2, e2 = evs[pos[0]]
            assert t2 == 1 and b2 == b
            pos[0] += 1
            return json.loads(text[b:e2 + 1].decode("utf-8"))
        if t == 8:
            pos[0] += 1
            items = []
            while evs[pos[0]][0] == 10:
                pos[0] += 1
                items.append(val())
                assert evs[pos[0]][0] == 11
                pos[0] += 1
            assert evs[pos[0]][0] == 9 and text[evs[pos[0]][1]] == 0x5B and text[evs[pos[0]][2]] == 0x5D
            pos[0] += 1
            return items
        if t == 2:
            pos[0] += 1
            d = {}
            while evs[pos[0]][0] == 4:
                kb = evs[pos[0]][1]
                pos[0] += 1
                assert evs[pos[0]][0] == 5
                ke = evs[pos[0]][2]
                pos[0] += 1
                k = json.loads(text[kb:ke + 1].decode("utf-8"))
                assert evs[pos[0]][0] == 6
                pos[0] += 1
                d[k] = val()
                assert evs[pos[0]][0] == 7
                pos[0] += 1
            assert evs[pos[0]][0] == 3 and text[evs[pos[0]][1]] == 0x7B and text[evs[pos[0]][2]] == 0x7D
            pos[0] += 1
            return d
        raise AssertionError("unexpected event %s" % (evs[pos[0]],))

    v = val()
    assert pos[0] == len(evs)
    return v


def judge_valid(ctx, label, texts):
    res = jc.run_modes(texts, ["e"])
    nb = 0
    for t, r in zip(texts, res):
        g, m = r["e"]
        ref = jsonref.parse_prefix(t)
        want = ",".join("%d:%d:%d" % e for e in ref[2]) + "|eof"
        what = None
        noinput = False
        if g != want:
            what = "NextLexeme stream on %r is %s, the text's tokens give %s" % (t[:70], g[:200], want[:200])
        else:
            evs, end = parse_events(g)
            bad = intrinsic(evs, t)
            if bad:
                what = "event stream on %r: %s" % (t[:70], bad)
            else:
                try:
                    py = json.loads(t.decode("utf-8"))
                    try:
                        rb = rebuild(evs, t)
                        if rb != py and not (rb != rb):
                            what = "value rebuilt from the events of %r differs from the text's value" % t[:70]
                    except (AssertionError, IndexError, ValueError) as ex:
                        what = "value cannot be rebuilt from the events of %r: %s" % (t[:70], ex)
                except (UnicodeDecodeError, ValueError, RecursionError):
                    pass
        if what is None and g != m:
            what = "NextLexeme stream on %r: library %s, Coq model %s" % (t[:70], g[:200], m[:200])
            noinput = True
        if what:
            nb += 1
            if len(ctx.violations) < 40:
                ctx.report(what, "jsonev:" + t.hex(), {"text_hex": t.hex(), "text": t.decode("latin1"), "implementation": g, "model": m, "reference": want, "found_in": label},
                           case=t, no_input=noinput)
    ctx.evaluations += len(texts)
    return res


def judge_cross(ctx, label, texts, res):
    """schema scanner and enum scanner deliver the same sequence (new-line events aside) for the plain-JSON part"""
    sch = [t for t in texts if not re.search(rb"[0-9][eE]", t)]
    so = vc.impl_parallel(["json"], ["s " + jc.hx(t) for t in sch])
    base = {t: r["e"][0] for t, r in zip(texts, res)}
    nb = 0
    for t, o in zip(sch, so):
        evs, end = parse_events(o)
        evs = [e for e in evs if e[0] != NEWLINE]
        got = ",".join("%d:%d:%d" % e for e in evs) + "|" + end
        if got != base[t]:
            nb += 1
            if len(ctx.violations) < 40:
                ctx.report("schema scanner on plain JSON %r delivers %s, JSON scanner %s" % (t[:70], got[:200], base[t][:200]), "schemaev:" + t.hex(),
                           {"text_hex": t.hex(), "text": t.decode("latin1"), "schema_scanner": o, "json_scanner": base[t], "found_in": label}, case=t)
    arr = [t for t in texts if t.lstrip(b" \t\r\n").startswith(b"[") and not re.search(rb"[\[{]", t.lstrip(b" \t\r\n")[1:]) and not re.search(rb"[0-9][eE]", t)]
    def no_dups(t):
        try:
            vals = json.loads(t.decode("utf-8"))
        except (UnicodeDecodeError, ValueError):
            return False
        keys = [(type(v).__name__, v) for v in vals]
        return len(set(keys)) == len(keys)   # the enum rule rejects duplicate values (error 810): outside "plain JSON part"
    arr = [t for t in arr if no_dups(t)]
    eo = vc.impl_parallel(["json"], ["n " + jc.hx(t) for t in arr]) if arr else []
    for t, o in zip(arr, eo):
        evs, end = parse_events(o)
        evs = [e for e in evs if e[0] != NEWLINE]
        got = ",".join("%d:%d:%d" % e for e in evs) + "|" + end
        if got != base[t]:
            nb += 1
            if len(ctx.violations) < 40:
                ctx.report("enum scanner on the array of scalars %r delivers %s, JSON scanner %s" % (t[:70], got[:200], base[t][:200]), "enumev:" + t.hex(),
                           {"text_hex": t.hex(), "text": t.decode("latin1"), "enum_scanner": o, "json_scanner": base[t], "found_in": label}, case=t)
    ctx.evaluations += len(sch) + len(arr)
    ctx.extra["cross_scanner"] = {"schema": len(sch), "enum": len(arr)}


def judge_history(ctx, texts):
    """the stream after Check()/Len() on the same document equals the stream of a fresh document"""
    ho = vc.impl_parallel(["json"], ["x " + jc.hx(t) for t in texts])
    for t, o in zip(texts, ho):
        parts = o.split("//")
        if len(set(parts)) != 1:
            ctx.report("NextLexeme stream of %r depends on earlier Check/Len/partial reads on the same document: %s" % (t[:70], o[:300]), "jsonevhist:" + t.hex(),
                       {"text_hex": t.hex(), "text": t.decode("latin1"), "streams fresh//after Check//after Len//after partial read+Check": o}, case=t)
    ctx.evaluations += len(texts)


def run(ctx):
    st = jc.build(ctx)
    if st is None:
        return
    quick = ctx.tier == "quick"
    rng = ctx.rng
    ctx.extra["rule"] = ("valid JSON texts generated to depth 8 / width 8 with every scalar form (escapes, \\\\u with hex letters, multi-byte keys, numbers ending the input, nested "
                         "empties) and random inter-token blanks: NextLexeme stream = token spans computed by an independent parser, well-nestedness, spans inside input, value rebuilt "
                         "from events = value of the text (python json), stream of the schema scanner and (arrays of scalars) of the enum scanner identical up to new-line events, "
                         "stream independent of earlier Check/Len; plus the Coq model's stream; non-trivial = text with a container")
    valid = [b"1", b"-0.5e3", b"true", b'"a\\u00e9\\uD83D\\uDE00"', b"{}", b"[]", b' [ ] ', b'{"a":[1,{"b":null}],"\\u006b":[[],{}]}', b"[1, 2 ]", b'"caf\\u00e9"', b'["\\u20AC", "x"]'] + \
            [jsongen.rand_text(rng) for _ in range(8000 if quick else 80000)]
    valid = list(dict.fromkeys(jc.corpus("C06") + valid))
    for t in valid:
        if any(c in t for c in b"{["):
            ctx.nontrivial.add(t)
    res = judge_valid(ctx, "valid", valid)
    judge_cross(ctx, "valid", valid, res)
    judge_history(ctx, valid[: (2500 if quick else 20000)])
    ctx.samples.append({"text": valid[len(valid) // 2].decode("latin1"), "events": res[len(valid) // 2]["e"][0][:300]})
    ctx.extra["texts"] = len(valid)
    import enum_cases
    enum_cases.stream(ctx, st, "nN", quick, "c06")
    import schema_scan_cases
    schema_scan_cases.stream(ctx, st, "sS", quick, "c06")
    ctx.extra["size_histogram"] = {str(k): sum(1 for t in valid if len(t) // 50 == k) for k in range(0, 12)}
    jc.proof_tail(ctx, st, ["C06_*"])


def replay(ctx, path):
    r = json.load(open(path))
    st = jc.build(ctx)
    if st is None:
        return
    t = bytes.fromhex(r["text_hex"])
    res = judge_valid(ctx, "replay", [t])
    judge_cross(ctx, "replay", [t], res)
    judge_history(ctx, [t])
