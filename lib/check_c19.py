"""C19 — ordered maps behave as insertion-ordered maps under any operation sequence."""
import itertools, json, os
import vcommon as vc

KEYS = [0, 1, 2]
MUTATORS = (["S %d %d" % (k, v) for k in KEYS for v in (1, 2)] + ["U %d 0" % k for k in KEYS] +
            ["D %d" % k for k in KEYS] + ["F 0", "F 1", "M 1", "M 2"])
OBSERVERS = (["A", "L", "J"] + ["G %d" % k for k in KEYS] + ["H %d" % k for k in KEYS] +
             ["V %d" % k for k in KEYS] + ["N 0", "N 1", "E 0", "E 1"])
KINDS = ["ast", "rule", "cons"]


def exhaustive(maxlen):
    tail = ";".join(OBSERVERS)
    for n in range(0, maxlen + 1):
        for seq in itertools.product(MUTATORS, repeat=n):
            yield ";".join(seq + (tail,))


def random_history(rng, maxlen):
    n = rng.randint(1, maxlen)
    nk = rng.choice([3, 5, 9])
    ops = []
    for _ in range(n):
        r = rng.random()
        k = rng.randrange(nk)
        if r < 0.30:
            ops.append("S %d %d" % (k, rng.randint(-3, 12)))
        elif r < 0.38:
            ops.append("U %d %d" % (k, rng.randrange(3)))
        elif r < 0.52:
            ops.append("D %d" % k)
        elif r < 0.62:
            ops.append("F %d" % rng.randrange(7))
        elif r < 0.70:
            ops.append("M %d" % rng.randrange(4))
        elif r < 0.75:
            ops.append("N %d" % rng.randrange(7))
        elif r < 0.80:
            ops.append("E %d" % rng.randrange(7))
        else:
            ops.append(rng.choice(["A", "L", "J", "G %d" % k, "H %d" % k, "V %d" % k]))
    return ";".join(ops + ["A", "L", "J"])


def nontrivial(line):
    return any(op[0] in "DFM" for op in line.split(";")) and any(op[0] == "S" for op in line.split(";"))


def first_diff_op(line, a, b):
    """index of the first operation whose output differs (for the report)."""
    ops = [o for o in line.split(";") if o.strip()]
    xa, xb = a.split("#")[0].split(";"), b.split("#")[0].split(";")
    for i, (p, q) in enumerate(zip(xa, xb)):
        if p != q:
            return i, ops[i] if i < len(ops) else "?", p, q
    return len(ops), "final-state", a.split("#")[-1], b.split("#")[-1]


def shrink(kind, line, spec_of):
    """greedy delta: drop operations while the implementation still disagrees with the reference."""
    ops = [o for o in line.split(";") if o.strip()]
    changed = True
    while changed and len(ops) > 1:
        changed = False
        for i in range(len(ops)):
            cand = ops[:i] + ops[i + 1:]
            l = ";".join(cand)
            if vc.impl(["omap", kind], [l])[0] != spec_of(l):
                ops, changed = cand, True
                break
    return ";".join(ops)


def shrink_hang(kind, line):
    """a history after which an operation never returns: keep the shortest prefix that still hangs (binary search, a handful of runs)"""
    ops = [o for o in line.split(";") if o.strip()]
    lo, hi = 1, len(ops)
    while lo < hi:
        mid = (lo + hi) // 2
        if "HANG" in vc.impl(["omap", kind], [";".join(ops[:mid])])[0]:
            hi = mid
        else:
            lo = mid + 1
    return ";".join(ops[:lo])


def compare(ctx, lines, label):
    spec = vc.model_parallel("omap_spec", lines)
    mod = vc.model_parallel("omap_model", lines)
    for l, s, m in zip(lines, spec, mod):
        if s != m:  # contradicts theorem C19_refines: extraction/driver problem, never silent
            ctx.report("extracted model and reference disagree (contradicts C19_refines)", l,
                       {"history": l, "model": m, "reference": s}, no_input=True)
            return
    spec_of = lambda l: vc.model("omap_spec", [l])[0]
    for kind in KINDS:
        got = vc.impl_parallel(["omap", kind], lines)
        bad = [(l, g, s) for l, g, s in zip(lines, got, spec) if g != s]
        ctx.evaluations += len(lines)
        for l, g, s in bad[:3]:
            # a history that hangs costs seconds per run: shrink it with a small budget only
            small = shrink(kind, l, spec_of) if "HANG" not in g else shrink_hang(kind, l)
            g2, s2 = vc.impl(["omap", kind], [small])[0], spec_of(small)
            i, op, p, q = first_diff_op(small, g2, s2)
            what = "%s map: after history '%s' operation #%d (%s) gives %s, reference insertion-ordered map gives %s" % (kind, small, i, op, p, q)
            ctx.report(what, "omap:" + small, {"map": kind, "history": small, "implementation": g2, "reference": s2,
                                                "found_in": label, "original_history": l}, case=small)
        if bad:
            ctx.extra.setdefault("disagreements", {})[kind + ":" + label] = len(bad)
    for l in lines:
        if nontrivial(l):
            ctx.nontrivial.add(l)
    if lines:
        ctx.samples.append({"history": lines[len(lines) // 2], "reference_output": spec[len(lines) // 2]})


def race_stress(ctx, seconds):
    ok, l = vc.build_implrun(race=True)
    if not ok:
        ctx.report("race-instrumented harness failed to build", "race-build", {"log": l[-2000:]}, no_input=True)
        return
    rc, o, e = vc.sh([os.path.join(vc.BUILD, "implrun-race"), "omaprace", str(seconds), str(ctx.seed)], timeout=seconds * 3 + 60, env=vc.GOENV)
    ctx.extra["race_stress"] = o.strip().splitlines()[-1] if o.strip() else ""
    if rc != 0 or "DATA RACE" in e or "INCONSISTENT" in o:
        what = "concurrent use of an ordered map: " + ("data race reported by the race detector" if "DATA RACE" in e else "inconsistent observation")
        ctx.report(what, "omap-race", {"stdout": o[-3000:], "stderr": e[-6000:],
                                        "cmd": "build/implrun-race omaprace %d %d" % (seconds, ctx.seed)})
        return False
    return True


def run(ctx):
    st = vc.prepare(ctx)
    ctx.extra["rule"] = ("corpus replays; every sequence of mutators (6 Set, 3 Update, 3 Delete, 2 Filter, 2 Map over 3 keys) up to "
                         "length L followed by all 17 observers, on each of the three generated maps, compared with the extracted "
                         "reference association list; random histories up to length 200 over up to 9 keys and 7 predicates; "
                         "non-trivial = contains a Set and a Delete/Filter/Map; -race stress of mixed readers/writers")
    ctx.assumptions += ["callbacks are pure and do not re-enter the map (a re-entrant callback self-deadlocks on the RWMutex)",
                        "sync.RWMutex provides mutual exclusion (Go runtime)"]
    if not st["impl"] or not st["model"]:
        ctx.report("harness or extracted model failed to build: " + json.dumps(st["logs"])[:1500], "build", st["logs"], no_input=True)
        return
    # corpus first (fixed and known replays)
    cdir = os.path.join(vc.ROOT, "corpus", "C19")
    corpus = []
    if os.path.isdir(cdir):
        for f in sorted(os.listdir(cdir)):
            corpus += [l.strip() for l in open(os.path.join(cdir, f)) if l.strip() and not l.startswith("#")]
    if corpus:
        compare(ctx, corpus, "corpus")
    L = 3 if ctx.tier == "quick" else 5
    lines = list(exhaustive(L))
    ctx.extra["exhaustive_len"] = L
    ctx.extra["exhaustive"] = True
    compare(ctx, lines, "exhaustive<=%d" % L)
    nrand = 3000 if ctx.tier == "quick" else 60000
    rl = [random_history(ctx.rng, 200 if i % 4 == 0 else 30) for i in range(nrand)]
    compare(ctx, rl, "random")
    ctx.extra["random_histories"] = nrand
    ctx.extra["op_histogram"] = hist(rl)
    race_ok = race_stress(ctx, 3 if ctx.tier == "quick" else 30)
    if not st["proof"]:
        # a theorem in the cone no longer checks (e.g. the lock table changed): the searches above
        # were the attempt to exhibit a failing input
        if not ctx.violations:
            ctx.report("proof obligation(s) no longer check: %s" % ", ".join(ctx.proof_broken), "proof-broken",
                       {"broken": ctx.proof_broken, "log": st["logs"].get("make", "")[-3000:],
                        "theorems": ["C19_lock_discipline", "C19_api_complete", "C19_refines"]}, no_input=True)


def hist(lines):
    h = {}
    for l in lines:
        for op in l.split(";"):
            h[op[:1]] = h.get(op[:1], 0) + 1
    return h


def replay(ctx, path):
    r = json.load(open(path))
    vc.prepare(ctx)
    if "history" in r:
        compare(ctx, [r["history"]], "replay")
    else:
        run(ctx)
