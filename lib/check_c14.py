"""C14 — Len reports exactly where an embedded schema, document or enum ends (JSON documents with trailing
characters allowed; schema and enum scanners are added with their models)."""
import json, os
import vcommon as vc
import jsonref, jsongen, jsoncheck as jc

SEPS = [b"", b" ", b"  ", b"\t", b"\n", b"\r\n", b"\n\n", b"\r\n\r\n", b" \n", b"\n ", b"\n\t ", b"\r", b" \r\n \n"]
TRAILS = [b"x", b"GET /a", b"TYPE @t", b"}", b"]", b"#", b"// c", b"200", b'"a"', b"{}", b"URL /x\n  Path\n", b"@t", b",", b":", b"\\", b"e1", b".5", b"-", b"\x00", b"\xff"]


def judge(ctx, label, cases):
    """cases: (S, sep, trail)"""
    texts = [s + sep + t for s, sep, t in cases]
    res = jc.run_modes(texts, ["L", "C"])
    nb = 0
    for (s, sep, t), txt, r in zip(cases, texts, res):
        g, m = r["L"]
        want = str(len(s.rstrip(b" \t\r\n")))
        what = None
        if g != want:
            what = "Len(%r + %r + %r) = %s, the document ends at %s" % (s[:60], sep, t[:20], g, want)
            noinput = False
        elif g != m:
            what = "Len(%r + %r + %r): library %s, Coq model %s" % (s[:60], sep, t[:20], g, m)
            noinput = True
        if what:
            nb += 1
            if len(ctx.violations) < 40:
                ctx.report(what, "jsonlen:" + txt.hex(), {"text_hex": txt.hex(), "text": txt.decode("latin1"), "S": s.decode("latin1"), "sep": sep.decode("latin1"),
                                                       "trail": t.decode("latin1"), "implementation": g, "model": m, "expected": want, "found_in": label}, case=txt, no_input=noinput)
    # the prefix of that length is accepted with the same meaning: same event stream as S alone
    pre = list(dict.fromkeys(s for s, _, _ in cases))
    ev = jc.run_modes(pre, ["e"])
    ev2 = jc.run_modes([s.rstrip(b" \t\r\n") for s in pre], ["e", "c"])
    for s, a, b in zip(pre, ev, ev2):
        if b["c"][0] != "ok" or a["e"][0] != b["e"][0]:
            nb += 1
            ctx.report("prefix of length Len is not accepted with the same meaning for %r" % s[:60], "jsonlenprefix:" + s.hex(),
                       {"text_hex": s.hex(), "events_full": a["e"][0], "events_prefix": b["e"][0], "check_prefix": b["c"][0]}, case=s)
    ctx.evaluations += len(cases) + len(pre)
    return nb


def judge_errors(ctx, label, texts):
    res = jc.run_modes(texts, ["L"])
    for t, r in zip(texts, res):
        g, m = r["L"]
        tr = jsonref.trailing_result(t)
        want_err = tr[0] != "ok"
        got_err = g.startswith("E")
        if want_err != got_err:
            ctx.report("Len(%r) = %s but the text %s with a complete JSON value" % (t[:60], g, "does not begin" if want_err else "begins"),
                       "jsonlenerr:" + t.hex(), {"text_hex": t.hex(), "implementation": g, "model": m}, case=t)
        elif g != m:
            ctx.report("Len(%r): library %s, Coq model %s" % (t[:60], g, m), "jsonlenerr:" + t.hex(), {"text_hex": t.hex(), "implementation": g, "model": m}, case=t, no_input=True)
    ctx.evaluations += len(texts)


def run(ctx):
    st = jc.build(ctx)
    if st is None:
        return
    quick = ctx.tier == "quick"
    rng = ctx.rng
    ctx.extra["rule"] = ("JSON documents with trailing characters allowed: generated accepted texts S (all scalar forms, containers to depth 6) x 13 separators (none only after a "
                         "closing bracket or quote; spaces, tabs, LF/CRLF runs) x 20 trailing texts from a directive-like alphabet; expected Len = |S| without trailing blanks and the "
                         "prefix re-scans to the same event stream; plus malformed/incomplete prefixes for the error side; non-trivial = S with at least one container or string")
    ctx.assumptions += ["the schema and enum halves of C14 are checked once their scanner models are in place; this revision decides the JSON-document half"]
    ss = [b"1", b"-0.5e3", b"true", b"null", b'"a"', b"{}", b"[]", b'{"a":[1,{"b":null}]}', b"[1, 2 ]", b' {"k" : "v"}', b"0", b'""'] + \
         [jsongen.rand_value(rng, rng.randint(0, 6), 4) for _ in range(150 if quick else 4000)]
    cases = []
    for s in ss:
        closed = s.rstrip(b" \t\r\n")[-1:] in (b"}", b"]", b'"')
        for sep in SEPS:
            if sep == b"" and not closed:
                continue
            for t in (TRAILS if len(s) < 40 else rng.sample(TRAILS, 4)):
                cases.append((s, sep, t))
        cases.append((s, b"", b""))
        cases.append((s, b" \n", b""))
    for s, _, _ in cases:
        if any(c in s for c in b'{["'):
            ctx.nontrivial.add(s)
    corpus = jc.corpus("C14")
    if corpus:
        judge_errors(ctx, "corpus", corpus)
        judge(ctx, "corpus", [(c[:jsonref.trailing_result(c)[1]], b"", c[jsonref.trailing_result(c)[1]:]) for c in corpus if jsonref.trailing_result(c)[0] == "ok"])
    judge(ctx, "S x sep x trail", cases)
    # Len does not depend on what was read from the document before: after 1..3 lexemes, after reading everything, after Check
    htexts = [a + b + c for a, b, c in cases[:: max(1, len(cases) // (1200 if quick else 20000))]]
    hfresh = vc.impl_parallel(["json"], ["L " + jc.hx(t) for t in htexts])
    hhist = vc.impl_parallel(["json"], ["G " + jc.hx(t) for t in htexts])
    for t, fr, hi in zip(htexts, hfresh, hhist):
        ctx.evaluations += 1
        if any(p_ != fr for p_ in hi.split("/")) and len(ctx.violations) < 40:
            ctx.report("Document.Len on %r depends on earlier calls on the same document: after [1 / 2 / 3 lexemes / full read / Check] it says %s, on a fresh document %s" % (t[:80], hi, fr),
                       "jsonlenhist:" + t.hex(), {"text_hex": t.hex(), "text": t.decode("latin1"), "history_results": hi, "fresh": fr}, case=t)
    ctx.extra["len_history_cases"] = len(htexts)
    bad = [jsongen.mutate(rng, rng.choice(ss)) for _ in range(1500 if quick else 60000)] + list(jsongen.exhaustive(jsongen.ALPHA16, 3 if quick else 4))
    judge_errors(ctx, "malformed", bad)
    # ---- schema and enum halves, through the API (no Coq model of these scanners yet) ----
    import jsight as J
    import check_c18 as E18
    sep_pool = [x.decode() for x in SEPS]
    trail_pool = ["x", "GET /a", "TYPE @t", "}", "]", "200", "\"a\"", "{}", "URL /x\n  Path\n", "@t", ",", ":", "e1", "-",
                  "x\n", "x\nGET /a", "x\r\n\r\ny", "x y\n", "x//y", "x/*c*/", "x #c\n", "xyz\n{}", "]\n", "}\n\n"]
    slash_pool = ["/cats/{id}", "/abc/", "/x", "/cats\nGET /dogs", "/", "/", "/\n"]      # (// x or /* x */ on a following line still annotates a value that admits annotations)
    sl, smeta = [], []
    for _ in range(60 if quick else 3000):
        w = J.rand_rule_schema(rng, rng.randint(0, 3))
        stext = J.print_schema(w, rng)
        closed = stext.rstrip()[-1:] in "}]\""
        for _ in range(4):
            sep = rng.choice(sep_pool)
            if sep == "" and not closed:
                continue
            last = stext.split("\n")[-1]
            annot_tail = last.split("//", 1)[1].strip() if "//" in last else None
            pure_object = annot_tail is not None and annot_tail.startswith("{") and annot_tail.endswith("}") and annot_tail.count("{") == annot_tail.count("}") and '"' not in annot_tail
            if annot_tail is not None and not pure_object and "\n" not in sep and "\r" not in sep:
                continue          # a note runs to the end of the line: only a line break ends the schema
            t = rng.choice(trail_pool + (slash_pool if ("\n" in sep or "\r" in sep) and annot_tail is None else []))
            body = stext.strip(" \t\r\n")
            if body.startswith("[") and body.endswith("]") and body[1:-1].strip(" \t\r\n") != "" and ("\n" in sep or "\r" in sep) and rng.random() < 0.5:
                # no annotation can follow a top-level value that ends with a non-empty array: on a following line `//` and `/*` are foreign text, also behind blanks
                t = rng.choice(["", " ", "  ", "\t", "    "]) + rng.choice(["// x", "/* x */", "// {min: 1}", "/* {a: 1} */ y", "//", "/*"])
            if pure_object and "\n" not in sep and "\r" not in sep and t[:1] in "-#/":
                continue          # after the closing bracket of an inline annotation object a note, a comment or another annotation may still follow on the line
            sl.append(json.dumps({"schema": stext + sep + t, "ops": [["len"]]}))
            smeta.append((stext, sep, t))
    # fixed: values after which no annotation can follow (they end with a non-empty array), then a line break, blanks and an annotation opener
    for stext in ("[1, 2]", "[\n  1,\n  2\n]", '[ // {minItems: 1}\n  "a"\n]', "[[1], [2]]", '{"ids": [1]}', '{"a": {"b": [true]}}', "[@t]", '[{"k": 1}]'):
        for sep in ("\n", "\r\n", "\n\n", " \n", "\r"):
            for ind in ("", " ", "\t ", "    "):
                for t in ("// x", "/* x */", "// {min: 1}\n", "/* {a: 1} */ y", "//", "/*", "/x"):
                    sl.append(json.dumps({"schema": stext + sep + ind + t, "ops": [["len"]]}))
                    smeta.append((stext, sep, ind + t))
    for (stext, sep, t), o in zip(smeta, vc.impl_parallel(["schema"], sl)):
        r = json.loads(o)[0]
        ctx.evaluations += 1
        want = str(len(stext.rstrip(" \t\r\n").encode()))
        if r != want and len(ctx.violations) < 40:
            info = {"kind": "schema", "S": stext, "sep": sep, "trail": t, "implementation": r, "expected": want, "direct": sep == ""}
            ctx.report("schema Len(%r + %r + %r) = %s, the schema ends at %s" % (stext[-50:], sep, t[:15], r, want), "schemalen:" + stext + sep + t, info, case=info)
    el, emeta = [], []
    for _ in range(60 if quick else 3000):
        vals = E18.sample_values(rng, rng.randint(1, 5))
        etext = E18.enum_text(rng, vals)[0]
        for _ in range(4):
            sep = rng.choice(sep_pool)
            if "//" in etext.split("\n")[-1] and "\n" not in sep and "\r" not in sep:
                continue
            t = rng.choice(trail_pool + (["/cats/{id}", "/abc/", "/x", "/", "/"] if ("\n" in sep or "\r" in sep) and "//" not in etext.split("\n")[-1] else []))
            el.append(json.dumps({"text": etext + sep + t}))
            emeta.append((etext, sep, t))
    for (etext, sep, t), o in zip(emeta, vc.impl_parallel(["enumrule"], el)):
        r = json.loads(o)[1]
        ctx.evaluations += 1
        want = str(len(etext.rstrip(" \t\r\n").encode()))
        if r != want and len(ctx.violations) < 40:
            info = {"kind": "enum", "S": etext, "sep": sep, "trail": t, "implementation": r, "expected": want, "direct": sep == ""}
            ctx.report("enum Len(%r + %r + %r) = %s, the enum rule ends at %s" % (etext[-50:], sep, t[:15], r, want), "enumlen:" + etext + sep + t, info, case=info)
    # "Len returns an error when the text does not begin with a lexically complete schema": nothing-texts (empty, blanks, only a comment)
    nothing = ["", " ", "\n", " \t\r\n ", "# only a comment", "# c\n", "  # c\n  ", "### block ###", "### block ###\n",
               # annotations without a value: Check says 202 Empty schema (a note) or 803 (rules without an example)
               "// x", "/* x */", "// x\n", " \n// type", "# c\n// x", "/* x */ /* y */", "/* x */ // y", "// {min: 1}", "/* {min: 1} */\n", "// x\n\n"]
    for t, o in zip(nothing, vc.impl(["schema"], [json.dumps({"schema": t, "ops": [["len"]]}) for t in nothing])):
        r = json.loads(o)[0]
        ctx.evaluations += 1
        if not r.startswith("E") and len(ctx.violations) < 40:
            info = {"kind": "schema-nothing", "S": t, "implementation": r, "expected": "an error"}
            ctx.report("schema Len(%r) = %s although the text does not begin with a schema" % (t, r), "schemalen-nothing:" + t, info, case=info)
    ctx.classifiers["enum_nothing"] = lambda case: isinstance(case, dict) and case.get("kind") == "enum-nothing" and case.get("S", "x").strip(" \t\r\n") == ""
    enothing = ["", " ", "\n", " \t\r\n ", "// c", "// c\n", "/* c */"]
    for t, o in zip(enothing, vc.impl(["enumrule"], [json.dumps({"text": t}) for t in enothing])):
        r = json.loads(o)[1]
        ctx.evaluations += 1
        if not r.startswith("E") and len(ctx.violations) < 40:
            info = {"kind": "enum-nothing", "S": t, "implementation": r, "expected": "an error"}
            ctx.report("enum Len(%r) = %s although the text does not begin with an enum rule" % (t, r), "enumlen-nothing:" + t, info, case=info)
    cj = os.path.join(vc.ROOT, "corpus", "C14", "fixed-schema-len.json")
    if os.path.exists(cj):
        for c in json.load(open(cj)):
            r = json.loads(vc.impl(["schema"], [json.dumps({"schema": c["text"], "ops": [["len"]]})])[0])[0]
            ctx.evaluations += 1
            if r != str(c["expect"]):
                ctx.report("corpus: schema Len(%r) = %s, expected %s" % (c["text"], r, c["expect"]), "schemalen-corpus:" + c["text"], dict(c, implementation=r), case=c)
    import enum_cases
    enum_cases.stream(ctx, st, "l", quick, "c14")
    import schema_scan_cases
    schema_scan_cases.stream(ctx, st, "l", quick, "c14")
    ctx.extra["schema_len_cases"] = len(sl)
    ctx.extra["enum_len_cases"] = len(el)
    ctx.extra["cases"] = len(cases)
    ctx.samples.append({"S": cases[len(cases) // 2][0].decode("latin1"), "sep": cases[len(cases) // 2][1].decode("latin1"), "trail": cases[len(cases) // 2][2].decode("latin1")})
    jc.proof_tail(ctx, st, ["C14_*"])


def replay(ctx, path):
    r = json.load(open(path))
    st = jc.build(ctx)
    if st is None:
        return
    t = bytes.fromhex(r["text_hex"])
    if "S" in r:
        judge(ctx, "replay", [(r["S"].encode("latin1"), r["sep"].encode("latin1"), r["trail"].encode("latin1"))])
    else:
        judge_errors(ctx, "replay", [t])
