# one entry per claimed property: what the proof covers (text), what is trusted (note), the deciding method (technique)
CLAIMED = {
 "C19": {
  "text": "Full proof: theorem C19_refines (Coq, axiom-free) shows for every operation sequence of any length with arbitrary pure callbacks "
          "that the model of the generated ordered map (separate data map + order slice, linear-search delete, snapshot Filter, early-exit Map/Each) "
          "produces the same outputs - iteration traces, lookups, Len, marshalled pairs - as a reference insertion-ordered association list, keeps "
          "NoDup/key-set invariants, and C19_any_interleaving lifts this to every interleaving of per-goroutine sequences because every method is one "
          "atomic step: C19_lock_discipline is recomputed on every run over a table tabx translates from the three *_gen.go files (Lock/RLock first, "
          "deferred unlock, write lock iff writes, no re-entrant public calls, no escaping references). The model is tied to the code by running all "
          "three generated maps (ASTNodes, RuleASTNodes, internal Constraints through an overlay package) and the extracted model on every mutator "
          "sequence up to length 3 (quick) / 5 (thorough) over 3 keys x 2 predicates followed by all observers, plus random histories to length 200, "
          "and a -race stress run. Omap/OmapLaws.v spells the order discipline out law by law on the same model (C19_new_key_goes_last, "
          "C19_existing_key_keeps_place, C19_delete_then_set_moves_last, C19_get_after_set, C19_get_after_delete, C19_filter_twice, C19_update_keeps_keys, C19_map_keeps_keys, and C19_order_stable_set/_update/_delete/_filter: two live keys never swap places, C19_before_strict, C19_before_trans), each from any state "
          "satisfying the invariant; C19_iteration_is_birth_order (Omap/OmapBirth.v) states the order for whole histories: stamp each step with its index, "
          "remember per key the index of the Set that inserted it while absent - after ANY history the iterated keys are strictly sorted by that stamp, and the stamp of a live key is the position of a Set of that key in the history (C19_births_are_sets).",
  "note": "Trusted: Coq kernel; tabx's reading of the lock prologue; extraction (ExtrOcamlBasic) and modelrun; the Go harness adapters (int<->ASTNode projection); "
          "sync.RWMutex gives mutual exclusion; callbacks are pure and non re-entrant. Real data races are only observed by the -race stress, not proved.",
  "technique": "Coq refinement proof (model of generated map = reference association list, by induction over histories) + computed lock-discipline theorem over a table translated from source + exhaustive/random correspondence runs",
 },
}
CLAIMED["C10"] = {
  "text": "Full proof for every RFC 8259 numeral except one refused shape: C10_scan_render_value shows that the model of the library's number scanner/normaliser "
          "(9 states, intLen/fraLen/expBegin, ParseInt with explicit uint wrap, getNatural's three cases, both trims, zero loses its sign) maps render(u) of ANY well-formed "
          "numeral u (any digit counts, either exponent case/sign, exponent within Go's int) to a canonical number whose rational value equals the numeral's; "
          "C10_canonical_unique: equal value => identical normal form; C10_cmp_exact: Cmp = Qcompare on values; C10_min/max_ok_exact; C10_integer_iff / C10_precision_iff: "
          "fractional length 0 / <= p iff value (x 10^p) is an integer; C10_neg_zero_is_zero. All axiom-free. The refused shape 0e1 is C10_zero_int_exp_refuted (known finding). "
          "Tie: model vs library on every string <= 5 (quick) / 6 (thorough) chars over {-,0,1,5,9,.,e,E,+}, every numeral <= 6/7 chars and all pairs <= 3/4 chars, random 60-digit "
          "numerals with |exp| <= 400 against re-spellings and 1-ulp neighbours, all also against python Fraction, and Validate verdicts for min/max/exclusive at API level.",
  "note": "Trusted: Coq kernel; extraction + modelrun; overlay package re-exporting internal/json; python Fraction as second oracle. Exponents >= 2^63 and |exp| > 400 are outside "
          "the quantifier. Known finding C10-zero-int-exponent (0e1 refused) is excluded by hypothesis zero_int_then_exp = false, exactly the class the check silences.",
  "technique": "Coq proof: scanner model on render(u) yields canonical form with exact Q value; Cmp = Qcompare (induction over digit strings) + exhaustive/random correspondence with exact rational oracle",
}
CLAIMED["C07"] = {
  "text": "Part A (template/argument agreement) is a full proof by translation: tabx extracts from the Go source on every run all error codes, all templates, all "
          "errors.Format call sites (incl. calls through the newDocumentError / NewValidatorError wrappers) with their argument counts, and all bare uses of a code as an error "
          "value; C07_every_code_has_template, C07_site_arity and C07_bare_codes_have_no_placeholders are decided by vm_compute inside the kernel and lifted to 'for every site in "
          "the table'. PARTIAL for the rest: 'no public method panics or hangs, every error is a library error with a position inside its source whose Error() renders' is checked "
          "by grammar-aware and byte-level fuzzing (every testdata schema/enum/type/json + hand seeds, truncation at every offset, token mutations up to 4 KiB, every "
          "constructor/method combination in two orders, with an intrinsic oracle), not proved; byte-level totality theorems for the scanner models are added with those models.",
  "note": "Trusted: Coq kernel; tabx's go/ast reading of call sites (unknown shapes fail loudly); the fuzz harness' classification of error values (wrapped errors are unwrapped "
          "with errors.Unwrap). The fuzzing part is sampling: it can miss inputs; it found and led to eight fix: commits (see known_findings.json).",
  "technique": "Coq computed theorems over error tables translated from source (tabx) + differential-free fuzzing of the public API with an intrinsic no-panic/structured-error oracle (sampled part labelled partial)",
}
CLAIMED["C17"] = {
  "text": "Rendering half - full proof on the model of errors/document.go: C17_slice_bounds (line begin <= position, begin <= end <= length for ANY content and position: every slice the "
          "Go code takes is in range, so rendering cannot panic), C17_detect_nl_* (the new-line byte chosen is LF for LF and CRLF files, CR for CR files), C17_line_number_lf/cr/crlf "
          "(1 + line breaks before the position), C17_line_text_lf/cr (the shown text is the containing line, left-trimmed, truncated to 197 bytes + '...' beyond 200) and "
          "C17_caret_lf/cr (caret offset = column minus trimmed blanks) for every file and position; axiom-free. Tie: every content over {a,space,tab,LF,CR} up to length 5 (quick) / 7 "
          "(thorough) x every position and random long-line files, library vs extracted model vs an independent python oracle. Position half - PARTIAL: the JSON parse-error position "
          "(first byte that cannot continue the text, last byte when truncated) is compared with an independent LL(1) parser and with the Coq scanner model on exhaustive / truncated / "
          "mutated texts, and validation-error positions are checked for planted unknown keys and wrong-kind values at every nesting position (position = start of the key / value); "
          "the viable-prefix theorem for the scanner model is not proved.",
  "note": "Trusted: Coq kernel; extraction; harness parsing of Error() text; python oracle (lib/check_c17.py) for line/caret on uniform files and lib/jsonref.py for positions. "
          "Files mixing CR and LF irregularly are only covered by totality. The renderer defect (negative caret count) was fixed in c5cac3c.",
  "technique": "Coq proofs about the renderer model (bounds, line number, line text, caret for all files/positions) + exhaustive small-file correspondence; sampled differential check of parse-error positions",
}
CLAIMED["C01"] = {
  "text": "Proof on an operational model of the event-driven validator for the rule-free fragment (objectValidator's shrinking set of required keys, unknown key -> 206, arrayValidator's "
          "Child(min(i,last)) and 1203 on an empty example, literalValidator + checkNotAnEnum kind matrix incl. integer-for-float and null-with-nullable, anyNestedStructure), any depth "
          "and size: C01_validate_iff_shape (validate = None <-> shape_ok, UNCONDITIONAL since fix 3827ce7 repaired nullable containers), C01_nullable_container_accepts_null / "
          "C01_non_nullable_container_rejects_null, C01_shape_ok_perm / C01_validate_perm (property order in the document is irrelevant), "
          "C01_keys_optional_by_default (the option only marks unmarked keys optional), C01_literal_cases, C01_empty_array_only_empty, C01_array_elements_by_min_index. Axiom-free. "
          "Tie: generated schemas to depth 5 with every optional/nullable/any mix under both configurations x conforming documents and typed mutations (drop/add/duplicate/reorder key, "
          "int<->float, kind swap, null injection, array truncate/extend, escaped key spellings, payloads under any) + a small exhaustive universe; library verdict and error code vs the "
          "extracted model, verdict vs shape_ok.",
  "note": "Trusted: Coq kernel; extraction; the python printer of schemas/documents and the wire encoding parsed inside Coq; the model is recursive over the document value rather than event-driven "
          "(same error code for the first failing event is checked by the correspondence, positions are not; for a nullable container the two-leaf outcome of Tree.FeedLeaves is written out in container_mismatch).",
  "technique": "Coq proof (operational validator model = declarative shape predicate, nested induction over documents) + generated/mutational correspondence on verdict and error code",
}
CLAIMED["C08"] = {
  "text": "PARTIAL. Proved by translation (tabx -> Gen/RuleTables.v, recomputed on every run): C08_matrix / C08_matrix_entry - the 26x8 table of IsJsonTypeCompatible bodies equals the "
          "statement's applicability table (numeric rules on numbers, precision on float, length/regex/formats on strings, item counts on arrays, additionalProperties/allOf/required-keys on "
          "objects, const/enum on scalars, optional/nullable/type/or/any anywhere); C08_formats_exclude_length_and_regex over allowedConstraintCheck's banned pairs; C08_rule_names. "
          "NOT proved: the whole compile pipeline's iff and its permutation invariance; these are checked through the API: every single rule x node kind at root and as a property, "
          "ordered/equal/unordered paired bounds with exclusive flags, exclusive flag (true or false) without its bound, precision/decimal, format + length/regex, enum/any/or with "
          "foreign rules, unknown and duplicate rules; and order independence by running all permutations (<= 4 rules) or 24 random ones of 250 (quick) / 6000 (thorough) mixed rule sets "
          "and requiring identical verdict and error code.",
  "note": "Trusted: Coq kernel; tabx's evaluation of the boolean bodies (unknown shapes fail loudly); the harness. The API-level part is enumeration/sampling, not proof. The order dependence the "
          "pinned tree had ({nullable:false, const:false, ...}) came from the ordered map's Filter and is fixed by fc34ee4.",
  "technique": "Coq computed theorems over rule tables translated from source + API-level enumeration of rule/kind combinations and exhaustive/sampled permutation runs (partial)",
}
CLAIMED["C09"] = {
  "text": "Recursion half - full proof on a model of the recursion checker (depth-first over required properties and type shortcuts, visited = names on the current path with undo, "
          "an or-list fails only if every member fails, unknown names pass): C09_check_iff_inhabited (the verdict is 'no error' iff the root has a finite inhabitant, the least-fixpoint "
          "spec Inhabited), C09_reject_sound, C09_accept_sound, C09_check_terminates (the fuel bound S(size + (|g|+1)(env_size+1)) is never hit), C09_check_fuel_mono; axiom-free, any graph size. "
          "Tie: generated graphs over <= 6 types with required/optional references, array items, or-shortcuts, nested objects, additionalProperties types, alias/union types and missing "
          "types + all graphs on 2 types over 6 edge forms, in both registration styles; Check code vs the extracted model and vs inhabited_b. PARTIAL for the rest: 1302-iff-missing, "
          "UsedUserTypes = names of the root text, and termination of Check/Validate(Example())/Example on accepted graphs are checked by these runs (crash-isolated, 10 s alarm), not proved; "
          "allOf-parent and key-shortcut edges are not generated yet.",
  "note": "Trusted: Coq kernel; extraction; the abstraction of a type's schema to TLeaf/TObj/TRef done by the python printer (lib/check_c09.py) - the model sees what the generator says the "
          "checker sees. Known finding C09-root-only-registration-cycle: with types added to the root only, the checker resolves nested names in an empty list; silenced only when the "
          "library's verdict equals a python transcription of exactly that pinned behaviour.",
  "technique": "Coq proof (path-DFS over an and-or type graph decides least-fixpoint inhabitation; termination within fuel) + generated-graph correspondence; sampled checks for link resolution/used types/termination",
}
CLAIMED["C04"] = {
  "text": "PARTIAL. Proved (Shape model, rule-free fragment, any depth): C04_self_valid_all / C04_self_valid - the validator model accepts the schema's own example under both key-optionality "
          "configurations (keys distinct, as the loader enforces with error 402; C04_example_dup_keys_refuted shows the hypothesis is needed), C04_example_has_shape. For schemas with rules "
          "the implication 'Check ok => Validate(example) ok' and its converse 'a violated rule => Check fails at the offending value' are decided by generated cases through the API: schemas "
          "to depth 4 whose nodes carry satisfied rule sets (min/max/exclusive, precision+decimal, min/maxLength, regex, enum, declared type, five formats, min/maxItems, nullable, "
          "optional) and every single-rule corruption at every nesting position, with the reported position compared to the byte offset of the corrupted value.",
  "note": "Trusted: Coq kernel; the python generator/printer and its offset computation. Rule semantics beyond the numeric ones (C10) are not modelled in Coq; that part is differential testing.",
  "technique": "Coq proof of self-validity on the rule-free validator model + generated satisfied/corrupted rule schemas through Check/Validate with position oracle (partial)",
}
CLAIMED["C05"] = {
  "text": "Full proof, all byte strings of any length and nesting depth: C05_check_iff_JsonText - the model of Document.Check (35-state pushdown scanner with its queue of found events, "
          "stack pairing, end-of-input rule and empty-document rule) accepts bs iff bs is blanks ++ render v ++ blanks for a value tree v whose leaves are RFC 8259 number/string/true/false/null "
          "tokens with arbitrary blanks at the structural gaps (generative grammar); obtained as C05_check_strict_iff (scanner = recursive-descent reference recogniser, by one simulation "
          "equation with the stack generalised) composed with rfc8259_iff_JsonText (recogniser = grammar, both directions). C05_check_trailing_iff: with AllowTrailingNonSpaceCharacters Check "
          "succeeds iff the text begins with one complete value, numbers taken maximally. C05_scan_no_panic / C05_check_no_panic (no internal panic, stack never mismatched), "
          "C05_check_error_position (every error position lies inside the input). All axiom-free. Tie: every string over a 16-symbol class alphabet up to length 4 (quick) / 6 (thorough), "
          "letters of the literals up to 4/5, generated valid texts, all their truncations, token mutations, each strict and with trailing allowed, library vs extracted model vs an "
          "independent python recogniser; plus history probes (Check after NextLexeme/Len/Check equals a fresh Check).",
  "note": "Trusted: Coq kernel; extraction; hex wire; lib/jsonref.py as second oracle. The truncated-number defect (1. 1e 1e+) was found by this check and fixed in 7128bde; the model follows the fixed code.",
  "technique": "Coq proof: pushdown scanner model = recursive-descent recogniser = generative RFC 8259 grammar (simulation by equation + LL(1) soundness/completeness) + exhaustive small-string correspondence",
}
CLAIMED["C15"] = {
  "text": "PARTIAL. Proved: C04_self_valid_all (the rule-free validator model accepts the schema's own example, both configurations). The example builder itself is not modelled; the property is "
          "decided by generated cases through the API: plain-JSON schemas with rules (Example = example without annotations/blanks, byte for byte), type graphs with references, or-shortcuts, "
          "alias types, additionalProperties types, key shortcuts (incl. escaped examples), enum rules, allOf, keys with quotes/backslashes/control characters: Example() must be well-formed "
          "JSON (independent recogniser) and Validate(Example()) must succeed; Example() repeated after Example() on another schema must be identical.",
  "note": "Trusted: python generators and lib/jsonref.py. Two defects were fixed (dangling comma a896412, unescaped keys 7c6cdda); known finding C15-recursion-cutoff (required property dropped at the "
          "recursion limit / first or-alternative loops) is silenced only for recursive graphs rejected with 204/205.",
  "technique": "generated schemas/type graphs through Check/Example/Validate with intrinsic oracle (well-formed + self-accepted + plain-equality); Coq self-validity theorem on the rule-free model (partial)",
}
CLAIMED["C16"] = {
  "text": "Proved on the rule-free fragment (Schema/Ast.v): C16_ast_preorder (one AST node per example value, in source order, with key and token kind), C16_ast_size_is_node_count, C16_ast_root "
          "(key and rules as written), C16_ast_children_keys (properties in declaration order). PARTIAL for schemas with rules, shortcuts and types: GetAST is compared with the AST computed from the generator's abstract schema for generated schemas "
          "to depth 4 with rules in random written order, literals with trailing zeros, enum lists of mixed kinds, declared and inferred types, formats, notes; fixed cases cover type/or "
          "shortcuts (reference nodes, generated markers), key shortcuts, or rule-sets with nested objects and allOf (inherited properties absent). Any difference is reported with its JSON path.",
  "note": "Trusted: lib/jsight.py expected_ast and the harness' JSON rendering of ASTNode/RuleASTNode. This is differential testing against a specification-derived oracle, labelled partial.",
  "technique": "Coq proof that the AST model mirrors the written schema (rule-free fragment) + differential check of GetAST against an oracle computed from the abstract schema",
}
CLAIMED["C02"] = {
  "text": "PARTIAL. Proved: the numeric rules are exact on every numeral (C02_min_exact, C02_max_exact, C02_precision_iff re-export the C10 theorems: min/max/exclusive verdicts are "
          "Qcompare on exact values, precision p accepts iff value*10^p is an integer); C02_date_ok_iff (the model of time.Parse(\"2006-01-02\") accepts s iff s = YYYY-MM-DD of a valid "
          "proleptic-Gregorian date with year <= 9999, incl. leap-year rule) and C02_uuid_ok_shapes (exactly the four shapes of google/uuid's parser). The remaining rules (lengths, regex, "
          "enum, const, email/uri/datetime, nullable-null, inert false rules, admissible kinds) are decided through the API against a python transcription of the statement on boundary "
          "probes: bound-ulp/bound/bound+ulp in several spellings (trailing zeros, exponent forms, negative zero), byte lengths n-1/n/n+1 in ASCII, multi-byte and escaped strings, kind "
          "look-alikes for enum, every year/month/day boundary, the uuid shapes; every rule set also with nullable:true (null must be accepted) and with nullable:false/const:false added "
          "(verdicts unchanged). Date/uuid models are additionally run against the same oracle.",
  "note": "Trusted: Coq kernel; python oracle lib/check_c02.py (regex via python re on a common subset with $ mapped to \\Z; email/uri/datetime only on clearly valid/invalid probes; string length in "
          "bytes of the decoded UTF-8). Fixed: null under nullable:true with other rules (776b81f). Known: documents spelled 0e1 (C10 finding).",
  "technique": "Coq theorems for numeric rules (exact Q semantics), date and uuid models + boundary-directed differential check of Validate against the statement's rule semantics (partial)",
}
CLAIMED["C03"] = {
  "text": "Proved (Schema/Union.v, any type graph incl. recursive ones, fuelled denotation): C03_accepts_union (a position naming a ++ b accepts the union), C03_accepts_nullable_null, "
          "C03_accepts_member, C03_accepts_fuel_mono, C03_allOf_flatten (an object with allOf parents accepts exactly what the object with the transitively inherited members written out "
          "accepts), and the validator's machine for a position naming types - transitive expansion of alias types into leaf validators with the per-position 'each name once' set, the position "
          "failing only when every leaf fails - is sound and complete for that denotation: C03_validate_refs_sound / C03_validate_refs_complete (no NoDup hypothesis; nullable aliases included). "
          "PARTIAL: the event-level leaf tree (shared parents, step-back) is not modelled; against the real code Validate is compared with a python transcription of the statement's set semantics - a position naming types accepts the union of "
          "the named types (+ null when nullable), allOf = own plus transitively inherited property requirements, additionalProperties decides every unnamed key (absent/false: forbidden; true; a "
          "JSON kind; a user type) - on generated type graphs of up to 6 types (overlapping integer ranges, objects with required/optional references, unions, nullable aliases, arrays of unions "
          "with positional examples after them, optional self-recursion, allOf chains with 1-2 parents also used directly) and documents obtained from derived inhabitants by typed mutations, plus "
          "dedicated families for overlapping alternatives inside arrays and allOf children without own required keys. Key shortcuts (@K: v) are not generated yet.",
  "note": "Trusted: the python semantics in lib/check_c03.py. Differential testing, not proof. It found the shared-parent defect ([@A | @B, \"s\", 3] accepted [1,3]), fixed in e76ac42.",
  "technique": "Coq proofs of the set laws of the denotation and of soundness/completeness of the validator's type-expansion machine + differential check of Validate against the same semantics on generated type graphs",
}
CLAIMED["C06"] = {
  "text": "Proved on the JSON scanner model, for every byte string: C06_spans_inside (every delivered event has begin <= end < length of the input), C06_events_nested (replaying the stream on a stack "
          "never mismatches: each closing event pairs with the open event of the same kind and the same begin offset) and C06_events_balanced_when_accepted (for an accepted text the stream "
          "closes everything it opened). PARTIAL for the rest: 'literal and key spans are exactly the source tokens, container spans run bracket to bracket, the value can be rebuilt from the "
          "events alone, the schema and enum scanners deliver the same sequence' are decided by comparison, on generated valid texts (depth 8, width 8, all scalar forms, \\u escapes with hex "
          "letters, multi-byte keys, nested empties, random blanks), of the library's NextLexeme stream with token spans computed by an independent parser, with the value rebuilt from the events "
          "against python's json, with the raw streams of the schema scanner and (arrays of scalars) the enum scanner obtained through overlay hooks, and with the extracted Coq model's stream; "
          "plus history probes (the stream after Check/Len equals the stream of a fresh document).",
  "note": "Trusted: Coq kernel; extraction; lib/jsonref.py; overlay hooks exposing the schema/enum scanners' Next(). No Coq model of the schema and enum scanners exists yet, so the cross-scanner clause is sampled.",
  "technique": "Coq invariants over the scanner model's run (spans inside, nesting, balance) + differential check of event streams against an independent tokenizer and across the three scanners (partial)",
}
CLAIMED["C14"] = {
  "text": "JSON-document half - full proof on the scanner model: C14_len_of_document_then_foreign (for ANY accepted document doc, blank separator sep and foreign byte c - directly after doc only "
          "when doc ends in a bracket or quote - Len(doc ++ sep ++ c :: rest) succeeds and equals the length of doc without trailing blanks), C14_len_of_document_alone, "
          "C14_len_error_when_no_document (Len fails whenever the text does not begin with a complete value), C14_doc_len_verdict (Len errs exactly when Check errs). Tie: generated accepted "
          "documents x 13 separators x 20 trailing texts from a directive-like alphabet, the prefix re-scanned to the same event stream, malformed prefixes for the error side; library vs "
          "extracted model vs expected length. The schema-scanner and enum-scanner halves have no Coq model: they are decided through the API (generated schemas / enum rules x separators x trailing texts, "
          "Len = length without trailing blanks) - PARTIAL for those halves.",
  "note": "Trusted: Coq kernel; extraction; the generator. Two defects were found and fixed: Len one byte short before a directly following foreign byte (1915ee1) and Len of an empty document returning "
          "0 without error (8a6afee).",
  "technique": "Coq proof of Len = document length on the JSON scanner model (event spans + end-of-input rule) + generated S x separator x trailing-text correspondence (JSON half; schema/enum halves not covered)",
}
CLAIMED["C18"] = {
  "text": "Regex half - proved on the model of regex.go's token extraction: C18_extract_sound / C18_extract_complete (the pattern of /P/ is exactly the text up to the first '/' not escaped by an "
          "unpaired backslash, non-empty), C18_regex_len_is_token_length (Len = |/P/|), C18_extract_deterministic_prefix (what follows the token is irrelevant). PARTIAL for the rest: through "
          "the API, enum rules (all scalar kinds incl. look-alikes, one-line/multi-line layouts, inline and multi-line comments, LF/CRLF): Check, Len, Values and GetAST in source order with "
          "kinds and comments, duplicates rejected, and {enum: @E} vs the inline list give identical verdicts equal to type-sensitive membership; regex types from a printable-ASCII grammar: "
          "Len, Pattern, Example matches P (Go regexp), and @T = /P/ vs inline {regex: P} give identical verdicts equal to a python search; the Coq token model is run on the same texts.",
  "note": "Trusted: Coq kernel; extraction; python re as oracle on a common regex subset; Go regexp for 'Example matches P'. No Coq model of the enum scanner: the enum half is differential.",
  "technique": "Coq proof of the /P/ token extraction + differential checks named-vs-inline for enum rules and regex types (partial)",
}
CLAIMED["C11"] = {
  "text": "Proved on the model of the public objects' caching and pooling (Api/Objects.v; the pure functions behind the operations are universally quantified): C11_history_independent - after ANY "
          "history of operations on any objects, an operation returns the pure function of its object's source, and every once-cell holds that value; C11_same_as_fresh; "
          "C11_returned_values_stable - with an adversarial sync.Pool (any pooled buffer or a fresh one), values handed to the caller by the repaired Example() never change; C11_alias_refuted - "
          "the pre-fix variant (returning the pooled buffer) does change them. PARTIAL: that the real operations ARE pure functions of the source (no hidden state, no map-order dependence) is "
          "checked by histories of up to 12 operations over pools of schemas/documents/enum/regex objects, each result compared with the same operation on fresh objects, every history run 3 times "
          "(Go randomises map order per run), and every handed-out value re-rendered after the whole history. Forced iteration orders per range-over-map site are not implemented.",
  "note": "Trusted: Coq kernel; the abstraction of once-cells and the pool; the history harness. Four defects were found and fixed (pooled Example buffer, exhausted Document, map-order dependent Check "
          "error, advancing regex generator).",
  "technique": "Coq invariant proof over operation histories (once-cells, adversarial buffer pool) + history-vs-fresh-object differential runs repeated for map-order sampling",
}
CLAIMED["C12"] = {
  "text": "Proved on the once-cell state machine (goroutines interleaved at sync.Once's critical steps): C12_once_at_most_once (in every schedule the protected body runs at most once), "
          "C12_once_same_result (every goroutine that returns gets the body's result), C12_once_exactly_once_when_done, C12_once_can_finish; together with C11_history_independent this gives "
          "'every call returns what it returns sequentially' at the model level. PARTIAL by nature: real data races, the Go memory model and the scheduler cannot be exhibited by a Gallina "
          "model; they are observed by a -race stress (8/16 goroutines quick, 2..32 thorough; random mixes of Check/Validate/Len/Example/GetAST/UsedUserTypes on shared schemas re-created every "
          "round, private schemas created concurrently, optionally from the same user-type objects), every result compared with the sequential oracle.",
  "note": "Trusted: Coq kernel; that internal/sync ErrOnce is sync.Once + a stored value (not checked from source); the race detector. Fixed: Example() pool race (12828dc). Known finding: shared type "
          "objects + allOf compiled concurrently.",
  "technique": "Coq proof about the once-cell interleaving model + race-detector stress with sequential-oracle comparison (partial: races observed, not proved absent)",
}
CLAIMED["C13"] = {
  "text": "PARTIAL. Proved (document half): C13_document_property_order / C13_shape_property_order (the validator model's verdict is invariant under permutation of an object's members), "
          "C13_document_outer_whitespace and C13_any_layout_accepted (every layout of a well-formed value tree, with any blanks at the gaps and around it, is an accepted document). No theorem "
          "for string escapes and for the schema half (line ends, indentation, comments, annotation forms, notes, quoted rule names, trailing comma, rule order): those are decided by equality of "
          "Check verdict, AST (comments aside, rules as a set) and validation verdicts across random compositions of the rewrites on generated schemas, and of verdicts across re-spelled documents.",
  "note": "Trusted: Coq kernel for the document-half theorems; lib/check_c13.py printers for the rest (intrinsic oracle: equality across spellings). Fixed: const compared raw tokens (9535bc2).",
  "technique": "Coq theorems for document property order and whitespace + metamorphic check (equality across meaning-preserving respellings) for the schema half and string escapes (partial)",
}
NOT_APPLICABLE = {}

# ---- additions of the second session (kept separate so that the first-session texts stay readable) ----
CLAIMED["C02"]["text"] += (" Added: Text/Unquote.v models bytes.Unquote (unquoteBytes, getu4, utf8.DecodeRune/EncodeRune, utf16 surrogates): C02_length_is_decoded_length - for every spelling of a "
                           "string value the length rules see the UTF-8 length of the value; C02_string_tokens_always_unquote - a token the JSON scanner accepts never makes unquoteBytes fail. "
                           "The model runs against bytes.Unquote on structured spellings, malformed tokens and all tokens over a 10-byte alphabet to length 3 on every check.")
CLAIMED["C13"]["text"] += (" Added: C13_escape_respelling / C13_utf8_roundtrip (Text/UnquoteProofs.v): any two admissible spellings of one string value (literal UTF-8, two-byte escapes, \\uXXXX in "
                           "either case, surrogate pairs) are decoded to the same bytes, for strings of any length; C13_document_property_order no longer needs a hypothesis. The check also permutes "
                           "the rules inside or rule-sets.")
CLAIMED["C17"]["text"] += (" Added (Json/ViableProofs.v): C17_parse_error_at_first_non_viable_byte - Document.Check's model fails with 301 at p exactly when the prefix before p can be continued to an "
                           "RFC 8259 text and the prefix including p cannot, and with 303 at the last byte exactly when the input is a viable but incomplete text; "
                           "C17_non_viable_rejected_at_first, C17_early_end_reported_at_last_byte (the converses). Validation error positions are checked on planted mismatches incl. nullable containers.")
CLAIMED["C01"]["text"] += " Since fix 3827ce7 there is no known finding for this property."
CLAIMED["C15"]["text"] += (" Since fix 6ca17f0 (terminating construction in the example builder) there is no known finding; the check also runs every type graph of the C03 generators.")
CLAIMED["C03"]["text"] += (" The check now also generates the reference forms {type: \"@T\"} and {or: [names / rule-sets]} with and without nullable, key shortcuts (required/optional, several matching keys) "
                           "and several unnamed keys per object under every additionalProperties form; fixes 7566a1d and 59f50c1 came from these streams.")
CLAIMED["C01"]["text"] += (" Added (Schema/Machine.v + MachineProofs.v): C01_event_machine_equals_model - the event-level model of the validator (Tree.FeedLeaves over leaf stacks with "
                           "identities; object/array/literal/null/any validators fed the scanner's events) returns exactly the verdict AND error code of the recursive model, for every schema and "
                           "document; the extracted machine runs against the library on every check.")
CLAIMED["C03"]["text"] += (" Added: C03_event_machine_accepts_iff_denotation - on a closed type graph in which every reference position has at least one validator (mprod; implied by the absence of pure "
                           "alias cycles, lemma mprod_of_productive) the event-level machine (unions as several leaves sharing a parent, has_leaf, ErrOrRuleSetValidation when all fail, "
                           "additionalProperties validators, nullable as a null-only leaf) accepts exactly the documents of the denotation maccepts; C03_event_machine_no_panic; "
                           "C03_event_machine_empty_alias_refuted documents what happens behind the C09 known finding. The machine, maccepts and the python semantics are compared with the "
                           "library on every generated graph (verdict and code).")
CLAIMED["C08"]["text"] = CLAIMED["C08"]["text"].replace("PARTIAL. ", "", 1) + (
    " Added (Schema/RulePipeline.v, RulePipelineSpec.v, RulePipelineProofs.v): a model of what Check does with the rules of one annotated node - the loader's left-to-right fold with "
    "duplicate detection, the twelve compile passes in the library's order over an insertion-ordered constraint map, the allOf pass and the checker (compatibility matrix and banned pairs "
    "taken from the tabx translation, example-obeys-rules) - with C08_verdict_order_independent (the verdict is invariant under every permutation of the written rules) and "
    "C08_check_iff_statement (inside in_scope, Check succeeds iff the declarative transcription spec_ok of the statement holds); the three C08_statement_refuted_* witnesses delimit in_scope. "
    "The pipeline model, spec_ok and the library are compared on 75k (quick) / 500k (thorough) generated cases per run incl. all permutations of sets of <= 4 rules.")
CLAIMED["C08"]["technique"] = "Coq proof (sequential pipeline model over an ordered map = declarative statement; permutation invariance) + translated tables + generated correspondence on verdict and code"
CLAIMED["C15"]["text"] = CLAIMED["C15"]["text"].replace("PARTIAL. ", "", 1) + (
    " Added (Schema/Example.v, ExampleProofs.v): a model of the example builder as repaired by 6ca17f0 (strict construction with fall-back) with C15_example_accepted_by_type_graph - "
    "whatever the strict builder returns for a node of a type graph with distinct keys is accepted by the set semantics of that node - and C15_plain_example_is_the_example; the builder "
    "model's output shape is compared with Example() on the rule-free skeletons of the generated graphs.")
CLAIMED["C06"]["text"] += (" Added: executable Coq models of the enum-rule scanner (Enum/EnumScanner.v, 33 step functions) and of the JSight schema scanner (SchemaScan/SchemaScanner.v, 55 step functions, "
                           "annotations, shortcuts, comments, length mode), each validated against the library's raw event streams on millions of inputs when written and on ~15k texts x 2 modes on every "
                           "check. Proved for all byte strings: C06_enum_scanner_agrees_with_json_scanner and C06_schema_scanner_agrees_with_json_scanner - on a text without comments / annotations / "
                           "shortcuts that the scanner accepts, its events other than NewLine are exactly the JSON scanner's events (the cross-scanner sentence of the property, as a theorem between "
                           "pushdown machines); C06_enum_spans_inside, C06_schema_spans_inside (with the two exact corner cases); C06_*_event_codes_match_source and C06_is_opening_matches_source - the "
                           "event types and IsOpening of all three models are those of internal/lexeme/lex_event_type.go (translated by tabx on every run).")
CLAIMED["C07"]["text"] += (" Added: C07_enum_scanner_no_panic and C07_schema_scanner_no_panic / C07_schema_len_no_panic - the models of the two scanners never end in an internal panic (stack discipline, "
                           "returnToStep, look-ahead, Length's index) for any bytes in either mode. The API fuzz also calls NextLexeme after the end of a stream, feeds every rule name with degenerate "
                           "values on every example kind, self-referential types in key/value position and a second added type inheriting a defect with allOf; a process-killing input is isolated by "
                           "bisection. Five defects found this way were repaired (b5ed04f, 2d806bf, fe045a3, 6ce007e, 0d7fa20).")
CLAIMED["C14"]["text"] += (" Added for the enum and schema halves (models Enum/EnumScanner.v enum_len, SchemaScan/SchemaScanner.v schema_len, run against Enum.Len / Schema.Len on every check): "
                           "C14_enum_len_prefix, C14_enum_len_stable (Len of the prefix Len returns is the same number), C14_schema_len_prefix, C14_schema_len_positive - what Len returns is a prefix "
                           "length, not ending in a blank, positive when the text begins with a value. JSON Len is also probed after 1..3 lexemes / a full read / Check on the same document.")
CLAIMED["C17"]["text"] += (" Added: C17_schema_error_position_inside and C06_enum_error_position_inside - an error of the schema / enum scanner models points inside the text (the last byte when it ends "
                           "early); one DocumentError moved with SetIndex renders like a fresh one (checked on every run).")
CLAIMED["C18"]["text"] += (" Added: the enum scanner model and its theorems (see C06/C07/C14) cover the rule's Check verdict, which is compared with Enum.Check on every run; rule and regex objects shared "
                           "by several schemas, stand-alone and empty comments are generated; fix edd119f (empty // comment) came from the model's differential run.")
for k in ("C06", "C14"):
    CLAIMED[k]["text"] = CLAIMED[k]["text"].replace("PARTIAL. ", "", 1) if CLAIMED[k]["text"].startswith("PARTIAL. ") else CLAIMED[k]["text"]

# ---- additions of the fourth round (hunters, loader model, Len and opener theorems) ----
CLAIMED["C16"]["text"] = (
    "Proved. (a) Schema/Ast.v, rule-free abstract fragment: C16_ast_preorder, C16_ast_size_is_node_count, C16_ast_root, C16_ast_children_keys. (b) SchemaScan/Loader.v is an executable model "
    "of the whole schema loader (scanner events -> example nodes with their rules as written -> the AST view GetAST builds: nodeLoader and the Grow methods, the 11-state rule loader, the "
    "enum / allOf / or / or-rule-set loaders, every constraint constructor, the compile pass the loader runs on rule-sets, error positions through the nested CatchLexEventError). "
    "SchemaScan/LoaderProofs.v proves about it, for texts of any size: C16_load_mirrors_json / C16_load_mirrors_plain_json - for every JSON value tree (any depth and width, any blanks and "
    "line breaks in every gap) without exponent numerals and with pairwise distinct keys in every object, load(text) is exactly the mirror image of the text: one node per value in source "
    "order, keys unquoted, tokens as written; C16_ast_mirrors_plain_json / C16_loader_model_plain_json - the AST view is ast_mirror v (token kind and schema type read off the token, value, "
    "no rules), with C16_ast_node_count_plain_json and C16_ast_preorder_plain_json; C16_duplicate_key_refused(_first) - otherwise the loader fails with 402 at the opening quote of the first "
    "repeated key (offset computed), and C16_distinct_keys_iff_no_duplicate; C16_rules_in_written_order(_annot), C16_rule_duplicate_refused, C16_rules_added_iff_distinct - the rules a node "
    "reports are the written ones with names, values and order preserved, and a repeated rule is refused with 501. The exponent hypothesis is forced: the schema scanner refuses 1e5 (witness "
    "by vm_compute). PARTIAL beyond that: for annotated texts (rules, notes, shortcuts, comments) the loader model is tied to the library by the differential run only - a loader-only probe hook "
    "and GetAST are compared with the extracted model on ~11k (quick) / ~100k (thorough) texts per run (verdict, code, position, complete AST incl. every rule with source, token type, value, "
    "comment, items, props) - and GetAST is compared with the AST computed from the generator's abstract schema (rules in random written order, literals with trailing zeros, enum lists, "
    "declared and inferred types, formats, notes, shortcuts, rule-sets, allOf, notes after closing brackets, rule values as written).")
CLAIMED["C16"]["note"] = ("Trusted: the loader model's tie is the difftest (regexp.MustCompile and registered enum values are inputs the difftest asks the library for); lib/jsight.py expected_ast; the "
                          "harness' JSON rendering of ASTNode/RuleASTNode. Fixed: 86f69d0, f7150cd, 1d20475 (found by hunters and by the loader model's author).")
CLAIMED["C16"]["technique"] = "Coq model of the schema loader with mirror theorems (text -> nodes -> AST) for plain JSON of any size and the rule-order mechanism + differential run of the loader model and of an abstract-schema oracle against GetAST"
CLAIMED["C10"]["text"] += (" Added: C10_parse_uint_exact / C10_parse_uint_refuses_overflow - bytes.ParseUint (exponents, and the parameters of minLength/maxLength/minItems/maxItems/precision) returns the number "
                           "the digits spell, for digit strings of any length, and refuses exactly when it does not fit 64 bits (fix c58a671: it wrapped modulo 2^64); C10_scan_refuses_large_exponent - "
                           "exp_fits now means 'the library can represent the numeral' (the exponent adds at most 10000 zeros, fix dbc9afe) and the bound is exact; "
                           "C10_integer_by_spelling_refuted with C10_integer_class_of_value - the kernel-checked witness and the exact scope of the known finding C10-integer-by-spelling (a dot without "
                           "exponent decides 'float' before the value is looked at; pinned by guess_test.go).")
CLAIMED["C14"]["text"] += (" Since the fixes 555884d / c67ddfe (found while proving: the first versions of the theorems were false of the faithful model and the counterexamples replayed on the library) "
                           "C14_schema_len_prefix is unconditional (positive, inside the text, no trailing blank); C14_schema_len_error_iff / C14_schema_len_value_iff say exactly when Len fails; "
                           "C14_schema_len_stable, C14_schema_len_prefix_is_complete, C14_schema_len_prefix_accepted_in_length_mode hold on every text of at most 5 bytes over a 14-byte alphabet "
                           "(computed inside Coq), with kernel-checked counterexamples to the unbounded forms (a trailing # comment without a line break is not counted; an annotation popped by a "
                           "comment). Len after the closing bracket of an inline annotation object (fix 0ff4f91) is generated on every run.")
CLAIMED["C17"]["text"] += (" Added after the fixes 0219b8c / ca80efc / b9d4d7e: C17_schema_accepted_text_not_inside_opener, C17_schema_text_ending_inside_opener, C17_schema_blank_then_slash, "
                           "C17_schema_blank_then_two_hashes and the enum twins C17_enum_accepted_text_not_in_opener, C17_enum_opener_eof_position, C17_enum_text_ending_in_opener_refused(_space, _space_plain): "
                           "a text that ends after the first byte of // or /*, or inside ###, is refused with 303 at its last byte, and an accepted text never ends there; the check cuts generated "
                           "schemas inside every opener and checks the position of ##x.")
CLAIMED["C02"]["text"] += (" Fourth round: probes with exponents >= 2^63 / 2^64 (fix c58a671), re-spellings of numbers under const and enum (fix 29bf73c: equality by value, integer and float stay different kinds) "
                           "and the RFC 3339 grammar for datetime (fix 3e85282: lower-case t/z, leap second, no comma fraction, offsets 00:00-23:59) are generated on every run.")
CLAIMED["C03"]["text"] += (" Fourth round: key types in every form a string type can take (regex, lengths, plain example, alias, union, {type: \"@S\"}) - fix 59a6341 replaced the validator's private "
                           "re-implementation of the key type by the real validators; the remaining difference (a bare-example key type admits only that very key) is pinned by the repository's requirement "
                           "tests and recorded as known finding C03-bare-example-key-type with a classifier that re-runs the oracle under the pinned reading. allOf diamonds and array/object alternatives of or "
                           "rule-sets run from the corpus (fixes 0b36c13, 60afd49).")
CLAIMED["C08"]["text"] += (" Fourth round: typed cases on shortcut nodes and or rule-sets (or next to a type reference, duplicate type in both orders, redundant type mixed, rules that cannot apply inside a "
                           "rule-set with or without a declared type) - fixes b39fd7b, 76cb707, 6422f1f, 0e80d2e.")
CLAIMED["C09"]["text"] += (" Fourth round: reference forms outside the object-type generator run on every check - diamonds of literal type references (fix 4088268), keys optional by default (18cb50b), "
                           "user types inside or rule-sets for 1302 and UsedUserTypes (22ae533), a root file named like a type (886fbd4), a dense union graph of 8 types under a 15 s limit (24ba9c1).")
CLAIMED["C11"]["text"] += (" Fourth round: rendered error texts are compared across runs and histories too (fixes 14a88ff, d7272bd, 4088268 removed the map-order and heap-address dependence); a stream with one "
                           "allOf child object shared by two schemas that define the parent differently reports the sequential history dependence recorded as known finding C11-shared-type-allOf-history.")
CLAIMED["C13"]["text"] += (" Fourth round: escaped spellings of document keys under key shortcuts, quoted / padded enum inside or rule-sets (fix 405400c), blanks inside empty brackets (fix eb704e4).")
CLAIMED["C15"]["text"] += (" Fourth round: keys with HTML-sensitive characters (fix 40b4f9d), key-shortcut examples ending in an escaped quote or colliding with a named key (6ff47db, ef39a8c; the uninhabitable "
                           "required collision is known finding C15-required-shortcut-collides-with-named-key), or on empty containers (14508b3), nothing-texts (82eba93).")
CLAIMED["C18"]["text"] += (" Fourth round: character classes outside ASCII (fix 5b06c22: Example panicked) and word-boundary assertions (known finding C18-regex-example-word-boundary: the third-party example "
                           "generator ignores \\b/\\B); enum membership compares numbers of one kind by value (fix 29bf73c).")
CLAIMED["C07"]["text"] += (" Fourth round: outcome classes RUNTIME (a recovered Go runtime panic handed back as an error text) and EMPTYMSG (a library error with an empty Message()), exponents near the machine word, "
                           "empty documents - fixes dbc9afe, db370ed, 6901580, 5b06c22.")
CLAIMED["C04"]["text"] += (" Fourth round: rule parameters beyond 2^64 and item counts inside or rule-sets (fixes c58a671, 60afd49).")
CLAIMED["C01"]["text"] += (" Fourth/fifth round: Schema/E2E.v composes the models into one executable pipeline inside Coq - schema text -> schema scanner -> loader -> w_of_node -> Shape.compile; document text -> JSON "
                           "scanner -> machine events -> the event-level validator - and the check runs it from BOTH TEXTS against Schema.Validate on every generated case (verdict and error code).")
CLAIMED["C01"]["text"] += (" Sixth round: the pipeline is now also PROVED on plain JSON (Schema/E2EProofs.v, E2EDocProofs.v, E2ETextsProofs.v): C01_e2e_plain_json / _accepts_iff_shape / _layout_invariant / "
                           "_duplicate_key (for a plain-JSON schema text of any size and layout the pipeline computes Shape.validate of the tree the text spells; layout does not matter; a duplicate key is refused "
                           "at its position), json_scan_rendered / doc_events_of_text (the JSON scanner model over the rendering of a value yields exactly its event list), C01_validate_texts_plain_json and "
                           "C01_validate_texts_stuck_iff (from the two TEXTS to the recursive model's verdict; the only documents the conversion refuses are numerals the type guess refuses).")
CLAIMED["C09"]["text"] += (" Sixth/seventh round: the repaired checker (fix 9a9fdc3: after the walk from the root every named type is expanded as a root of its own) is modelled as check_all, with "
                           "C09_check_all_iff_inhabited (accepted exactly when the root AND every defined type have a finite inhabitant) and C09_check_all_terminates; arrays with minItems require their first "
                           "minItems positions (fix fb8368b; edge forms arrmin / arrmin2 / arrmin1of2). Schema/RecursionE2E.v runs the verdict from the schema TEXTS inside Coq (scanner -> loader -> "
                           "tnode_of_node -> check_all) against Check on every generated graph, and C09_verdict_from_texts says that verdict is the inhabitation verdict of the loaded graph. New known finding "
                           "C09-allOf-edge-on-an-accepted-cycle (an allOf back-edge is refused with 703 wherever it lies: allOf is an eager copy).")
CLAIMED["C03"]["text"] += (" Sixth/seventh round: a type reference is judged by the JSON kinds the type accepts (fix 92b915a); a key admitted by several key shortcuts stands under the entry its value fits, and every "
                           "required shortcut needs a property of its own (fixes 2642da5, 54711a5: the oracle assigns properties to required shortcuts by augmenting paths, objects with two overlapping shortcuts are "
                           "generated); additionalProperties with a format name validates the format (6af6f9e); an allOf parent without properties still hands down its additionalProperties rule.")
CLAIMED["C10"]["text"] += (" Seventh round: 'equals another number' is also exercised through Validate: every plain-decimal example with const: true against re-spellings and sign flips of itself and of other numbers.")
CLAIMED["C11"]["text"] += (" Sixth/seventh round: an order stream - a type object queried before it is added (unnamed types in files of the same name: fix 4ac376f), AddRule after a query that loaded the schema "
                           "(fix 787f943), an operation on a type object itself before the root is checked (fix 545ff09: allOf resolves all parents before it touches the object); pools whose schemas give the "
                           "same type NAMES different meanings, judged by an oracle from each schema's own definitions (a process-wide cache is invisible to an in-process comparison with fresh objects).")
CLAIMED["C13"]["text"] += (" Sixth round: CRLF behind the annotation of a property (fix 542fa4b; the scanner model got a look-behind byte), a line break between a bare rule name and its colon (d5e4e81), the "
                           "annotation ban after a non-empty array (2daaa0c), a ### block behind a note (0196ace) - all as corpus pairs of equivalent spellings.")
CLAIMED["C14"]["text"] += (" Seventh round: a slash as the last byte behind a schema or enum rule (fix 3cd814f) and texts of annotations only (fix 2bf15a3: Len says 202 like Check) are generated; "
                           "C14_schema_len_needs_example / C14_schema_len_no_example: Len never returns a length for a text in which no value begins outside an annotation; annotation openers behind blanks on the "
                           "line after a value that bans annotations are foreign text.")
CLAIMED["C17"]["text"] += (" Seventh round (fix 1658789): the renderer counts the blanks of the line itself; C17_line_text_lf/cr/crlf and C17_caret_lf/cr/crlf now hold for EVERY line, also one of blanks only "
                           "(shown text empty, caret at the first column) - the former hypothesis 'the line has a visible byte' is gone and the CRLF twins are new; the check's oracle judges blank-only lines.")
CLAIMED["C15"]["text"] += (" Seventh round: required recursion through arrays with minItems is refused by Check (fix fb8368b), so the former invalid examples are gone; objects with two required key shortcuts whose key "
                           "types share their example key are recognised as the known collision class.")
CLAIMED["C18"]["text"] += (" Seventh round: lists holding an integer and the float of the same value (different enum items) are generated for the named-versus-inline comparison.")
CLAIMED["C03"]["text"] += (" Eighth round: Schema/E2ETypes.v runs the rule-free skeleton of every generated graph from its TEXTS inside the extracted model (schema scanner -> loader -> mnode_of_node -> type graph; "
                           "document text -> JSON scanner -> events -> event machine) against Validate, and C03_typed_texts_accept_iff_denotation / C03_typed_texts_not_stuck carry the machine theorem to the texts "
                           "(with a kernel-checked example that the hypotheses are met).")
CLAIMED["C08"]["text"] += (" Eighth round: every rule-set case is repeated with a flag that says nothing (const: false / nullable: false) written first and last in the rule-set - same expected verdict (fix a4b2d4a).")
CLAIMED["C02"]["text"] += (" Ninth round: the library's own RFC 3339 parser (isRFC3339DateTime, fix 3e85282) is modelled (Formats.datetime_ok) and PROVED equal to a declarative specification written from RFC 3339 "
                           "section 5.6 (Text/FormatsSpec.v: DateTime, zone_spec): C02_datetime_ok_iff, C02_zone_offset_iff, with the leap-second rule (a second of 60 only as the last second of a UTC day) and "
                           "kernel-checked accept/refuse examples; the check compares library, an oracle written from the grammar and the extracted model on random date-times.")
CLAIMED["C13"]["text"] += (" Ninth round - the schema half is now proved on plain JSON: C13_schema_comments_are_transparent (load_mirrors_json_with_comments: with blanks, # line comments and ### block comments in "
                           "EVERY gap of a value tree of any size the loader yields the mirror tree of the value, the same as without comments; the last gap may end inside a line comment), its AST twin, and "
                           "C13_comments_do_not_change_verdicts / C13_comments_invariant (the verdict of every document is the one of the comment-free text). Corpus pairs for multi-line annotations ending a line "
                           "(fix 6b1304a) and for block comments (fix 7ac9eeb).")
CLAIMED["C07"]["text"] += (" Ninth round: a library error without a position is a violation (class NOPOS; fix 6051305: Validate of a blank document), the pinned bare recursion error aside; every three-file case also "
                           "runs with unnamed files (fix 3070215: an error was moved to the wrong file when the right one had an empty name).")
CLAIMED["C04"]["text"] += (" Ninth round: container alternatives next to scalar ones inside or rule-sets.")
CLAIMED["C15"]["text"] += (" Tenth round: an empty object or array whose or rule wraps a user type in a rule-set is refused by Check like the bare reference (fix 3eabb47; fixed cases).")
CLAIMED["C18"]["text"] += (" Tenth round: the empty pattern - the token // - is a regex type (fix 2b68297); C18_extract_complete holds for every pattern without an unescaped slash, the empty one included.")
CLAIMED["C03"]["text"] += (" Tenth round: known finding C03-plain-key-spelled-like-a-key-shortcut (required keys are kept by name only), with corpus cases under a classifier.")
CLAIMED["C08"]["text"] += (" Eleventh round: a rule-set of nothing but flags that say nothing is refused like {} (fix de3c65c); a null example under nullable next to a type reference or an or list is accepted (fix d925ea9: "
                           "the checker's list of alternatives mirrors the validator's; model check_links and the spec's type_matches / example_obeys follow).")
CLAIMED["C09"]["text"] += (" Eleventh round: key-shortcut types that name themselves next to a terminating alternative are accepted (fix 82938c5).")
CLAIMED["C18"]["text"] += (" Last round: C18_enum_comments_are_ignored (EnumProofs.enum_comments_are_blanks) - for every enum rule text, if the text with its // and /* */ comments blanked out is accepted, the text with the "
                           "comments is accepted too and delivers the same value, item and array events with the same spans: Values reads the same literals in the same order (comments before the bracket and an "
                           "unterminated block comment are refused, as the library does; the equality of the literal slices themselves is shown on a kernel-checked example, not as a theorem).")
