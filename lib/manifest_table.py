# one entry per claimed property: what the proof covers (text), what is trusted (note), the deciding method (technique)
CLAIMED = {
 "C19": {
  "text": "Full proof: theorem C19_refines (Coq, axiom-free) shows for every operation sequence of any length with arbitrary pure callbacks "
          "that the model of the generated ordered map (separate data map + order slice, linear-search delete, snapshot Filter, early-exit Map/Each) "
          "produces the same outputs - iteration traces, lookups, Len, marshalled pairs - as a reference insertion-ordered association list, keeps "
          "NoDup/key-set invariants, and C19_any_interleaving lifts this to every interleaving of per-goroutine sequences because every method is one "
          "atomic step: C19_lock_discipline is recomputed on every run over a table tabx translates from the three *_gen.go files (Lock/RLock first, "
          "deferred unlock, write lock iff writes, no re-entrant public calls, no escaping references). The model is tied to the code by running all "
          "three generated maps (ASTNodes, RuleASTNodes, internal Constraints through an overlay package) and the extracted model on every mutator "
          "sequence up to length 3 (quick) / 5 (thorough) over 3 keys x 2 predicates followed by all observers, plus random histories to length 200, "
          "and a -race stress run.",
  "note": "Trusted: Coq kernel; tabx's reading of the lock prologue; extraction (ExtrOcamlBasic) and modelrun; the Go harness adapters (int<->ASTNode projection); "
          "sync.RWMutex gives mutual exclusion; callbacks are pure and non re-entrant. Real data races are only observed by the -race stress, not proved.",
  "technique": "Coq refinement proof (model of generated map = reference association list, by induction over histories) + computed lock-discipline theorem over a table translated from source + exhaustive/random correspondence runs",
 },
}
NOT_APPLICABLE = {}
