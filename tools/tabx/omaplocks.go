package main

import (
	"fmt"
	"go/ast"
	"go/parser"
	"go/token"
	"path/filepath"
	"sort"
	"strings"
)

// OmapLocks: for every method of the three generated ordered maps, how it uses the mutex
// and whether it writes the map's fields.
func init() { gens = append(gens, gen{"OmapLocks", genOmapLocks}) }

type omapMethod struct {
	typ, name        string
	exported         bool
	lock             string // "LNone" | "LRead" | "LWrite"
	prologueOK       bool   // body starts with  m.mx.(R)Lock(); defer m.mx.(R)Unlock()  and mx is not touched again
	writes           bool   // assigns m.data / m.order / elements, delete(m.data,..), or calls a private writer
	callsPublic      bool   // calls an exported method on the receiver (would self-deadlock / escape the lock)
	spawnsOrEscapes  bool   // go statement, or receiver fields stored/returned by reference
}

func selChain(e ast.Expr) string {
	switch x := e.(type) {
	case *ast.Ident:
		return x.Name
	case *ast.SelectorExpr:
		return selChain(x.X) + "." + x.Sel.Name
	case *ast.IndexExpr:
		return selChain(x.X) + "[]"
	case *ast.SliceExpr:
		return selChain(x.X) + "[:]"
	case *ast.ParenExpr:
		return selChain(x.X)
	case *ast.StarExpr:
		return selChain(x.X)
	}
	return "?"
}

func genOmapLocks() (string, error) {
	files := []struct{ path, typ string }{
		{"ast_nodes_gen.go", "ASTNodes"},
		{"rule_ast_nodes_gen.go", "RuleASTNodes"},
		{"notations/jschema/internal/schema/constraints_gen.go", "Constraints"},
	}
	var all []omapMethod
	for _, f := range files {
		fset := token.NewFileSet()
		af, err := parser.ParseFile(fset, filepath.Join(*repo, f.path), nil, 0)
		if err != nil {
			return "", err
		}
		var ms []*omapMethod
		callsPriv := map[string][]string{}
		for _, d := range af.Decls {
			fd, ok := d.(*ast.FuncDecl)
			if !ok || fd.Recv == nil || len(fd.Recv.List) != 1 {
				continue
			}
			rt := selChain(fd.Recv.List[0].Type)
			if rt != f.typ {
				continue
			}
			if len(fd.Recv.List[0].Names) != 1 {
				return "", fmt.Errorf("%s.%s: unnamed receiver", f.typ, fd.Name.Name)
			}
			recv := fd.Recv.List[0].Names[0].Name
			m := &omapMethod{typ: f.typ, name: fd.Name.Name, exported: ast.IsExported(fd.Name.Name), lock: "LNone"}
			body := fd.Body.List
			mxUses := 0
			ast.Inspect(fd.Body, func(n ast.Node) bool {
				if se, ok := n.(*ast.SelectorExpr); ok && selChain(se) == recv+".mx" {
					mxUses++
				}
				return true
			})
			isCall := func(s ast.Stmt, name string) bool {
				es, ok := s.(*ast.ExprStmt)
				if !ok {
					return false
				}
				c, ok := es.X.(*ast.CallExpr)
				return ok && len(c.Args) == 0 && selChain(c.Fun) == recv+".mx."+name
			}
			isDefer := func(s ast.Stmt, name string) bool {
				ds, ok := s.(*ast.DeferStmt)
				return ok && len(ds.Call.Args) == 0 && selChain(ds.Call.Fun) == recv+".mx."+name
			}
			if len(body) >= 2 && isCall(body[0], "Lock") && isDefer(body[1], "Unlock") {
				m.lock, m.prologueOK = "LWrite", mxUses == 2
			} else if len(body) >= 2 && isCall(body[0], "RLock") && isDefer(body[1], "RUnlock") {
				m.lock, m.prologueOK = "LRead", mxUses == 2
			} else if mxUses == 0 {
				m.lock, m.prologueOK = "LNone", true
			} else {
				m.lock, m.prologueOK = "LWrite", false // touches the mutex in some other pattern
			}
			ast.Inspect(fd.Body, func(n ast.Node) bool {
				switch x := n.(type) {
				case *ast.AssignStmt:
					for _, l := range x.Lhs {
						c := selChain(l)
						if strings.HasPrefix(c, recv+".data") || strings.HasPrefix(c, recv+".order") {
							m.writes = true
						}
					}
					for _, r := range x.Rhs { // aliasing the backing array out of the lock's scope is only
						_ = r // harmless inside the locked body; escapes are caught by ReturnStmt below
					}
				case *ast.IncDecStmt:
					c := selChain(x.X)
					if strings.HasPrefix(c, recv+".data") || strings.HasPrefix(c, recv+".order") {
						m.writes = true
					}
				case *ast.CallExpr:
					fn := selChain(x.Fun)
					if fn == "delete" && len(x.Args) > 0 && strings.HasPrefix(selChain(x.Args[0]), recv+".data") {
						m.writes = true
					}
					if strings.HasPrefix(fn, recv+".") && !strings.HasPrefix(fn, recv+".mx.") && !strings.HasPrefix(fn, recv+".data") && !strings.HasPrefix(fn, recv+".order") {
						callee := strings.TrimPrefix(fn, recv+".")
						if ast.IsExported(callee) {
							m.callsPublic = true
						} else {
							callsPriv[m.name] = append(callsPriv[m.name], callee)
						}
					}
				case *ast.GoStmt:
					m.spawnsOrEscapes = true
				case *ast.ReturnStmt:
					for _, r := range x.Results {
						c := selChain(r)
						if c == recv+".data" || c == recv+".order" || strings.HasPrefix(c, recv+".order[:]") {
							m.spawnsOrEscapes = true
						}
						if u, ok := r.(*ast.UnaryExpr); ok && u.Op == token.AND && strings.HasPrefix(selChain(u.X), recv+".") {
							m.spawnsOrEscapes = true
						}
					}
				}
				return true
			})
			ms = append(ms, m)
		}
		if len(ms) == 0 {
			return "", fmt.Errorf("%s: no methods of %s found", f.path, f.typ)
		}
		// propagate writes through private callees (fixpoint)
		byName := map[string]*omapMethod{}
		for _, m := range ms {
			byName[m.name] = m
		}
		for changed := true; changed; {
			changed = false
			for _, m := range ms {
				for _, c := range callsPriv[m.name] {
					cm, ok := byName[c]
					if !ok {
						return "", fmt.Errorf("%s.%s calls unknown method %s", f.typ, m.name, c)
					}
					if cm.writes && !m.writes {
						m.writes, changed = true, true
					}
					if cm.lock != "LNone" { // private helper that locks: would deadlock under the caller's lock
						m.callsPublic = true
					}
				}
			}
		}
		sort.Slice(ms, func(i, j int) bool { return ms[i].name < ms[j].name })
		for _, m := range ms {
			all = append(all, *m)
		}
	}
	var sb strings.Builder
	sb.WriteString("(* GENERATED by tools/tabx from the three *_gen.go ordered maps. Do not edit. *)\n")
	sb.WriteString("From Coq Require Import List String Bool.\nImport ListNotations.\nOpen Scope string_scope.\n\n")
	sb.WriteString("Inductive lockkind := LNone | LRead | LWrite.\n")
	sb.WriteString("Record omap_method := { om_type : string; om_name : string; om_exported : bool; om_lock : lockkind;\n  om_prologue_ok : bool; om_writes : bool; om_calls_public : bool; om_escapes : bool }.\n\n")
	sb.WriteString("Definition omap_methods : list omap_method := [\n")
	b := func(x bool) string {
		if x {
			return "true"
		}
		return "false"
	}
	for i, m := range all {
		sep := ";"
		if i == len(all)-1 {
			sep = ""
		}
		fmt.Fprintf(&sb, "  {| om_type := %q; om_name := %q; om_exported := %s; om_lock := %s; om_prologue_ok := %s; om_writes := %s; om_calls_public := %s; om_escapes := %s |}%s\n",
			m.typ, m.name, b(m.exported), m.lock, b(m.prologueOK), b(m.writes), b(m.callsPublic), b(m.spawnsOrEscapes), sep)
	}
	sb.WriteString("].\n")
	return sb.String(), nil
}
