package main

import (
	"fmt"
	"go/ast"
	"go/parser"
	"go/token"
	"os"
	"path/filepath"
	"sort"
	"strconv"
	"strings"
)

// RuleTables: (1) constraint type x JSON type applicability, from the IsJsonTypeCompatible bodies;
// (2) the banned combinations of allowedConstraintCheck; (3) the rule names NewConstraintFromRule knows
// (+ the ones handled by the loader: or, enum, allOf); (4) the constraint-type names (gen:Stringer comments).
func init() { gens = append(gens, gen{"RuleTables", genRuleTables}) }

var jsonTypes = []string{"TypeObject", "TypeArray", "TypeString", "TypeInteger", "TypeFloat", "TypeBoolean", "TypeNull", "TypeMixed"}

// evalBool evaluates a boolean expression over the single parameter `param` bound to JSON type `jt`.
func evalBool(e ast.Expr, param, jt string, literalTypes map[string]bool) (bool, error) {
	switch x := e.(type) {
	case *ast.ParenExpr:
		return evalBool(x.X, param, jt, literalTypes)
	case *ast.Ident:
		if x.Name == "true" {
			return true, nil
		}
		if x.Name == "false" {
			return false, nil
		}
	case *ast.BinaryExpr:
		switch x.Op {
		case token.LOR, token.LAND:
			a, err := evalBool(x.X, param, jt, literalTypes)
			if err != nil {
				return false, err
			}
			b, err := evalBool(x.Y, param, jt, literalTypes)
			if err != nil {
				return false, err
			}
			if x.Op == token.LOR {
				return a || b, nil
			}
			return a && b, nil
		case token.EQL, token.NEQ:
			l, lok := x.X.(*ast.Ident)
			r, rok := x.Y.(*ast.SelectorExpr)
			if lok && rok && l.Name == param && strings.HasPrefix(r.Sel.Name, "Type") {
				eq := r.Sel.Name == jt
				if x.Op == token.NEQ {
					return !eq, nil
				}
				return eq, nil
			}
		}
	case *ast.CallExpr:
		if se, ok := x.Fun.(*ast.SelectorExpr); ok && len(x.Args) == 0 {
			if id, ok := se.X.(*ast.Ident); ok && id.Name == param && se.Sel.Name == "IsLiteralType" {
				return literalTypes[jt], nil
			}
		}
	}
	return false, fmt.Errorf("expression shape not understood")
}

func genRuleTables() (string, error) {
	fset := token.NewFileSet()
	// IsLiteralType from internal/json/json_type.go
	jf, err := parser.ParseFile(fset, filepath.Join(*repo, "internal/json/json_type.go"), nil, 0)
	if err != nil {
		return "", err
	}
	literal := map[string]bool{}
	foundLit := false
	for _, d := range jf.Decls {
		fd, ok := d.(*ast.FuncDecl)
		if !ok || fd.Name.Name != "IsLiteralType" || fd.Recv == nil {
			continue
		}
		recv := fd.Recv.List[0].Names[0].Name
		// shape: switch recv { case A, B, ...: return true }; return false
		if len(fd.Body.List) != 2 {
			return "", fmt.Errorf("IsLiteralType: body shape")
		}
		sw, ok1 := fd.Body.List[0].(*ast.SwitchStmt)
		rf, ok2 := fd.Body.List[1].(*ast.ReturnStmt)
		if !ok1 || !ok2 || selChain(sw.Tag) != recv || len(rf.Results) != 1 || selChain(rf.Results[0]) != "false" || len(sw.Body.List) != 1 {
			return "", fmt.Errorf("IsLiteralType: body shape")
		}
		cc := sw.Body.List[0].(*ast.CaseClause)
		if len(cc.Body) != 1 {
			return "", fmt.Errorf("IsLiteralType: body shape")
		}
		if r, ok := cc.Body[0].(*ast.ReturnStmt); !ok || len(r.Results) != 1 || selChain(r.Results[0]) != "true" {
			return "", fmt.Errorf("IsLiteralType: body shape")
		}
		for _, e := range cc.List {
			literal[selChain(e)] = true
		}
		foundLit = true
	}
	if !foundLit {
		return "", fmt.Errorf("IsLiteralType not found")
	}
	dir := filepath.Join(*repo, "notations/jschema/internal/schema/constraint")
	ents, err := os.ReadDir(dir)
	if err != nil {
		return "", err
	}
	type row struct {
		recv string
		vals []bool
	}
	var rows []row
	typeOf := map[string]string{} // receiver type -> constraint.Type constant returned by Type()
	for _, e := range ents {
		n := e.Name()
		if !strings.HasPrefix(n, "c_") || strings.HasSuffix(n, "_test.go") {
			continue
		}
		af, err := parser.ParseFile(fset, filepath.Join(dir, n), nil, 0)
		if err != nil {
			return "", err
		}
		for _, d := range af.Decls {
			fd, ok := d.(*ast.FuncDecl)
			if !ok || fd.Recv == nil || fd.Body == nil {
				continue
			}
			rt := strings.TrimPrefix(selChain(fd.Recv.List[0].Type), "*")
			switch fd.Name.Name {
			case "IsJsonTypeCompatible":
				if len(fd.Body.List) != 1 {
					return "", fmt.Errorf("%s.IsJsonTypeCompatible: body is not a single return", rt)
				}
				rs, ok := fd.Body.List[0].(*ast.ReturnStmt)
				if !ok || len(rs.Results) != 1 {
					return "", fmt.Errorf("%s.IsJsonTypeCompatible: body is not a single return", rt)
				}
				param := "_"
				if len(fd.Type.Params.List) == 1 && len(fd.Type.Params.List[0].Names) == 1 {
					param = fd.Type.Params.List[0].Names[0].Name
				}
				var vals []bool
				for _, jt := range jsonTypes {
					v, err := evalBool(rs.Results[0], param, jt, literal)
					if err != nil {
						return "", fmt.Errorf("%s.IsJsonTypeCompatible: %v", rt, err)
					}
					vals = append(vals, v)
				}
				rows = append(rows, row{rt, vals})
			case "Type":
				if len(fd.Body.List) == 1 {
					if rs, ok := fd.Body.List[0].(*ast.ReturnStmt); ok && len(rs.Results) == 1 {
						if id, ok := rs.Results[0].(*ast.Ident); ok {
							typeOf[rt] = id.Name
						}
					}
				}
			}
		}
	}
	// constraint type constants and their rule names (the comment after each constant)
	tf, err := parser.ParseFile(fset, filepath.Join(dir, "type.go"), nil, parser.ParseComments)
	if err != nil {
		return "", err
	}
	ruleName := map[string]string{}
	var ctOrder []string
	for _, d := range tf.Decls {
		gd, ok := d.(*ast.GenDecl)
		if !ok || gd.Tok != token.CONST {
			continue
		}
		for _, sp := range gd.Specs {
			vs := sp.(*ast.ValueSpec)
			if vs.Comment == nil || len(vs.Names) != 1 {
				return "", fmt.Errorf("constraint/type.go: constant without a name comment")
			}
			ruleName[vs.Names[0].Name] = strings.TrimSpace(vs.Comment.Text())
			ctOrder = append(ctOrder, vs.Names[0].Name)
		}
	}
	sort.Slice(rows, func(i, j int) bool { return rows[i].recv < rows[j].recv })
	var sb strings.Builder
	sb.WriteString("(* GENERATED by tools/tabx from constraint/c_*.go, constraint/type.go, constraint/constraint.go, loader/compiler_basic.go. Do not edit. *)\n")
	sb.WriteString("From Coq Require Import List String Bool.\nImport ListNotations.\nOpen Scope string_scope.\n\n")
	sb.WriteString("(* JSON types in the order: object array string integer float boolean null mixed *)\n")
	sb.WriteString("Definition compat : list (string * list bool) := [\n")
	for i, r := range rows {
		ct, ok := typeOf[r.recv]
		if !ok {
			return "", fmt.Errorf("constraint %s: Type() shape not understood", r.recv)
		}
		name, ok := ruleName[ct]
		if !ok {
			return "", fmt.Errorf("constraint %s: unknown constraint type %s", r.recv, ct)
		}
		var bs []string
		for _, v := range r.vals {
			bs = append(bs, strconv.FormatBool(v))
		}
		fmt.Fprintf(&sb, "  (%s, [%s])%s\n", coqStr(name), strings.Join(bs, "; "), sepOf(i, len(rows)))
	}
	sb.WriteString("].\n\n")
	sb.WriteString("Definition constraint_types : list string := [" + joinCoq(mapNames(ctOrder, ruleName)) + "].\n\n")
	// banned combinations
	cf, err := parser.ParseFile(fset, filepath.Join(*repo, "notations/jschema/internal/loader/compiler_basic.go"), nil, 0)
	if err != nil {
		return "", err
	}
	var banned [][2]string
	foundBanned := false
	ast.Inspect(cf, func(n ast.Node) bool {
		as, ok := n.(*ast.AssignStmt)
		if !ok || len(as.Lhs) != 1 || selChain(as.Lhs[0]) != "bannedConstraints" {
			return true
		}
		cl, ok := as.Rhs[0].(*ast.CompositeLit)
		if !ok {
			return true
		}
		foundBanned = true
		for _, e := range cl.Elts {
			kv := e.(*ast.KeyValueExpr)
			k := kv.Key.(*ast.SelectorExpr).Sel.Name
			for _, v := range kv.Value.(*ast.CompositeLit).Elts {
				banned = append(banned, [2]string{ruleName[k], ruleName[v.(*ast.SelectorExpr).Sel.Name]})
			}
		}
		return false
	})
	if !foundBanned {
		return "", fmt.Errorf("bannedConstraints literal not found")
	}
	sb.WriteString("(* (constraint, constraint that may not accompany it) from allowedConstraintCheck *)\nDefinition banned_with : list (string * string) := [\n")
	for i, b := range banned {
		fmt.Fprintf(&sb, "  (%s, %s)%s\n", coqStr(b[0]), coqStr(b[1]), sepOf(i, len(banned)))
	}
	sb.WriteString("].\n\n")
	// rule names known to NewConstraintFromRule
	kf, err := parser.ParseFile(fset, filepath.Join(dir, "constraint.go"), nil, 0)
	if err != nil {
		return "", err
	}
	var names []string
	ast.Inspect(kf, func(n ast.Node) bool {
		fd, ok := n.(*ast.FuncDecl)
		if !ok || fd.Name.Name != "NewConstraintFromRule" {
			return true
		}
		ast.Inspect(fd.Body, func(m ast.Node) bool {
			cc, ok := m.(*ast.CaseClause)
			if !ok {
				return true
			}
			for _, e := range cc.List {
				if bl, ok := e.(*ast.BasicLit); ok && bl.Kind == token.STRING {
					s, _ := strconv.Unquote(bl.Value)
					names = append(names, s)
				}
			}
			return true
		})
		return false
	})
	if len(names) == 0 {
		return "", fmt.Errorf("NewConstraintFromRule: no rule names found")
	}
	sb.WriteString("Definition simple_rule_names : list string := [" + joinCoq(names) + "].\n")
	return sb.String(), nil
}

func evalBoolUnq(e ast.Expr, param, jt string) (bool, error) {
	switch x := e.(type) {
	case *ast.ParenExpr:
		return evalBoolUnq(x.X, param, jt)
	case *ast.BinaryExpr:
		switch x.Op {
		case token.LOR, token.LAND:
			a, err := evalBoolUnq(x.X, param, jt)
			if err != nil {
				return false, err
			}
			b, err := evalBoolUnq(x.Y, param, jt)
			if err != nil {
				return false, err
			}
			if x.Op == token.LOR {
				return a || b, nil
			}
			return a && b, nil
		case token.EQL, token.NEQ:
			l, lok := x.X.(*ast.Ident)
			r, rok := x.Y.(*ast.Ident)
			if lok && rok && l.Name == param {
				eq := r.Name == jt
				if x.Op == token.NEQ {
					return !eq, nil
				}
				return eq, nil
			}
		}
	}
	return false, fmt.Errorf("expression shape not understood")
}

func mapNames(ks []string, m map[string]string) []string {
	var out []string
	for _, k := range ks {
		out = append(out, m[k])
	}
	return out
}
func joinCoq(ss []string) string {
	var q []string
	for _, s := range ss {
		q = append(q, coqStr(s))
	}
	return strings.Join(q, "; ")
}
