// tabx — translator from /repo's Go source to Coq tables (coq/theories/Gen/*.v).
// Run on every check: the theorems stated over these tables are re-checked by coqc
// against what the source says now. Restricted on purpose to shapes it fully
// understands; anything else is a hard failure (reported by bin/check as a broken tie).
package main

import (
	"flag"
	"fmt"
	"os"
	"path/filepath"
)

var repo = flag.String("repo", "/repo", "repository root")
var out = flag.String("out", "", "output directory for generated .v files")

type gen struct {
	name string
	fn   func() (string, error)
}

var gens []gen

func main() {
	flag.Parse()
	if *out == "" {
		fmt.Fprintln(os.Stderr, "tabx: -out required")
		os.Exit(2)
	}
	failed := false
	for _, g := range gens {
		s, err := g.fn()
		if err != nil {
			fmt.Fprintf(os.Stderr, "tabx: %s: %v\n", g.name, err)
			// still write a file that does not compile, so the broken tie cannot be missed
			s = fmt.Sprintf("(* tabx failed: %v *)\nDefinition tabx_failed : False := I.\n", err)
			failed = true
		}
		p := filepath.Join(*out, g.name+".v")
		old, _ := os.ReadFile(p)
		if string(old) != s { // keep mtime when unchanged so make stays a no-op
			if err := os.WriteFile(p, []byte(s), 0o644); err != nil {
				fmt.Fprintln(os.Stderr, err)
				os.Exit(2)
			}
		}
	}
	if failed {
		os.Exit(1)
	}
}
