module tabx

go 1.21
