package main

import (
	"fmt"
	"go/ast"
	"go/parser"
	"go/token"
	"os"
	"path/filepath"
	"sort"
	"strconv"
	"strings"
)

// ErrTables: error codes, their message templates, every errors.Format call site with its
// argument count, and every other ("bare") use of an error-code constant as a value.
func init() { gens = append(gens, gen{"ErrTables", genErrTables}) }

func coqStr(s string) string { return `"` + strings.ReplaceAll(s, `"`, `""`) + `"` }

func goFiles(root string) ([]string, error) {
	var out []string
	err := filepath.Walk(root, func(p string, info os.FileInfo, err error) error {
		if err != nil {
			return err
		}
		if info.IsDir() {
			n := info.Name()
			if n == ".git" || n == "testdata" || n == "verifx" {
				return filepath.SkipDir
			}
			return nil
		}
		if strings.HasSuffix(p, ".go") && !strings.HasSuffix(p, "_test.go") && !strings.HasPrefix(info.Name(), "zz_verif") {
			out = append(out, p)
		}
		return nil
	})
	sort.Strings(out)
	return out, err
}

func genErrTables() (string, error) {
	fset := token.NewFileSet()
	codeFile, err := parser.ParseFile(fset, filepath.Join(*repo, "errors/code.go"), nil, 0)
	if err != nil {
		return "", err
	}
	type codeDef struct {
		name string
		val  int
	}
	var codes []codeDef
	codeSet := map[string]bool{}
	templates := map[string]string{}
	var tmplOrder []string
	for _, d := range codeFile.Decls {
		gd, ok := d.(*ast.GenDecl)
		if !ok {
			continue
		}
		for _, sp := range gd.Specs {
			vs, ok := sp.(*ast.ValueSpec)
			if !ok {
				continue
			}
			if gd.Tok == token.CONST {
				if id, ok := vs.Type.(*ast.Ident); !ok || id.Name != "ErrorCode" {
					return "", fmt.Errorf("errors/code.go: const %v without explicit ErrorCode type (shape not understood)", vs.Names)
				}
				if len(vs.Names) != 1 || len(vs.Values) != 1 {
					return "", fmt.Errorf("errors/code.go: const spec shape not understood: %v", vs.Names)
				}
				lit, ok := vs.Values[0].(*ast.BasicLit)
				if !ok {
					return "", fmt.Errorf("errors/code.go: const %s is not a literal", vs.Names[0].Name)
				}
				v, err := strconv.Atoi(lit.Value)
				if err != nil {
					return "", err
				}
				codes = append(codes, codeDef{vs.Names[0].Name, v})
				codeSet[vs.Names[0].Name] = true
			}
			if gd.Tok == token.VAR && len(vs.Names) == 1 && vs.Names[0].Name == "errorFormat" {
				cl, ok := vs.Values[0].(*ast.CompositeLit)
				if !ok {
					return "", fmt.Errorf("errorFormat is not a composite literal")
				}
				for _, e := range cl.Elts {
					kv, ok := e.(*ast.KeyValueExpr)
					if !ok {
						return "", fmt.Errorf("errorFormat element shape")
					}
					k, ok := kv.Key.(*ast.Ident)
					if !ok {
						return "", fmt.Errorf("errorFormat key shape")
					}
					lit, ok := kv.Value.(*ast.BasicLit)
					if !ok || lit.Kind != token.STRING {
						return "", fmt.Errorf("errorFormat[%s] is not a string literal", k.Name)
					}
					s, err := strconv.Unquote(lit.Value)
					if err != nil {
						return "", err
					}
					if _, dup := templates[k.Name]; dup {
						return "", fmt.Errorf("errorFormat: duplicate key %s", k.Name)
					}
					templates[k.Name] = s
					tmplOrder = append(tmplOrder, k.Name)
				}
			}
		}
	}
	if len(codes) == 0 || len(templates) == 0 {
		return "", fmt.Errorf("no codes or no templates found")
	}
	files, err := goFiles(*repo)
	if err != nil {
		return "", err
	}
	type site struct {
		file  string
		line  int
		code  string
		nargs int // -1: spread (args...)
	}
	var fsites, bsites []site

	// wrappers: functions that pass one of their own ErrorCode parameters to Format with a fixed
	// number of further arguments (newDocumentError(code, ...) in the scanners and regex), and
	// NewValidatorError, whose code is rendered later by ValidationError.Error with no arguments.
	type wrapper struct{ param, nargs int }
	wrappers := map[string]wrapper{}
	for _, p := range files {
		af, err := parser.ParseFile(fset, p, nil, 0)
		if err != nil {
			return "", err
		}
		for _, d := range af.Decls {
			fd, ok := d.(*ast.FuncDecl)
			if !ok || fd.Body == nil {
				continue
			}
			pidx := map[string]int{}
			i := 0
			for _, f := range fd.Type.Params.List {
				isCode := strings.HasSuffix(selChain(f.Type), "ErrorCode")
				for _, n := range f.Names {
					if isCode {
						pidx[n.Name] = i
					}
					i++
				}
			}
			if len(pidx) == 0 {
				continue
			}
			ast.Inspect(fd.Body, func(n ast.Node) bool {
				c, ok := n.(*ast.CallExpr)
				if !ok || len(c.Args) == 0 || !strings.HasSuffix(selChain(c.Fun), "Format") {
					return true
				}
				if id, ok := c.Args[0].(*ast.Ident); ok {
					if pi, ok := pidx[id.Name]; ok && !c.Ellipsis.IsValid() {
						if w, dup := wrappers[fd.Name.Name]; dup && (w.param != pi || w.nargs != len(c.Args)-1) {
							wrappers[fd.Name.Name] = wrapper{pi, -1}
						} else {
							wrappers[fd.Name.Name] = wrapper{pi, len(c.Args) - 1}
						}
					}
				}
				return true
			})
		}
	}
	{
		src, err := os.ReadFile(filepath.Join(*repo, "notations/internal/errors.go"))
		if err != nil {
			return "", err
		}
		if !strings.Contains(string(src), "return errors.Format(v.code).Error()") || !strings.Contains(string(src), "func NewValidatorError(c errors.ErrorCode, msg string) ValidationError") {
			return "", fmt.Errorf("notations/internal/errors.go: ValidationError shape not understood")
		}
		wrappers["NewValidatorError"] = wrapper{0, 0}
	}
	for _, p := range files {
		rel, _ := filepath.Rel(*repo, p)
		if strings.HasPrefix(rel, "internal/cmd/") || strings.HasPrefix(rel, "internal/mocks/") {
			continue
		}
		af, err := parser.ParseFile(fset, p, nil, 0)
		if err != nil {
			return "", err
		}
		inErrorsPkg := af.Name.Name == "errors"
		// names under which the errors package is imported in this file
		alias := map[string]bool{}
		for _, im := range af.Imports {
			ip, _ := strconv.Unquote(im.Path.Value)
			if ip == "github.com/jsightapi/jsight-schema-go-library/errors" {
				if im.Name != nil {
					alias[im.Name.Name] = true
				} else {
					alias["errors"] = true
				}
			}
		}
		codeName := func(e ast.Expr) (string, bool) {
			switch x := e.(type) {
			case *ast.SelectorExpr:
				if id, ok := x.X.(*ast.Ident); ok && alias[id.Name] && codeSet[x.Sel.Name] {
					return x.Sel.Name, true
				}
			case *ast.Ident:
				if inErrorsPkg && codeSet[x.Name] {
					return x.Name, true
				}
			}
			return "", false
		}
		isFormat := func(e ast.Expr) bool {
			switch x := e.(type) {
			case *ast.SelectorExpr:
				id, ok := x.X.(*ast.Ident)
				return ok && alias[id.Name] && x.Sel.Name == "Format"
			case *ast.Ident:
				return inErrorsPkg && x.Name == "Format"
			}
			return false
		}
		consumed := map[ast.Expr]bool{} // code expressions accounted for (Format first arg, comparisons, map keys, case labels)
		ast.Inspect(af, func(n ast.Node) bool {
			switch x := n.(type) {
			case *ast.CallExpr:
				fn := selChain(x.Fun)
				if i := strings.LastIndex(fn, "."); i >= 0 {
					fn = fn[i+1:]
				}
				if w, ok := wrappers[fn]; ok && !isFormat(x.Fun) && len(x.Args) > w.param {
					if c, ok := codeName(x.Args[w.param]); ok {
						consumed[x.Args[w.param]] = true
						fsites = append(fsites, site{rel, fset.Position(x.Pos()).Line, c, w.nargs})
					}
				}
				if isFormat(x.Fun) && len(x.Args) >= 1 {
					if c, ok := codeName(x.Args[0]); ok {
						consumed[x.Args[0]] = true
						na := len(x.Args) - 1
						if x.Ellipsis.IsValid() {
							na = -1
						}
						fsites = append(fsites, site{rel, fset.Position(x.Pos()).Line, c, na})
					} else {
						// code is not a constant: fine inside a recognised wrapper (its call sites are checked
						// instead), otherwise it cannot be checked statically
						okw := false
						if id, ok := x.Args[0].(*ast.Ident); ok && (id.Name == "code" || id.Name == "c") {
							okw = true
						}
						if se, ok := x.Args[0].(*ast.SelectorExpr); ok && se.Sel.Name == "code" {
							okw = true
						}
						if !okw {
							fsites = append(fsites, site{rel, fset.Position(x.Pos()).Line, "<dynamic>", -1})
						}
					}
				}
			case *ast.BinaryExpr:
				if x.Op == token.EQL || x.Op == token.NEQ {
					consumed[x.X], consumed[x.Y] = true, true
				}
			case *ast.CaseClause:
				for _, e := range x.List {
					consumed[e] = true
				}
			case *ast.KeyValueExpr:
				consumed[x.Key] = true
			case *ast.ValueSpec:
				if inErrorsPkg {
					for _, nm := range x.Names {
						_ = nm
					}
				}
			}
			return true
		})
		ast.Inspect(af, func(n ast.Node) bool {
			// skip the const block and the template map of errors/code.go themselves
			if gd, ok := n.(*ast.GenDecl); ok && inErrorsPkg && (gd.Tok == token.CONST) {
				return false
			}
			e, ok := n.(ast.Expr)
			if !ok {
				return true
			}
			if c, ok := codeName(e); ok && !consumed[e] {
				bsites = append(bsites, site{rel, fset.Position(e.Pos()).Line, c, 0})
				return false
			}
			return true
		})
	}
	var sb strings.Builder
	sb.WriteString("(* GENERATED by tools/tabx from errors/code.go and every errors.Format / bare error-code use in the tree. Do not edit. *)\n")
	sb.WriteString("From Coq Require Import List String ZArith.\nImport ListNotations.\nOpen Scope string_scope.\n\n")
	sb.WriteString("Definition err_codes : list (string * Z) := [\n")
	for i, c := range codes {
		fmt.Fprintf(&sb, "  (%s, %d%%Z)%s\n", coqStr(c.name), c.val, sepOf(i, len(codes)))
	}
	sb.WriteString("].\n\nDefinition err_templates : list (string * string) := [\n")
	for i, k := range tmplOrder {
		fmt.Fprintf(&sb, "  (%s, %s)%s\n", coqStr(k), coqStr(templates[k]), sepOf(i, len(tmplOrder)))
	}
	sb.WriteString("].\n\n(* (file, line, code, number of arguments after the code; -1 = spread or dynamic) *)\n")
	sb.WriteString("Definition err_format_sites : list (string * Z * string * Z) := [\n")
	for i, s := range fsites {
		fmt.Fprintf(&sb, "  (%s, %d%%Z, %s, (%d)%%Z)%s\n", coqStr(s.file), s.line, coqStr(s.code), s.nargs, sepOf(i, len(fsites)))
	}
	sb.WriteString("].\n\n(* error-code constants used as values outside Format's first argument, comparisons, case labels and map keys *)\n")
	sb.WriteString("Definition err_bare_sites : list (string * Z * string) := [\n")
	for i, s := range bsites {
		fmt.Fprintf(&sb, "  (%s, %d%%Z, %s)%s\n", coqStr(s.file), s.line, coqStr(s.code), sepOf(i, len(bsites)))
	}
	sb.WriteString("].\n")
	return sb.String(), nil
}

func sepOf(i, n int) string {
	if i == n-1 {
		return ""
	}
	return ";"
}
