#!/usr/bin/env python3
"""Differential test: Coq model Schema/RulePipeline.v (build/modelrun rules_model) against the real
library (build/implrun schema, op "check") on abstract cases (one annotated example node + rules).

usage: difftest.py [--seed N] [--sets N] [--quick] [--dump FILE] [--spec]
Compares the VERDICT (ok / not ok) on every case and the error CODE on every case (the model claims a
unique code everywhere: the only place where Go ranges over a map yields one code)."""
import itertools, json, os, random, re, subprocess, sys, time
from concurrent.futures import ThreadPoolExecutor

HERE = os.path.dirname(os.path.dirname(os.path.abspath(__file__)))
IMPL = os.path.join(HERE, "build", "implrun")
MODEL = os.path.join(HERE, "build", "modelrun")

KINDS = ["object", "array", "string", "integer", "float", "boolean", "null"]
KCODE = {"object": "o", "array": "a", "string": "s", "integer": "i", "float": "f", "boolean": "b", "null": "n"}
POS = ["root", "property", "item"]
FORMAT_EX = {"email": "a@b.cc", "uri": "http://a.b/c", "uuid": "550e8400-e29b-41d4-a716-446655440000",
             "date": "2020-02-29", "datetime": "2020-01-01T00:00:00Z"}
TYPE_NAMES = ["string", "integer", "float", "decimal", "boolean", "object", "array", "null", "email", "uri", "uuid",
              "date", "datetime", "enum", "mixed", "any", "comment", "@t", "@o", "bogus"]
USER_KIND = {"@t": "integer", "@o": "object"}
TYPES_DECL = [["@t", "1"], ["@o", "{\"x\": 1}"]]


# ---------------------------------------------------------------- nodes
class Node:
    """variant: for strings the example text; for containers 'full' / 'empty'"""
    def __init__(self, kind, pos="root", variant=None):
        self.kind, self.pos = kind, pos
        if kind == "string":
            self.text = "abc" if variant is None else variant
        self.empty = (variant == "empty")

    def children(self):
        if self.kind == "array":
            return 0 if self.empty else 2
        if self.kind == "object":
            return 0 if self.empty else 1
        return 0

    def example(self):
        return {"string": lambda: json.dumps(self.text), "integer": lambda: "5", "float": lambda: "5.5",
                "boolean": lambda: "true", "null": lambda: "null"}[self.kind]()

    def key(self):
        return (self.kind, self.pos, getattr(self, "text", None), self.empty)


# ---------------------------------------------------------------- rule values
# a value is (jsight text, model text, extra) ; extra carries what the node abstraction needs
def V_bool(b):
    return ("true" if b else "false", "T" if b else "F", None)

def V_num(txt):
    if "." in txt:
        i, f = txt.split(".")
        return (txt, "N%s%s/%d" % (i, f, len(f)), None)
    return (txt, "N%s/0" % txt, None)

def V_str(s):
    return (json.dumps(s), "S" + s, None)

V_NULL = ("null", "Z", None)
V_OBJ = ("{}", "J", None)

def V_regex(expr):
    return (json.dumps(expr), "S" + expr, ("regex", expr))

def V_enum(items):                      # items: list of jsight literal texts; "%EX%" stands for the example
    return ("ENUM", "E", ("enum", items))

def V_or(names):
    return ("[" + ", ".join(json.dumps(n) for n in names) + "]", None, ("or", names))


DOMAIN = {
    "min": [V_num(x) for x in ("1", "5", "5.5", "9")],
    "max": [V_num(x) for x in ("1", "5", "5.5", "9")],
    "exclusiveMinimum": [V_bool(True), V_bool(False)],
    "exclusiveMaximum": [V_bool(True), V_bool(False)],
    "minLength": [V_num(x) for x in ("0", "1", "2", "3", "9")],
    "maxLength": [V_num(x) for x in ("0", "1", "2", "3", "9")],
    "minItems": [V_num(x) for x in ("0", "1", "2", "3", "9")],
    "maxItems": [V_num(x) for x in ("0", "1", "2", "3", "9")],
    "precision": [V_num("1"), V_num("2")],
    "type": [V_str(t) for t in TYPE_NAMES],
    "nullable": [V_bool(True), V_bool(False)],
    "const": [V_bool(True), V_bool(False)],
    "optional": [V_bool(True), V_bool(False)],
    "regex": [V_regex("a"), V_regex("^zz$")],
    "additionalProperties": [V_bool(True), V_bool(False), V_str("string"), V_str("@t")],
    "enum": [V_enum(["%EX%", '"zz"']), V_enum(['"zz"', "77"])],
    "or": [V_or(["integer", "string"]), V_or(["boolean", "null"]), V_or(["object", "array"]), V_or(["float", "string", "null"]),
           V_or(["@t", "string"]), V_or(["@o", "@t"])],
    "allOf": [V_str("@o"), V_str("@t")],
    "minimum": [V_num("1")],            # an unknown rule name
}
# values of the wrong JSON kind (and other values the constructors reject)
WRONG = {
    "min": [V_bool(True), V_str("5"), V_NULL, V_enum(["1"]), V_OBJ],
    "max": [V_bool(False), V_str("a"), V_NULL, V_OBJ],
    "exclusiveMinimum": [V_num("1"), V_str("true"), V_NULL, V_OBJ],
    "exclusiveMaximum": [V_num("0"), V_str("false"), V_enum(["1"])],
    "minLength": [V_num("5.5"), V_num("-1"), V_bool(True), V_str("3"), V_NULL, V_OBJ],
    "maxLength": [V_num("5.5"), V_bool(False), V_str("3"), V_enum(["1"])],
    "minItems": [V_num("1.5"), V_bool(True), V_str("1"), V_NULL],
    "maxItems": [V_num("-2"), V_str("1"), V_OBJ],
    "precision": [V_num("0"), V_num("1.5"), V_bool(True), V_str("1"), V_NULL],
    "type": [V_num("5"), V_bool(True), V_NULL, V_enum(["1"]), V_OBJ, V_str("@zzz")],
    "nullable": [V_num("1"), V_str("true"), V_NULL, V_OBJ],
    "const": [V_num("1"), V_str("false"), V_NULL],
    "optional": [V_num("0"), V_str("true"), V_NULL, V_enum(["1"])],
    "regex": [V_num("5"), V_bool(True), V_NULL, V_OBJ],
    "additionalProperties": [V_num("5"), V_NULL, V_str("bogus"), V_str("any"), V_str("null"), V_str("comment"), V_str("@zzz"), V_OBJ, V_enum(["1"])],
    "enum": [V_num("5"), V_str("a"), V_bool(True), V_NULL, V_OBJ],
    "or": [V_num("5"), V_str("integer"), V_bool(True), V_NULL, V_OBJ, V_or([]), V_or(["integer"]), V_or(["@t"])],
    "allOf": [V_num("5"), V_bool(True), V_NULL, V_OBJ, V_str("bogus"), V_str("@zzz")],
    "minimum": [V_enum(["1"]), V_OBJ, V_str("x")],
}
NAMES = list(DOMAIN)


# ---------------------------------------------------------------- rendering
def enum_text(items, node):
    out = []
    for it in items:
        if it == "%EX%":
            out.append(node.example() if node.kind not in ("object", "array") else '"ex"')
        else:
            out.append(it)
    return "[" + ", ".join(out) + "]"


def rule_text(name, val, node):
    txt, _, extra = val
    if extra and extra[0] == "enum":
        txt = enum_text(extra[1], node)
    return "%s: %s" % (name, txt)


def jsight(node, rules):
    ann = (" // {%s}" % ", ".join(rule_text(n, v, node) for n, v in rules)) if rules else ""
    if node.kind == "array":
        lines = ["[]" + ann] if node.empty else ["[" + ann, "  1,", "  2", "]"]
    elif node.kind == "object":
        lines = ["{}" + ann] if node.empty else ["{" + ann, '  "k": 1', "}"]
    else:
        lines = [node.example() + ann]
    if node.pos == "property":
        lines = ["{", '  "p": ' + lines[0]] + ["  " + l for l in lines[1:]] + ["}"]
    elif node.pos == "item":
        lines = ["[", "  " + lines[0]] + ["  " + l for l in lines[1:]] + ["]"]
    return "\n".join(lines)


def model_line(node, rules):
    matches, in_enum = False, False
    for name, (txt, mtxt, extra) in rules:
        if extra and extra[0] == "regex" and name == "regex" and node.kind == "string":
            matches = re.search(extra[1], node.text) is not None
        if name == "regex" and mtxt == "Z" and node.kind == "string":
            matches = True                 # regex: null is the empty expression
        if extra and extra[0] == "enum" and name == "enum":
            in_enum = "%EX%" in extra[1] and node.kind not in ("object", "array")
    num = {"integer": ("5", 0), "float": ("55", 1)}.get(node.kind, ("0", 0))
    frac = 1 if node.kind == "float" else 0
    strlen = len(node.text) if node.kind == "string" else 0
    fmts = [f for f, ex in FORMAT_EX.items() if node.kind == "string" and node.text == ex]
    head = " ".join([KCODE[node.kind], node.pos[0], str(node.children()), num[0], str(num[1]), str(strlen), str(frac),
                     "T" if matches else "F", "T" if in_enum else "F", ",".join(fmts) if fmts else "-"])
    rs = []
    for name, (txt, mtxt, extra) in rules:
        if extra and extra[0] == "or":
            names = extra[1]
            kinds = [USER_KIND.get(x, x) for x in names]
            mtxt = "O%s,%d,%s" % ("T" if any(x.startswith("@") for x in names) else "F", len(names), "T" if node.kind in kinds else "F")
        rs.append("%s=%s" % (name, mtxt))
    return head + "|" + ";".join(rs)


# ---------------------------------------------------------------- running
def run_lines(cmd, lines, chunk=4000, workers=12):
    chunks = [lines[i:i + chunk] for i in range(0, len(lines), chunk)]

    def one(c):
        p = subprocess.run(cmd, input=("\n".join(c) + "\n").encode(), stdout=subprocess.PIPE, stderr=subprocess.PIPE)
        out = p.stdout.decode().split("\n")
        if out and out[-1] == "":
            out.pop()
        if len(out) != len(c):
            raise RuntimeError("%s: %d results for %d cases: %s" % (cmd, len(out), len(c), p.stderr.decode()[:500]))
        return out
    with ThreadPoolExecutor(workers) as ex:
        res = list(ex.map(one, chunks))
    return [x for r in res for x in r]


def impl_verdict(out):
    r = json.loads(out)[0]
    if r == "ok":
        return "ok"
    r = r.replace("SETUP-", "")
    m = re.match(r"E(\d+)", r)
    return "E" + m.group(1) if m else r


# ---------------------------------------------------------------- case generation
def all_nodes(positions=POS):
    out = []
    for pos in positions:
        for k in KINDS:
            out.append(Node(k, pos))
        out.append(Node("array", pos, "empty"))
        out.append(Node("object", pos, "empty"))
        for f, ex in FORMAT_EX.items():
            out.append(Node("string", pos, ex))
        out.append(Node("string", pos, ""))
    return out


def gen_cases(rng, nsets, quick):
    cases = []       # (label, node, rules)
    groups = []      # (start, end) of permutation groups
    nodes = all_nodes()
    # 0. no rules at all
    for nd in nodes:
        cases.append(("none", nd, []))
    # 1. every single rule x every value x every node kind x every position
    for name in NAMES:
        for val in DOMAIN[name] + WRONG[name]:
            for nd in nodes:
                cases.append(("single", nd, [(name, val)]))
    # duplicates
    for name in NAMES:
        for nd in all_nodes(["root"]):
            v = DOMAIN[name]
            cases.append(("dup", nd, [(name, v[0]), (name, v[-1])]))
            cases.append(("dup", nd, [(name, v[0]), ("nullable", V_bool(True)), (name, v[0])]))
            cases.append(("dup", nd, [(name, v[0]), (name, WRONG[name][0])]))
            cases.append(("dup", nd, [(name, WRONG[name][0]), (name, v[0])]))
    # 2. all pairs of rules: every pair of names, every pair of (good) values, both orders
    nodes_pair = all_nodes(["root"]) + [Node(k, "property") for k in KINDS] + [Node("integer", "item"), Node("array", "item", "empty")]
    for a, b in itertools.combinations(NAMES, 2):
        combos = list(itertools.product(DOMAIN[a], DOMAIN[b]))
        if quick and len(combos) > 8:
            combos = rng.sample(combos, 8)
        for va, vb in combos:
            for nd in nodes_pair:
                if quick and rng.random() < 0.7:
                    continue
                g = len(cases)
                cases.append(("pair", nd, [(a, va), (b, vb)]))
                cases.append(("pair", nd, [(b, vb), (a, va)]))
                groups.append((g, len(cases)))
        # one good, one wrong-kind value
        for va, vb in [(rng.choice(DOMAIN[a]), w) for w in WRONG[b]] + [(w, rng.choice(DOMAIN[b])) for w in WRONG[a]]:
            for nd in rng.sample(nodes_pair, 4):
                g = len(cases)
                cases.append(("pair-wrong", nd, [(a, va), (b, vb)]))
                cases.append(("pair-wrong", nd, [(b, vb), (a, va)]))
                groups.append((g, len(cases)))
    # 3. random sets of 3..5 rules, all permutations (<= 4) or 24 random ones (5)
    fam = {
        "integer": ["min", "max", "exclusiveMinimum", "exclusiveMaximum", "type", "nullable", "const", "optional", "enum", "or"],
        "float": ["min", "max", "exclusiveMinimum", "exclusiveMaximum", "type", "precision", "nullable", "const", "optional", "enum"],
        "string": ["minLength", "maxLength", "regex", "type", "nullable", "const", "optional", "enum", "or"],
        "array": ["minItems", "maxItems", "type", "nullable", "optional", "const", "or"],
        "object": ["additionalProperties", "allOf", "type", "nullable", "optional", "const", "or"],
        "boolean": ["type", "nullable", "const", "optional", "enum", "or"],
        "null": ["type", "nullable", "const", "optional", "enum", "or"],
    }
    core = {
        "integer": ["min", "max", "exclusiveMinimum", "exclusiveMaximum", "type", "nullable", "const", "optional"],
        "float": ["min", "max", "exclusiveMinimum", "exclusiveMaximum", "type", "precision", "nullable", "const", "optional"],
        "string": ["minLength", "maxLength", "regex", "type", "nullable", "const", "optional"],
        "array": ["minItems", "maxItems", "type", "nullable", "optional", "const"],
        "object": ["additionalProperties", "allOf", "type", "nullable", "optional", "const"],
        "boolean": ["type", "nullable", "const", "optional", "enum"],
        "null": ["type", "nullable", "const", "optional", "enum"],
    }
    good_type = {"integer": ["integer", "any", "enum", "mixed", "@t"], "float": ["float", "decimal", "any", "enum"],
                 "string": ["string", "email", "uri", "uuid", "date", "datetime", "any", "enum", "mixed"], "array": ["array", "any", "mixed"],
                 "object": ["object", "any", "mixed", "@o"], "boolean": ["boolean", "any", "enum", "mixed"], "null": ["null", "any", "enum", "mixed"]}
    for _ in range(nsets):
        nd = rng.choice(nodes)
        k = rng.choice([3, 3, 4, 4, 4, 5])
        # mostly rules of the node's family so that many sets are accepted; sometimes anything
        r = rng.random()
        pool = core[nd.kind] if r < 0.4 else fam[nd.kind] if r < 0.8 else NAMES
        if "optional" in pool and r < 0.8 and rng.random() < 0.6:
            nd = Node(nd.kind, "property", getattr(nd, "text", None) if nd.kind == "string" else ("empty" if nd.empty else None))
        names = rng.sample(pool, min(k, len(pool)))
        if rng.random() < 0.1:
            names.append(rng.choice(NAMES))
            if rng.random() < 0.3:
                names.append(rng.choice(names))      # a duplicate name
        rules = []
        for nm in names:
            if rng.random() < 0.04:
                v = rng.choice(WRONG[nm])
            elif nm == "type" and rng.random() < 0.7:
                v = V_str(rng.choice(good_type[nd.kind]))
            else:
                v = rng.choice(DOMAIN[nm])
            rules.append((nm, v))
        if len(rules) <= 4:
            perms = list(itertools.permutations(rules))
        else:
            perms = [tuple(rng.sample(rules, len(rules))) for _ in range(24)]
        g = len(cases)
        for p in perms:
            cases.append(("set%d" % len(rules), nd, list(p)))
        groups.append((g, len(cases)))
    return cases, groups


def main():
    args = sys.argv[1:]
    seed = int(args[args.index("--seed") + 1]) if "--seed" in args else 20261001
    quick = "--quick" in args
    nsets = int(args[args.index("--sets") + 1]) if "--sets" in args else (2000 if quick else 20000)
    rng = random.Random(seed)
    t0 = time.time()
    cases, groups = gen_cases(rng, nsets, quick)
    print("cases: %d (permutation groups: %d)" % (len(cases), len(groups)), flush=True)
    impl_lines, model_lines = [], []
    for label, nd, rules in cases:
        s = jsight(nd, rules)
        d = {"schema": s, "ops": [["check"]]}
        if "@" in s:
            d["types"] = TYPES_DECL
        impl_lines.append(json.dumps(d))
        model_lines.append(model_line(nd, rules))
    if "--dump" in args:
        with open(args[args.index("--dump") + 1], "w") as f:
            for (label, nd, rules), il, ml in zip(cases, impl_lines, model_lines):
                f.write(label + "\t" + il + "\t" + ml + "\n")
    impl_out = [impl_verdict(o) for o in run_lines([IMPL, "schema"], impl_lines)]
    print("implementation done %.1fs" % (time.time() - t0), flush=True)
    model_out = run_lines([MODEL, "rules_model"], model_lines)
    print("model done %.1fs" % (time.time() - t0), flush=True)
    spec_out = None
    if "--spec" in args:
        spec_out = run_lines([MODEL, "rules_spec"], model_lines)
    verdict_mm, code_mm, bad = [], [], 0
    by_label = {}
    for i, ((label, nd, rules), a, b) in enumerate(zip(cases, impl_out, model_out)):
        st = by_label.setdefault(label.rstrip("0123456789"), [0, 0, 0, 0])
        st[0] += 1
        if a == "ok":
            st[3] += 1
        if not (a == "ok" or re.fullmatch(r"E\d+", a)) or b == "BAD":
            bad += 1
            if bad <= 10:
                print("UNEXPECTED OUTPUT impl=%s model=%s  %r  %s" % (a, b, jsight(nd, rules), model_lines[i]))
            continue
        if (a == "ok") != (b == "ok"):
            verdict_mm.append(i)
            st[1] += 1
        elif a != b:
            code_mm.append(i)
            st[2] += 1
    # order independence of the implementation's verdict inside a permutation group (informative)
    order_dep = 0
    for g0, g1 in groups:
        vs = set(x == "ok" for x in impl_out[g0:g1])
        if len(vs) > 1:
            order_dep += 1
            if order_dep <= 5:
                print("IMPLEMENTATION VERDICT DEPENDS ON ORDER: %r -> %s" % (jsight(cases[g0][1], cases[g0][2]), sorted(set(impl_out[g0:g1]))))
    print("by class (cases, verdict mismatches, code mismatches, accepted by the library):")
    for k, v in sorted(by_label.items()):
        print("  %-12s %8d %6d %6d %8d" % (k, v[0], v[1], v[2], v[3]))
    print("TOTAL cases=%d verdict_mismatches=%d code_mismatches=%d unexpected_outputs=%d order_dependent_groups=%d" %
          (len(cases), len(verdict_mm), len(code_mm), bad, order_dep))

    def show(idx, title, limit=25):
        seen = set()
        n = 0
        for i in idx:
            label, nd, rules = cases[i]
            sig = (nd.kind, nd.empty, tuple(sorted(nm for nm, _ in rules)), impl_out[i], model_out[i])
            if sig in seen:
                continue
            seen.add(sig)
            n += 1
            if n > limit:
                break
            print("%s: impl=%s model=%s  schema=%r  line=%s" % (title, impl_out[i], model_out[i], jsight(nd, rules), model_lines[i]))
        if idx:
            print("  (%d distinct signatures shown of %d cases)" % (min(n, limit), len(idx)))
    show(verdict_mm, "VERDICT")
    show(code_mm, "CODE")
    if spec_out is not None:
        entry = "rules_spec_raw" if "--raw" in args else "rules_spec"
        spec_out = run_lines([MODEL, entry], model_lines)
        dis = [i for i in range(len(cases)) if spec_out[i] != "skip" and (spec_out[i] == "ok") != (model_out[i] == "ok")]
        print("SPEC (%s): compared %d, skipped %d, model/spec disagreements: %d" % (entry, sum(1 for x in spec_out if x != "skip"), sum(1 for x in spec_out if x == "skip"), len(dis)))
        seen = set()
        for i in dis:
            label, nd, rules = cases[i]
            sig = (nd.kind, nd.empty, nd.pos == "property", tuple(sorted((nm, v[1]) for nm, v in rules)))
            sig2 = (nd.kind, nd.empty, tuple(sorted(nm for nm, v in rules)))
            if sig2 in seen:
                continue
            seen.add(sig2)
            if len(seen) > 60:
                break
            print("SPEC: spec=%s model=%s impl=%s schema=%r line=%s" % (spec_out[i], model_out[i], impl_out[i], jsight(nd, rules), model_lines[i]))
    return 0 if not verdict_mm and not bad else 1


if __name__ == "__main__":
    sys.exit(main())
