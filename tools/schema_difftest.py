#!/usr/bin/env python3
"""Differential test: Coq model of the JSight schema scanner (build/modelrun schema_scan_model)
against the real Go implementation (build/implrun schemax).

usage: difftest.py [category ...] [--quick]
categories: edge (hand-written edge cases + truncations + mutations + trailers),
            ext (prefixes of edge/seed/generated texts x every next byte / next two bytes),
            exh (every text of length <= 4 over the alphabet), sample (300k texts of length 5..8),
            seeds (seed_texts.txt + truncations + mutations + trailers), gen (own annotation-heavy
            generator + truncations + mutations).  Default: all.
Each text is run in the three modes s, S, l.  In mode l the harness prints the text of a
non-DocumentError panic (PANIC(...) or FOREIGN(runtime...)); both are normalised to PANIC.
"""
import itertools
import os
import random
import subprocess
import sys
import tempfile
from concurrent.futures import ThreadPoolExecutor

HERE = os.path.dirname(os.path.dirname(os.path.abspath(__file__)))
IMPL = [os.path.join(HERE, "build/implrun"), "schemax"]
MODEL = [os.environ.get("SCH_MODEL", os.path.join(HERE, "build/modelrun")), "schema_scan_model"]
ALPHABET = [ord(x) for x in '{}[],:"\\/*#@|- \n\r10.etanul'] + [0x00, 0x7F]
SHARD = 50000  # lines per shard
PANICS = 0     # implementation outputs that are not eof / DocumentError / a number
MODES = "sSl"


def hx(b: bytes) -> str:
    return b.hex() if b else "-"


def run_filter(cmd, path):
    with open(path, "rb") as f:
        out = subprocess.run(cmd, stdin=f, stdout=subprocess.PIPE, check=True).stdout
    return out.decode("latin-1").split("\n")


def norm_impl(mode, out):
    if out.startswith("PANIC") or out.startswith("FOREIGN"):
        return "PANIC"
    return out


def run_shard(texts):
    """texts: list of bytes; returns list of (mode, text, impl, model) mismatches and line count"""
    lines = []
    for t in texts:
        h = hx(t)
        for m in MODES:
            lines.append(m + " " + h)
    fd, path = tempfile.mkstemp(prefix="sch_shard_", suffix=".txt")
    try:
        with os.fdopen(fd, "w") as f:
            f.write("\n".join(lines) + "\n")
        a = run_filter(IMPL, path)
        b = run_filter(MODEL, path)
    finally:
        os.unlink(path)
    bad = []
    global PANICS
    PANICS += sum(1 for x in a if "PANIC" in x or "FOREIGN" in x or "NOEOF" in x)
    if len(a) < len(lines) or len(b) < len(lines):
        bad.append(("?", b"", "impl lines %d" % len(a), "model lines %d / %d" % (len(b), len(lines))))
        return bad, len(lines)
    for i, ln in enumerate(lines):
        m = ln[0]
        x = norm_impl(m, a[i])
        y = b[i]
        if x != y:
            bad.append((m, texts[i // len(MODES)], x, y))
    return bad, len(lines)


def shards(it, n):
    cur = []
    for t in it:
        cur.append(t)
        if len(cur) >= n:
            yield cur
            cur = []
    if cur:
        yield cur


def run_category(name, texts_iter, workers=8):
    total = 0
    ntexts = 0
    bad_all = []
    per_shard = SHARD // len(MODES)
    with ThreadPoolExecutor(max_workers=workers) as ex:
        futs = []
        for sh in shards(texts_iter, per_shard):
            ntexts += len(sh)
            futs.append(ex.submit(run_shard, sh))
            if len(futs) >= 4 * workers:
                for f in futs:
                    bad, n = f.result()
                    total += n
                    bad_all.extend(bad)
                futs = []
        for f in futs:
            bad, n = f.result()
            total += n
            bad_all.extend(bad)
    print("%-8s texts=%d lines=%d mismatches=%d (impl non-DocumentError panics so far: %d)"
          % (name, ntexts, total, len(bad_all), PANICS), flush=True)
    for m, t, x, y in bad_all[:20]:
        print("   mode %s text %r hex %s\n      impl : %s\n      model: %s" % (m, t, hx(t), x[:300], y[:300]))
    return ntexts, total, len(bad_all)


# ---------------------------------------------------------------- categories
def gen_exhaustive(maxlen=4):
    for n in range(0, maxlen + 1):
        for tup in itertools.product(ALPHABET, repeat=n):
            yield bytes(tup)


def gen_sample(count, rng):
    for _ in range(count):
        n = rng.randint(5, 8)
        yield bytes(rng.choice(ALPHABET) for _ in range(n))


def mutate(t: bytes, rng) -> bytes:
    k = rng.randint(0, 2)
    if not t:
        k = 1
    if k == 0:  # replace
        i = rng.randrange(len(t))
        return t[:i] + bytes([rng.choice(ALPHABET)]) + t[i + 1:]
    if k == 1:  # insert
        i = rng.randint(0, len(t))
        return t[:i] + bytes([rng.choice(ALPHABET)]) + t[i:]
    i = rng.randrange(len(t))  # delete
    return t[:i] + t[i + 1:]


TRAILERS = [b" x", b"\n\n# c", b"}", b",", b"@t"]


def derived(t: bytes, rng, full_upto=80, nsample=60, nmut=5, trailers=True):
    yield t
    n = len(t)
    if n <= full_upto:
        offs = range(0, n)
    else:
        offs = sorted(rng.sample(range(0, n), nsample))
    for o in offs:
        yield t[:o]
    for _ in range(nmut):
        yield mutate(t, rng)
    if trailers:
        for tr in TRAILERS:
            yield t + tr


def gen_seeds(rng, limit=None):
    with open(os.path.join(HERE, "tools", "schema_seed_texts.txt")) as f:
        seeds = [bytes.fromhex(l.strip()) for l in f if l.strip()]
    if limit:
        seeds = seeds[:limit]
    for t in seeds:
        yield from derived(t, rng)


# ---- own generator of annotation-heavy texts
NAMES = ["a", "b", "t", "Cat", "dog-1", "x_y", "T2"]
KEYS = ["k", "id", "name", "a b", "q\\\"z", "\\u00e9", ""]


def g_ws(rng):
    return rng.choice(["", "", " ", "  ", "\t", " \t "])


def g_nl(rng, style):
    return style


def g_scalar(rng):
    return rng.choice(["1", "0", "-1", "12.50", "0.0", "-0", "true", "false", "null", '"s"', '""',
                       '"a\\nb"', '"\\u00Ae"', '"x // y"', '"# no"', "100", '"/* */"'])


def g_rule_value(rng, depth=0):
    r = rng.random()
    if r < 0.35 or depth > 2:
        return rng.choice(['"integer"', '"string"', "0", "1", "-5", "2.5", "true", "false", "null", '"@t"',
                           '"@Cat"', "@t", "@a | @b", '"a"'])
    if r < 0.6:
        n = rng.randint(0, 3)
        items = [g_rule_value(rng, depth + 1) for _ in range(n)]
        s = "[" + g_ws(rng) + ("," + g_ws(rng)).join(items)
        if items and rng.random() < 0.2:
            s += ","
        return s + g_ws(rng) + "]"
    return g_rules(rng, depth + 1)


RULE_NAMES = ["type", "min", "max", "enum", "or", "allOf", "optional", "nullable", "minLength", "regex",
              "additionalProperties", "const", "exclusiveMinimum", "minItems", "my rule", "x-y"]


def g_rules(rng, depth=0):
    n = rng.randint(0, 3)
    parts = []
    for _ in range(n):
        name = rng.choice(RULE_NAMES)
        if rng.random() < (0.9 if " " in name else 0.35):
            name = '"' + name + '"'
        name += rng.choice(["", "", " ", "  "])
        v = g_rule_value(rng, depth)
        if name.startswith('"my') is False and rng.random() < 0.15:
            v = {"enum": '[1, "a"]', "or": '[{type: "integer", min: 0}, "@t"]',
                 "allOf": '["@a", "@b"]'}.get(name.strip().strip('"'), v)
        parts.append(name + ":" + g_ws(rng) + v)
    s = "{" + g_ws(rng) + ("," + g_ws(rng)).join(parts)
    if parts and rng.random() < 0.25:
        s += ","
    return s + g_ws(rng) + "}"


def g_note(rng):
    return rng.choice(["a note", "x", "note # not comment", "{not rules}", "a - b", "* star", "//", "@t | @u", "é"])


def g_annotation(rng, nl, allow_multi=True):
    """returns (text, ends_line) """
    r = rng.random()
    if r < 0.55 or not allow_multi:
        k = rng.random()
        if k < 0.5:
            body = g_rules(rng)
        elif k < 0.8:
            body = g_rules(rng) + g_ws(rng) + "-" + g_ws(rng) + g_note(rng)
        else:
            body = g_note(rng)
        s = "//" + g_ws(rng) + body + g_ws(rng)
        if rng.random() < 0.2:
            s += "# user comment"
        return s, True
    k = rng.random()
    inner_nl = rng.choice(["", " ", nl, nl + "  "])
    if k < 0.5:
        body = g_rules(rng)
    elif k < 0.8:
        body = g_rules(rng) + inner_nl + "-" + g_ws(rng) + g_note(rng) + rng.choice(["", nl + "more text"])
    else:
        body = g_note(rng) + rng.choice(["", nl + "line 2"])
    if rng.random() < 0.15:
        # rules spread over lines, possibly with inline annotations inside the multi-line one
        body = "{" + nl + '  type: "integer", // {min: 1}' + nl + "  min: 0" + nl + "}"
    return "/*" + inner_nl + body + inner_nl + "*/", False


def g_comment(rng, nl):
    r = rng.random()
    if r < 0.6:
        return "#" + rng.choice([" c", "c", " {x}", " // not", "", " ##"]), True
    return "###" + rng.choice(["", nl, " a" + nl + " b "]) + rng.choice(["block", "# x", "// y", nl]) + "###", False


def g_value(rng, nl, depth, ind):
    r = rng.random()
    if depth > 2 or r < 0.4:
        if rng.random() < 0.25:
            n = rng.randint(1, 3)
            return (" " * rng.randint(0, 1) + "|" + " " * rng.randint(0, 2)).join("@" + rng.choice(NAMES) for _ in range(n))
        return g_scalar(rng)
    if r < 0.7:
        return g_object(rng, nl, depth + 1, ind + "  ")
    return g_array(rng, nl, depth + 1, ind + "  ")


def g_trail(rng, nl, after_comma=True):
    """what may follow a member on its line: annotation and/or comment; returns (text, needs_nl)"""
    s = ""
    ends = False
    if rng.random() < 0.55:
        a, e = g_annotation(rng, nl)
        s += " " + a
        ends = e
    if not ends and rng.random() < 0.2:
        c, e = g_comment(rng, nl)
        s += " " + c
        ends = e
    return s, ends


def g_object(rng, nl, depth, ind):
    n = rng.randint(0, 3)
    oneline = rng.random() < 0.25
    s = "{"
    a, ends = g_trail(rng, nl) if rng.random() < 0.4 else ("", False)
    s += a
    if n == 0:
        if ends:
            s += nl + ind
        elif rng.random() < 0.3:
            s += nl + ind
        return s + "}"
    sep = " " if (oneline and not ends) else nl + ind + "  "
    s += sep
    for i in range(n):
        if rng.random() < 0.2:
            key = "@" + rng.choice(NAMES)
        else:
            key = '"' + rng.choice(KEYS) + '"'
        s += key + g_ws(rng) + ":" + g_ws(rng)
        if rng.random() < 0.05:
            s += nl + ind + "    "
        s += g_value(rng, nl, depth, ind + "  ")
        last = i == n - 1
        if not last:
            s += g_ws(rng) + ","
        a, ends = g_trail(rng, nl)
        s += a
        if rng.random() < 0.1:
            s += nl + ind + "  " + g_comment(rng, nl)[0]
            ends = True
        if last:
            s += (nl + ind) if (ends or not oneline) else " "
        else:
            s += (nl + ind + "  ") if (ends or not oneline) else " "
    return s + "}"


def g_array(rng, nl, depth, ind):
    n = rng.randint(0, 3)
    oneline = rng.random() < 0.3
    s = "["
    a, ends = g_trail(rng, nl) if rng.random() < 0.4 else ("", False)
    s += a
    if n == 0:
        if ends or rng.random() < 0.3:
            s += nl + ind
        return s + "]"
    s += " " if (oneline and not ends) else nl + ind + "  "
    for i in range(n):
        s += g_value(rng, nl, depth, ind + "  ")
        last = i == n - 1
        if not last:
            s += g_ws(rng) + ","
        a, ends = g_trail(rng, nl)
        s += a
        if rng.random() < 0.1:
            s += nl + ind + "  " + g_comment(rng, nl)[0]
            ends = True
        if last:
            s += (nl + ind) if (ends or not oneline) else " "
        else:
            s += (nl + ind + "  ") if (ends or not oneline) else " "
    return s + "]"


def g_schema(rng):
    nl = rng.choice(["\n", "\n", "\r\n", "\r"])
    s = ""
    if rng.random() < 0.15:
        s += g_comment(rng, nl)[0] + nl
    if rng.random() < 0.1:
        s += rng.choice([" ", nl, "\t"])
    s += g_value(rng, nl, 0, "")
    if rng.random() < 0.5:
        a, ends = g_trail(rng, nl)
        s += a
        if ends and rng.random() < 0.5:
            s += nl
    if rng.random() < 0.2:
        s += rng.choice([nl, " ", nl + nl, nl + "# end", nl + "###" + nl + "x" + nl + "###", nl + "// {}"])
    return s.encode("utf-8")


def gen_own(rng, count):
    for i in range(count):
        t = g_schema(rng)
        if i % 4 == 0:
            yield from derived(t, rng, full_upto=120, nsample=60, nmut=5, trailers=True)
        else:
            yield t
            yield mutate(t, rng)


EDGE = [
    # comments: inline (the new line is read twice), ### blocks (two bytes skipped), comment at the very end
    "#\n", "# c\n1", "1 # c\n", "1 # c", "1 #", "1 ##", "1 ###", "1 ### x ###", "1 ### x ### ", "###\n###1", "1 ####",
    "1 ### a ## b ###\n", "{ # c\r\n}", "[ # c\n 1 # d\r ]", "{\"a\" # c\n : 1}", "[1 # c\n, 2]", "#", "##", "###", "####", "######",
    "1 #\n#\n", "# a\n# b\n1", "1 # a # b\n",
    # inline annotations
    "1 //", "1 // ", "1 // x", "1 // x\n", "1 // x\n/", "1 // x\n // y", "1 // x\n# c\n", "1 // x # c\n/", "1 // x # c\n #d\n/",
    "1 // {}", "1 // {} ", "1 // {}\n", "1 // {} - n", "1 // {} -n\n", "1 // {} - ", "1 // {} x", "1 // {}#c", "1 // {} # c\n/",
    "1 // {a:1}", "1 // {a:1,}", "1 // { a : 1 , }", "1 // {\"a\":1}", "1 // {\"a\\u0041\":1}", "1 // {a b:1}", "1 // {a :1}", "1 // {:1}",
    "1 // {a\\:1}", "1 // {a\"b:1}", "1 // {a:@t}", "1 // {a:@t|@u}", "1 // {a: @t | @u }", "1 // {a:{b:[1,{c:2}]}}", "1 // {a:[]}",
    "1 // {a:[1,]}", "1 // {@k:1}", "1 // {a:1 // x\n}", "1 // {a:1}\n// {b:2}", "1 // {a:\n1}", "1 // {a:1} - x # c\n2", "1 // {a:\"\\u12",
    "1 // {a:1 # c\n}", "1 // {# c\n}", "1 // {a:1}# c\n", "1 // {a:tru", "1 // {a:-", "1 // {a:1.", "1 // {a:1e1}",
    # multi-line annotations
    "1 /*", "1 /* ", "1 /* x", "1 /* x *", "1 /* x */", "1 /* x */ ", "1 /**/", "1 /*/", "1 /* {} */", "1 /* {}*/", "1 /* {} * /", "1 /* {} - x */",
    "1 /* {} -x\ny */\n", "1 /*\n{a:1}\n*/", "1 /* {a:1 // {b:2}\n} */", "1 /* {a:1 // {b:2} - n\n} */", "1 /* {a:1 // n\n} */",
    "1 /* {a:1 // n # c\n} */", "1 /* {a:1} */ // x", "1 /* {a:1} */ /* y */", "1 /* x */ 2", "1 /* {a:1 /* y */} */", "1 /* {a: // {}\n 1} */",
    "1 /* {} # c\n */", "1 /* x # c\n */", "1 /* {a:1 // x\n/", "1 /* {a:1 // {}\n// y\n}*/", "1 /* {a:@t // x\n}*/", "1 /* {a:@t|@u}*/",
    # annotation not allowed
    "[1] // x", "[] // x", "[ ] // x", "[[1]] // x", "[[1], // x\n 2]", "[[1] // x\n]", "{\"a\":[1]} // x", "{\"a\":[1], // x\n\"b\":2}",
    "[\n// x\n1]", "[1, // x\n// y\n2]", "{\"a\":1, // x\n// y\n\"b\":2}", "{ // x\n// y\n}", "{\"a\" // x\n:1}", "{\"a\": // x\n1}",
    # type shortcuts
    "@", "@a", "@a ", "@a |", "@a | ", "@a | @", "@a | @b", "@a|@b", "@a |\t@b  ", "@a | @b // x", "@a // x", "@a// x", "@a # c", "@a# c\n",
    "@a\n", "@a \n", "@a | b", "@a @b", "@a,", "[@a]", "[@a ]", "[@a|@b , @c]", "[@a // x\n]", "{\"k\":@a}", "{\"k\":@a }", "{\"k\": @a | @b , \"l\":1}",
    "{\"k\":@a // {optional: true}\n}", "{\"k\":@a# c\n}", "@a /* x */", "@a-b_c9", "@a.b", "@a\t|@b", "@a |\n@b", "@a\n|@b", "{\"k\":@a\n}",
    # key shortcuts
    "{@k:1}", "{@k : 1}", "{@k", "{@", "{@:1}", "{@k:@v}", "{\"a\":1,@k:2}", "{\"a\":1,\n@k:2}", "{@k // x\n:1}", "{@k-1 :1, @l:2}", "{@k|@l:1}",
    # literals and ends of input
    "1", "12", "-", "-1", "0", "01", "1.", "1.5", "1.5e", "1e1", "t", "true", "tru", "nul", "null ", "\"a", "\"a\"", "\"\\", "\"\\u1", "\"\\u12ab\"", "\"\\x\"",
    "{", "{\"a\"", "{\"a\":", "{\"a\":1", "{\"a\":1,", "{\"a\":1,}", "[", "[1", "[1,", "[1,]", "[,]", "{,}", "{}", "[]", "{} ", "[] ", "{}{}", "{}x", "1 x", "1\nx",
    "\"a\"x", "@a x", "[1]x", "[1] x", "{} x", "{}\n\n# c", "{}}", "{},", "{}@t", "1@t", "1}", "1,", "1]", "[1]]", "@a}", "@a]", "@a | @b}", "@a | @b ]",
    "{} // x\nfoo", "{} // {}\nfoo", "{} /* x */ foo", "{} # c\nfoo", "{} ### c ### foo", "[1,2] foo", "1 // x\n\nfoo", "@a // x\nfoo", "@a foo", "@a | @b foo",
    # own-line annotations / comments / shortcuts after a comma and a new line
    "{\"a\":1,\n// x\n\"b\":2}", "{\"a\":1,\n/", "1 /* {a:1,\n// x\n b:2} */", "1 /* {a:1,\n/b:2} */", "{\"a\":1,\n # c\n \"b\":2}", "{\"a\":1,\n@k:2}",
    "[1,\n// x\n2]", "[1,\n# c\n2]", "[\n# c\n]", "[# c\n]", "{# c\n}", "{\n// x\n}", "{\n\"a\":1\n// x\n}", "{\"a\":1\n,\n\"b\":2\n}", "{\"a\":1,\n}", "[1,\n]",
    "1 /* {a:1,\n}*/", "1 /* {\n a:1\n ,\n b:2\n} */", "1 /* {a:[1,\n2]} */", "1 /*\n\n*/", "1 /* x\n*/", "1 /* {}\n\n- x\n*/",
    "{\"a\":1 x}", "[1 x]", "[1 x", "{\"a\":1 x", "{\"a\" x", "1 // {a:1 x", "1 // {a x", "  ", "\n", " \n 1 \n ", "\r\n1\r\n", "\t1\t",
    # sixth round (fixes 542fa4b d5e4e81 2daaa0c 0196ace): CRLF behind an annotated property, a line break after a bare rule name, the annotation ban after a
    # non-empty array, a ### block behind a note
    "{\"a\":1, // x\r\n\"b\":2}", "{\"a\":1, // x\r\n// y\r\n\"b\":2}", "{\"a\":1, // {min:1}\r\n\"b\":2 // y\r\n}", "{\"a\":1, // x\r\n\r\n\"b\":2}",
    "{\"a\":1, // x\r \n\"b\":2}", "{\"a\":1, // x # c\r\n\"b\":2}", "{\"a\":1, # c\r\n\"b\":2}", "{\"a\":1, // {} - n\r\n@k:2}", "{\"a\":1, // x\r\n/",
    "{\"a\":1, // x\r\n // y\r\n}", "{\"a\":1,\r\n// x\r\n\"b\":2}", "[1, // x\r\n2]",
    "1 /* {min\n: 1} */", "1 /* {min \n: 1} */", "1 /* {min\r\n : 1} */", "1 /* {min\n\n: 1, max\n:2} */", "1 // {min\n: 1}", "1 /* {\"min\"\n: 1} */", "1 /* {min\n 1} */",
    "1 /* {a:1 // {min\n:1}\n} */", "1 /* {m\n", "1 /* {m \n",
    "{\"a\":[1],\n\"b\":2 // x\n}", "{\"a\":[1], \"b\":2 // x\n}", "{\"a\":[1], // x\n\"b\":2}", "{\"a\":[1] // x\n}", "{\"a\":[1]\n// x\n}", "[[1],\n// x\n2]", "[[1], 2 // x\n]",
    "[[1]\n// x\n]", "[[1]\n, // x\n2]", "[[1],\n2 // x\n]", "{\"a\":[1], @k:2 // x\n}", "{\"a\":[1],\n@k:2 // x\n}", "[[1], // x\n2]", "[[1] // x\n,2]", "[[1] , // x\n2]",
    "1 /* {a:[[1],\n// x\n2]} */", "{\"a\":[[1]], \"b\":[] // x\n}",
    "1 // x ### c\nd ### e\n2", "1 // x ### c ###\n", "1 // x ### c", "1 // x ###", "1 // x ## c\n", "1 // x # c\n", "{\"a\":1, // n ### c\nd ###\n\"b\":2}", "1 // {} - n ### c\n ### \n",
    "1 // {min:1} ### c\n###\n", "1 /* {a:1 // n ### c\n} */", "[1, // n ### c\n ### // m\n2]", "1 // x ### c\n### // y\n",
    # seventh round (fixes 3cd814f 2bf15a3): a slash as the last byte behind a schema; texts of annotations only
    "{}\n/", "{} /", "{}/", "1\n/", "\"a\"\n/", "@T\n/", "1 // {min: 0}\n/", "[1]\n/", "[1] /", "1 /", "1 // x\n/", "{\"a\":[1]}\n/", "1 /* x */ /", "1 # c\n/",
    "// x", "/* x */", "// x\n", " \n// type", "# c\n// x", "/* x */ /* y */", "/* x */ // y", "// {min: 1}", "/* {min: 1} */\n", "// x\n1", "/* x */ 1", "// {min: 1}\n1",
    "// x\n// y\n2", "/* {a:1} */ x", "// x\n@t", "/* x */ [1]", "// x\nfoo", "/* {a:[1]} */", "// {a:{b:1}}\n",
    # ninth round (block comments): the opener's third #; a block inside the rules of an inline annotation
    "#####a\n###\n1", "### ##a\n###\n1", "1 #####a ###", "#####\n1", "####\n1", "######", "###### 1", "1 ######", "1 ####### x", "### a ####", "### a #### 1",
    "1 // {min: 1 ### c ### }\n", "1 // {min: 1 ### c ### }", "1 // {min: 1, ### c ### max: 3}\n", "{\"a\": 1 // {min: 1 ### c ### }\n}", "[1, // {min: 1 ### c ### }\n2]",
    "1 // {min: 1 ### c\n ### }\n", "1 // {### c ### min: 1}\n", "1 // {min: ### c ### 1}\n", "1 // {min: 1} ### c ### - n\n", "1 /* {min: 1 ### c ### } */", "1 // x ### c ### y\n",
    "1 // {a: {b: 1 ### c ### }}\n", "1 // {a: [1, ### c ### 2]}\n", "1 // {min: 1 ### c ###\n", "1 // {min: 1 ### c ### # d\n}",
]


def gen_edge(rng):
    for e in EDGE:
        t = e.encode("utf-8")
        yield from derived(t, rng, full_upto=200, nmut=20, trailers=True)


def gen_ext(rng, quick):
    """state x next-byte coverage: prefixes of the edge cases extended by every 1- and 2-byte string over the
    alphabet; prefixes of seed and generated texts extended by every byte"""
    seen = set()
    for e in EDGE:
        t = e.encode("utf-8")
        for o in range(0, len(t) + 1):
            seen.add(t[:o])
    pre2 = sorted(seen)
    if quick:
        pre2 = pre2[::8]
    for p in pre2:
        for a in ALPHABET:
            yield p + bytes([a])
            for b in ALPHABET:
                yield p + bytes([a, b])
    with open(os.path.join(HERE, "tools", "schema_seed_texts.txt")) as f:
        seeds = [bytes.fromhex(l.strip()) for l in f if l.strip()]
    pool = rng.sample(seeds, 60 if quick else 400) + [g_schema(rng) for _ in range(60 if quick else 400)]
    seen1 = set()
    for t in pool:
        n = len(t)
        offs = range(0, n + 1) if n <= 150 else sorted(rng.sample(range(0, n + 1), 150))
        for o in offs:
            seen1.add(t[:o])
    for p in sorted(seen1 - seen):
        for a in ALPHABET:
            yield p + bytes([a])


def main():
    args = [a for a in sys.argv[1:] if not a.startswith("--")]
    quick = "--quick" in sys.argv
    cats = args or ["edge", "ext", "exh", "sample", "seeds", "gen"]
    rng = random.Random(20261001)
    res = {}
    if "edge" in cats:
        res["edge"] = run_category("edge", gen_edge(rng))
    if "ext" in cats:
        res["ext"] = run_category("ext", gen_ext(rng, quick))
    if "exh" in cats:
        res["exh"] = run_category("exh", gen_exhaustive(3 if quick else 4))
    if "sample" in cats:
        res["sample"] = run_category("sample", gen_sample(20000 if quick else 300000, rng))
    if "seeds" in cats:
        res["seeds"] = run_category("seeds", gen_seeds(rng, 200 if quick else None))
    if "gen" in cats:
        res["gen"] = run_category("gen", gen_own(rng, 2000 if quick else 40000))
    print("SUMMARY", res)
    return 1 if any(v[2] for v in res.values()) else 0


if __name__ == "__main__":
    sys.exit(main())
