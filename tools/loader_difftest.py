#!/usr/bin/env python3
"""Differential test of the Coq model of the JSight schema LOADER (build/modelrun loader_model)
against the real Go library.

References
  impl  = build/implrun schema   {"schema": <hex>, "hex": true, "ops": [["ast"]]}  -> A:<ast json> | E<code>@<pos>
          (GetAST = load + CompileBasic + CompileAllOf + checker: it fails for every stage)
  probe = build/loadprobe        <hex>  -> A:<ast json> | EMPTY | E<code>@<pos> | PANIC(...)
          (the loader alone: loader.LoadSchemaWithoutCompile + root.ASTNode(); same unmodified /repo
          sources, built by probe/build.sh with an overlay; used to tell loader errors from errors of
          the later stages, which GetAST cannot do)

For every text:
  * probe vs model: same verdict (A / EMPTY / E<code>@<pos> / PANIC); if A, same AST (full AST: token
    types, schema types, keys, key-shortcut flags, values, notes, every rule with name, source, token
    type, value, comment, items, props; children).
  * impl vs model:  impl A  -> model A and the PROJECTION (rules with src = 1 only) is equal;
                    impl E  -> if the model refuses the text, the same code and position;
                               if the model accepts it, the probe must accept it too (later-stage error).
Byte strings of the model are hex; the Go side went through json.Marshal, which replaces every invalid
UTF-8 byte by U+FFFD: the model bytes are decoded the same way (utf8.DecodeRune) before comparing.

usage: difftest.py [targeted] [enumrules] [edge] [seeds] [gen] [good] [tokens] [--n=N] [--seed=S]   (default: all, n = 20000)
"""
import json
import os
import re
import random
import subprocess
import sys
import tempfile
from concurrent.futures import ThreadPoolExecutor

HERE = os.path.dirname(os.path.dirname(os.path.abspath(__file__)))
sys.path.insert(0, os.path.join(HERE, "tools"))
import schema_difftest as SD  # generators g_schema, EDGE, mutate

IMPL = [os.path.join(HERE, "build/implrun"), "schema"]
PROBE = [os.path.join(HERE, "build/implrun"), "loadprobe"]
MODEL = [os.path.join(HERE, "build/modelrun"), "loader_model"]
SHARD = 4000


# ------------------------------------------------------------------ Go-like UTF-8 decoding
def go_decode(b: bytes) -> str:
    out = []
    i = 0
    n = len(b)
    while i < n:
        c = b[i]
        if c < 0x80:
            out.append(chr(c)); i += 1; continue
        def bad():
            out.append("\ufffd")
        if c < 0xC2 or c > 0xF4:
            bad(); i += 1; continue
        if c < 0xE0:
            if i + 1 < n and 0x80 <= b[i + 1] <= 0xBF:
                out.append(chr(((c & 0x1F) << 6) | (b[i + 1] & 0x3F))); i += 2
            else:
                bad(); i += 1
            continue
        if c < 0xF0:
            lo = 0xA0 if c == 0xE0 else 0x80
            hi = 0x9F if c == 0xED else 0xBF
            if i + 2 < n and lo <= b[i + 1] <= hi and 0x80 <= b[i + 2] <= 0xBF:
                out.append(chr(((c & 0x0F) << 12) | ((b[i + 1] & 0x3F) << 6) | (b[i + 2] & 0x3F))); i += 3
            else:
                bad(); i += 1
            continue
        lo = 0x90 if c == 0xF0 else 0x80
        hi = 0x8F if c == 0xF4 else 0xBF
        if i + 3 < n and lo <= b[i + 1] <= hi and 0x80 <= b[i + 2] <= 0xBF and 0x80 <= b[i + 3] <= 0xBF:
            out.append(chr(((c & 0x07) << 18) | ((b[i + 1] & 0x3F) << 12) | ((b[i + 2] & 0x3F) << 6) | (b[i + 3] & 0x3F)))
            i += 4
        else:
            bad(); i += 1
    return "".join(out)


def H(h: str) -> str:
    return go_decode(bytes.fromhex(h))


# ------------------------------------------------------------------ canonical forms
def go_rule(r):
    return (r.get("tt", ""), r.get("v", ""), r.get("c", ""),
            tuple(go_rule(x) for x in r.get("items", []) or []),
            tuple((k, go_rule(x)) for k, x in (r.get("props", []) or [])),
            r.get("src", 0))


def go_node(n, proj):
    rules = tuple((k, go_rule(r)) for k, r in (n.get("rules", []) or []) if not proj or r.get("src") == 1)
    st = "" if proj else n.get("st", "")
    return (n.get("tt", ""), st, n.get("key", ""), bool(n.get("ks", False)), n.get("v", ""), n.get("c", ""),
            rules, tuple(go_node(c, proj) for c in n.get("ch", []) or []))


def m_rule(r):
    return (r["tt"], H(r["v"]), H(r["c"]), tuple(m_rule(x) for x in r["items"]),
            tuple((H(k), m_rule(x)) for k, x in r["props"]), r["src"])


def m_node(n, proj):
    rules = tuple((H(k), m_rule(r)) for k, r in n["rules"] if not proj or r["src"] == 1)
    st = "" if proj else H(n["st"])
    return (n["tt"], st, H(n["key"]), n["ks"], H(n["v"]), H(n["c"]), rules,
            tuple(m_node(c, proj) for c in n["ch"]))


UINT_RULES = {"minLength", "maxLength", "minItems", "maxItems", "precision"}


def lit_ok(name, tokhex, r):
    """an as-written literal token against the AST value the library derives from it"""
    tok = bytes.fromhex(tokhex)
    v = H(r["v"])
    if name in UINT_RULES:
        return tok.isdigit() and int(tok) % 2 ** 64 == int(v)
    if tok[:1] == b'"' and tok[-1:] == b'"' and len(tok) >= 2:
        if b"\\" in tok or any(c >= 0x80 for c in tok):
            return True                      # escapes / non-ASCII: Unquote is checked on the AST side
        return tok[1:-1].decode() == v
    if name == "regex":
        return tok == b"null" and v == ""
    return tok.decode("latin-1") == v


def rval_ok(name, w, r):
    if "lit" in w:
        return lit_ok(name, w["lit"], r)
    if "ref" in w:
        return r["tt"] == "reference" and H(w["ref"]) == H(r["v"])
    if "arr" in w:
        items = w["arr"]
        if name == "allOf" and len(items) == 1 and r["tt"] == "reference":
            return lit_ok(name, items[0]["lit"], r)
        return len(items) == len(r["items"]) and all(rval_ok(name, x, y) for x, y in zip(items, r["items"]))
    if "obj" in w:
        props = w["obj"]
        return ([H(k) for k, _ in props] == [H(k) for k, _ in r["props"]]
                and all(rval_ok(H(k), x, y[1]) for (k, x), y in zip(props, r["props"])))
    return False


def written_ok(n, text):
    """the as-written view of the model ("w", "tok") against its AST view: the same rule names with
    src = 1 in the same order, every written value consistent with the AST value, the note, the token
    of a literal is a slice of the text"""
    ast_rules = [(H(k), r) for k, r in n["rules"] if r["src"] == 1]
    w_rules = [(H(k), w) for k, w in n["w"]["rules"]]
    if [k for k, _ in ast_rules] != [k for k, _ in w_rules] or n["w"]["note"] != n["c"]:
        return False
    for (k, r), (_, w) in zip(ast_rules, w_rules):
        if k == "type" and "lit" in w and H(r["v"]) == "mixed":
            continue                         # MixedValueNode.addOrConstraint rewrites the type rule to "mixed"
        if not rval_ok(k, w, r):
            return False
    if n["tok"] and bytes.fromhex(n["tok"]) not in text:
        return False
    return all(written_ok(c, text) for c in n["ch"])


# ------------------------------------------------------------------ running
def run_lines(cmd, lines):
    fd, path = tempfile.mkstemp(prefix="load_shard_", suffix=".txt")
    try:
        with os.fdopen(fd, "w") as f:
            f.write("\n".join(lines) + "\n")
        with open(path, "rb") as f:
            out = subprocess.run(cmd, stdin=f, stdout=subprocess.PIPE, check=True).stdout
    finally:
        os.unlink(path)
    return out.decode("utf-8").split("\n")


def hx(b):
    return b.hex() if b else "-"


def verdict(s):
    if s.startswith("A:"):
        return "A"
    if s.startswith("PANIC") or s.startswith("FOREIGN"):
        return "PANIC"
    return s


RX_TOKEN = re.compile(rb'regex"?[ \t\r\n]*:[ \t\r\n]*("(?:[^"\\]|\\.)*"|null)')

# registered enum rules of the category "enumrules": name -> (text of the rule, tokens of its values)
ENUM_RULES = {
    "@e": ('[1, "a"]', ['1', '"a"']),
    "@f": ('[\n "x", // c\n 2.5, null, true\n]', ['"x"', '2.5', 'null', 'true']),
    "@empty": ('[]', []),
}


def regex_oracle(texts):
    """the regex oracle: for every text the decoded patterns of its regex rule values that Go's
    regexp.Compile refuses (asked from the real thing: loadprobe 'R <token>')"""
    toks = sorted({m for t in texts for m in RX_TOKEN.findall(t)})
    if not toks:
        return [[] for _ in texts]
    ans = run_lines(PROBE, ["R " + k.hex() for k in toks])
    badpat = {k: a[4:] for k, a in zip(toks, ans) if a.startswith("bad:")}
    return [sorted({badpat[m] for m in RX_TOKEN.findall(t) if m in badpat}) for t in texts]


def run_shard(texts, with_enums=False):
    hexes = [hx(t) for t in texts]
    oracle = regex_oracle(texts)
    case = lambda t: {"schema": t.hex(), "hex": True, "ops": [["ast"]]}
    pe = me = ""
    if with_enums:
        case = lambda t: {"schema": t.hex(), "hex": True, "ops": [["ast"]],
                          "enums": [[n, v[0].encode().hex()] for n, v in ENUM_RULES.items()]}
        pe = " " + ",".join(n.encode().hex() + "=" + v[0].encode().hex() for n, v in ENUM_RULES.items())
        me = " " + ",".join(n.encode().hex() + ":" + ";".join(x.encode().hex() for x in v[1]) for n, v in ENUM_RULES.items())
    impl = run_lines(IMPL, [json.dumps(case(t)) for t in texts])
    probe = run_lines(PROBE, [h + pe for h in hexes])
    model = run_lines(MODEL, [h + ((" " + (",".join(o) if o else "-")) if (o or me) else "") + me
                              for h, o in zip(hexes, oracle)])
    bad = []
    stats = {"accepted": 0, "later": 0, "loaderr": 0, "scanerr": 0, "empty": 0, "panic": 0, "regex": 0}
    for i, t in enumerate(texts):
        try:
            iv = json.loads(impl[i])[0]
        except Exception:
            iv = "BADLINE " + impl[i][:80]
        pv, mv = probe[i], model[i]
        vi, vp, vm = verdict(iv), verdict(pv), verdict(mv)
        if oracle[i] and vm == "E0@" + vm[3:]:
            stats["regex"] += 1
        # --- probe vs model
        if vp != vm:
            bad.append(("verdict probe/model", t, pv[:400], mv[:400])); continue
        if vm == "A":
            mj = json.loads(mv[2:])
            pj = json.loads(pv[2:])
            if go_node(pj, False) != m_node(mj, False):
                bad.append(("ast probe/model", t, pv[:600], repr(m_node(mj, False))[:600])); continue
            if not written_ok(mj, t):
                bad.append(("written view", t, "", mv[:600])); continue
        # --- impl vs model
        if vi == "A" and vm == "EMPTY" and json.loads(iv[2:]) == {"st": "", "tt": ""}:
            stats["empty"] += 1      # no example at all: GetAST returns an empty node
        elif vi == "A":
            if vm != "A":
                bad.append(("verdict impl/model", t, iv[:400], mv[:400])); continue
            if go_node(json.loads(iv[2:]), True) != m_node(mj, True):
                bad.append(("projection impl/model", t, iv[:600], repr(m_node(mj, True))[:600])); continue
            stats["accepted"] += 1
        elif vi.startswith("E"):
            if vm in ("A", "EMPTY"):
                stats["later"] += 1          # the loader accepts (probe agrees, checked above); a later stage refuses
                if vm == "EMPTY":
                    stats["empty"] += 1
            elif vm != vi:
                bad.append(("verdict impl/model", t, iv[:400], mv[:400])); continue
            elif vm.startswith("E3"):
                stats["scanerr"] += 1
            else:
                stats["loaderr"] += 1
                k = "code" + vm[1:].split("@")[0]
                stats[k] = stats.get(k, 0) + 1
        else:
            stats["panic"] += 1
            if vm != vi:
                bad.append(("verdict impl/model", t, iv[:400], mv[:400])); continue
    return bad, stats


ALL_BAD = []
JSON_OUT = None


def run_category(name, texts, workers=8, with_enums=False):
    texts = list(texts)
    bad_all = []
    tot = {}
    with ThreadPoolExecutor(max_workers=workers) as ex:
        futs = [ex.submit(run_shard, texts[i:i + SHARD], with_enums) for i in range(0, len(texts), SHARD)]
        for f in futs:
            bad, st = f.result()
            bad_all.extend(bad)
            for k, v in st.items():
                tot[k] = tot.get(k, 0) + v
    print("%-9s texts=%d mismatches=%d  %s" % (name, len(texts), len(bad_all),
          " ".join("%s=%d" % kv for kv in sorted(tot.items()) if not kv[0].startswith("code"))), flush=True)
    ALL_BAD.extend(bad_all)
    for kind, t, a, b in bad_all[:15]:
        print("   [%s] text %r hex %s\n      ref  : %s\n      model: %s" % (kind, t, hx(t), a, b))
    return len(texts), len(bad_all), tot


# ------------------------------------------------------------------ inputs
def byte_mutations(t, rng, k=3):
    for _ in range(k):
        if not t:
            yield bytes([rng.randrange(256)]); continue
        i = rng.randrange(len(t))
        r = rng.random()
        if r < 0.5:
            c = rng.choice(SD.ALPHABET)
        elif r < 0.8:
            c = rng.choice(b'{}[],:"@|/*#- \n0123456789abcdefghijklmnopqrstuvwxyzE.+')
        else:
            c = rng.randrange(256)
        yield t[:i] + bytes([c]) + t[i + 1:]


def gen_seeds(rng):
    with open(os.path.join(HERE, "tools", "schema_seed_texts.txt")) as f:
        seeds = [bytes.fromhex(l.strip()) for l in f if l.strip()]
    for t in seeds:
        yield t
        yield from byte_mutations(t, rng, 3)


def gen_sd(rng, n):
    for i in range(n):
        t = SD.g_schema(rng)
        yield t
        if i % 3 == 0:
            yield SD.mutate(t, rng)


# ---- own generator: well-formed annotations with mostly sensible rule values
GOOD_RULES = {
    "string": [('minLength', ["0", "1", "3", "20", "007"]), ('maxLength', ["0", "5", "100"]), ('regex', ['"^a"', '"[a-z]+"', '"a\\\\d"', '""', 'null', '"(x|y)*"']),
               ('type', ['"string"', '"email"', '"uri"', '"uuid"', '"date"', '"datetime"', '"any"', '"@t"', '"enum"', '"mixed"']),
               ('const', ["true", "false"]), ('nullable', ["true", "false"]), ('optional', ["true", "false"])],
    "number": [('min', ["0", "1", "-5", "2.5", "1e2", "-0", "1.50"]), ('max', ["10", "100", "2.5", "1E3", "0"]),
               ('exclusiveMinimum', ["true", "false"]), ('exclusiveMaximum', ["true", "false"]),
               ('precision', ["1", "2", "0", "10"]), ('type', ['"integer"', '"float"', '"decimal"', '"any"', '"@t"']),
               ('const', ["true", "false"]), ('nullable', ["true", "false"]), ('optional', ["true", "false"])],
    "object": [('additionalProperties', ["true", "false", '"any"', '"string"', '"@t"', '"integer"', '"foo"', "1", "null"]),
               ('allOf', ['"@a"', '["@a", "@b"]', '["@a"]', '[]', '"a"', '[1]', "1", '["@a",]']), ('type', ['"object"', '"any"', '"@t"']),
               ('nullable', ["true", "false"]), ('optional', ["true", "false"])],
    "array": [('minItems', ["0", "1", "2"]), ('maxItems', ["0", "1", "5"]), ('type', ['"array"', '"any"']),
              ('nullable', ["true"]), ('optional', ["true", "false"])],
}
ENUMS = ['[1, 2]', '["a", "b"]', '[1, "1", 1.0, true, null]', '[]', '[1, 1]', '["a", "\\u0061"]', '[1.0, 1.00]', '[ 1 ,"x" , ]', '@e', '[[1]]', '[{}]', '"a"', '1']
ORS = ['["@a", "@b"]', '["integer", "string"]', '[{type: "integer"}, {type: "string"}]', '[{type: "integer", min: 0}, "@t"]',
       '[{type: "@a"}, "@b"]', '[{min: 1}, {max: 2}]', '[{type: "string", minLength: 1, maxLength: 0}, "null"]',
       '[{enum: [1, 2]}, "string"]', '[{type: "enum", enum: ["a"]}, "@t"]', '[{type: "integer", enum: [1]}, "@t"]',
       '[{}, "@a"]', '["@a"]', '[]', '[1, 2]', '[[1], "@a"]', '["decimal", "@a"]', '["mixed", "@a"]', '["enum", "@a"]', '["foo", "@a"]',
       '["any", "email", "uri", "uuid", "date", "datetime"]', '[{type: "decimal", precision: 2}, "@a"]', '[{precision: 2}, "@a"]',
       '[{type: "email", minLength: 1}, "@a"]', '[{type: "any", const: true}, "@a"]', '[{type: "any", min: 1}, "@a"]',
       '[{min: 1, exclusiveMinimum: true, max: 1}, "@a"]', '[{min: 2, max: 1}, "@a"]', '[{exclusiveMinimum: true}, "@a"]',
       '[{exclusiveMaximum: false}, "@a"]', '[{optional: true}, "@a"]', '[{type: "@a", nullable: true}, "@b"]', '[{type: "@a", min: 1}, "@b"]',
       '[{type: "string", min: 1}, "@a"]', '[{type: "object", additionalProperties: true}, "@a"]', '[{type: "array", minItems: 2, maxItems: 1}, "@a"]',
       '[{nullable: false}, "@a"]', '[{const: false, nullable: false}, "@a"]', '[{type: "integer", min: 1, min: 2}, "@a"]', '[{foo: 1}, "@a"]',
       '[{type: "mixed"}, "@a"]', '[{type: "foo"}, "@a"]', '[{type: 1}, "@a"]', '[{min: "a"}, "@a"]', '[{enum: @e}, "@a"]', '[{"enum": [1]}, "@a"]',
       '[{type: "integer", or: ["@a", "@b"]}, "@a"]', '[{allOf: "@a"}, "@b"]', '[{min: [1]}, "@a"]', '"@a"', '{type: "@a"}', '@a | @b', '@a',
       '[{type: "null"}, {type: "boolean", const: true}]', '[{type: "float", precision: 1}, "@a"]', '[{regex: "a"}, "@a"]', '[{type: "uuid", regex: "a"}, "@a"]']
NOTES = ["a note", "x", "  spaced  ", "é", "{not rules}", "@t"]


def g_good_rules(rng, kind):
    pool = GOOD_RULES[kind]
    n = rng.choice([0, 1, 1, 1, 2, 2, 3])
    parts = []
    for _ in range(n):
        r = rng.random()
        if r < 0.12:
            parts.append(("enum", rng.choice(ENUMS)))
        elif r < 0.3:
            parts.append(("or", rng.choice(ORS)))
        elif r < 0.36:
            k2 = rng.choice(list(GOOD_RULES))
            name, vals = rng.choice(GOOD_RULES[k2]); parts.append((name, rng.choice(vals)))
        else:
            name, vals = rng.choice(pool); parts.append((name, rng.choice(vals)))
    out = []
    for name, v in parts:
        if rng.random() < 0.25:
            name = '"' + name + '"'
        out.append(name + rng.choice(["", " "]) + ":" + rng.choice(["", " "]) + v)
    s = "{" + rng.choice(["", " "]) + (rng.choice([",", ", "])).join(out)
    if out and rng.random() < 0.1:
        s += ","
    return s + "}"


def g_good_annot(rng, kind, nl):
    r = rng.random()
    rules = g_good_rules(rng, kind)
    if r < 0.55:
        body = rules
    elif r < 0.8:
        body = rules + " - " + rng.choice(NOTES)
    else:
        body = rng.choice(NOTES)
    if rng.random() < 0.75:
        return " // " + body, True
    if rng.random() < 0.3:
        body = body.replace(", ", "," + nl + "   ")
    return " /* " + body + " */", False


def g_good_value(rng, nl, depth, ind):
    """returns (text, kind)"""
    r = rng.random()
    if depth > 2 or r < 0.45:
        k = rng.random()
        if k < 0.4:
            return rng.choice(["1", "0", "-1", "12.50", "0.0", "100", "1e2", "2.5E-1"]), "number"
        if k < 0.75:
            return rng.choice(['"s"', '""', '"a\\nb"', '"\\u00Ae"', '"abc"', '"é"']), "string"
        if k < 0.85:
            return rng.choice(["true", "false", "null"]), "string"
        n = rng.randint(1, 3)
        return " | ".join("@" + rng.choice(SD.NAMES) for _ in range(n)), "string"
    if r < 0.75:
        return g_good_object(rng, nl, depth + 1, ind + "  "), "object"
    return g_good_array(rng, nl, depth + 1, ind + "  "), "array"


def g_good_object(rng, nl, depth, ind):
    n = rng.randint(0, 3)
    s = "{"
    if rng.random() < 0.4:
        a, _ = g_good_annot(rng, "object", nl)
        s += a
    if n == 0:
        return s + nl + ind + "}"
    keys = rng.sample(["k", "id", "name", "a b", "\\u00e9", "", "x"], n)
    for i in range(n):
        key = ("@" + rng.choice(SD.NAMES)) if rng.random() < 0.15 else '"' + keys[i] + '"'
        if rng.random() < 0.04:
            key = '"k"'
        v, kind = g_good_value(rng, nl, depth, ind + "  ")
        s += nl + ind + "  " + key + ": " + v + ("," if i < n - 1 else "")
        if rng.random() < 0.6 and kind in ("number", "string"):
            a, _ = g_good_annot(rng, kind, nl)
            s += a
    return s + nl + ind + "}"


def g_good_array(rng, nl, depth, ind):
    n = rng.randint(0, 3)
    s = "["
    if rng.random() < 0.4:
        a, _ = g_good_annot(rng, "array", nl)
        s += a
    if n == 0:
        return s + nl + ind + "]"
    for i in range(n):
        v, kind = g_good_value(rng, nl, depth, ind + "  ")
        s += nl + ind + "  " + v + ("," if i < n - 1 else "")
        if rng.random() < 0.6 and kind in ("number", "string"):
            a, _ = g_good_annot(rng, kind, nl)
            s += a
    return s + nl + ind + "]"


def g_good_schema(rng):
    nl = rng.choice(["\n", "\n", "\r\n"])
    v, kind = g_good_value(rng, nl, 0, "")
    s = v
    if kind in ("number", "string") and rng.random() < 0.8:
        a, _ = g_good_annot(rng, kind, nl)
        s += a
    return s.encode("utf-8")


def gen_good(rng, n):
    for i in range(n):
        t = g_good_schema(rng)
        yield t
        if i % 4 == 0:
            yield from byte_mutations(t, rng, 1)
        if i % 4 == 1:
            yield SD.mutate(t, rng)                      # replace / insert / delete
        if i % 16 == 2:
            yield SD.mutate(SD.mutate(t, rng), rng)
        if i % 16 == 3 and t:
            yield t[:rng.randrange(len(t))]              # truncation


def gen_edge(rng):
    for s in SD.EDGE:
        t = s.encode("utf-8") if isinstance(s, str) else s
        yield t
        yield from byte_mutations(t, rng, 2)


def gen_targeted():
    from loader_targeted_cases import CASES
    for s in CASES:
        yield s.encode("utf-8") if isinstance(s, str) else s


TOKENS = ["{", "}", "[", "]", ",", ":", " ", "\n", "min", "max", "or", "enum", "allOf", "type", "optional", "regex", "const", "nullable",
          "minLength", "precision", "\"type\"", "\"@a\"", "\"@b\"", "\"integer\"", "\"string\"", "\"enum\"", "\"any\"", "1", "2", "1.5", "true", "false", "null",
          "@e", "@a | @b", "// ", "- ", "x", "# c\n", "/* ", " */"]


def g_tokens(rng):
    """a random token sequence as the body of an annotation: walks the state machines of the rule loaders off the happy path"""
    n = rng.randint(1, 12)
    body = "".join(rng.choice(TOKENS) for _ in range(n))
    r = rng.random()
    if r < 0.3:
        # a plausible skeleton with random tokens as values
        name = rng.choice(["min", "or", "enum", "allOf", "type", "regex", "x"])
        body = "{" + name + ": " + body + rng.choice(["}", "", "]}", "}]}"])
    ex = rng.choice(["1", "\"s\"", "{}", "[]", "@a", "@a | @b", "{\"k\": 1", "[1, 2", "[1,\n 2"])
    if rng.random() < 0.5:
        return (ex + " // " + body + rng.choice(["", "\n", "\n}", "\n]"])).encode()
    return (ex + " /* " + body + rng.choice([" */", "*/", "", " */\n}", " */ ]"])).encode()


def gen_tokens(rng, n):
    for _ in range(n):
        yield g_tokens(rng)


def gen_enumrules(rng):
    from loader_targeted_cases import ENUM_CASES
    for s in ENUM_CASES:
        yield s.encode("utf-8")
    for i in range(1500):
        t = g_good_schema(rng).replace(b"@e", rng.choice([b"@e", b"@f", b"@empty", b"@nope", b"@e | @f"]))
        if b"enum" in t:
            yield t


def main():
    if "--no-build" not in sys.argv:      # the harness must be the one of /repo's current working tree
        sys.path.insert(0, os.path.join(HERE, "lib"))
        import vcommon
        ok, log = vcommon.build_implrun()
        if not ok:
            print("harness build failed: " + str(log)[-500:]); return 2
    args = [a for a in sys.argv[1:] if not a.startswith("--")]
    n = 20000
    for a in sys.argv[1:]:
        if a.startswith("--n="):
            n = int(a[4:])
    global JSON_OUT
    for a in sys.argv[1:]:
        if a.startswith("--json="):
            JSON_OUT = a[7:]
    if "--one" in sys.argv:      # replay: one text (hex) given as --hex=...
        hexes = [a[6:] for a in sys.argv[1:] if a.startswith("--hex=")]
        r = run_category("replay", [bytes.fromhex(h) for h in hexes])
        if JSON_OUT:
            json.dump({"total": r[0], "mismatches": [{"kind": k, "text_hex": t.hex(), "ref": a, "model": b} for k, t, a, b in ALL_BAD[:40]], "stats": r[2]}, open(JSON_OUT, "w"))
        return 1 if r[1] else 0
    cats = args or ["targeted", "enumrules", "edge", "seeds", "gen", "good", "tokens"]
    seed = 20261001
    for a in sys.argv[1:]:
        if a.startswith("--seed="):
            seed = int(a[7:])
    rng = random.Random(seed)
    total = bad = 0
    agg = {}
    for c in cats:
        if c == "seeds":
            r = run_category("seeds", gen_seeds(rng))
        elif c == "gen":
            r = run_category("gen", gen_sd(rng, n))
        elif c == "good":
            r = run_category("good", gen_good(rng, n))
        elif c == "edge":
            r = run_category("edge", gen_edge(rng))
        elif c == "targeted":
            r = run_category("targeted", gen_targeted())
        elif c == "tokens":
            r = run_category("tokens", gen_tokens(rng, n))
        elif c == "enumrules":
            r = run_category("enumrules", gen_enumrules(rng), with_enums=True)
        else:
            print("unknown category", c); continue
        total += r[0]; bad += r[1]
        for k, v in r[2].items():
            agg[k] = agg.get(k, 0) + v
    if JSON_OUT:
        json.dump({"total": total, "mismatches": [{"kind": k, "text_hex": t.hex(), "ref": a, "model": b} for k, t, a, b in ALL_BAD[:40]], "stats": agg}, open(JSON_OUT, "w"))
    print("TOTAL texts=%d mismatches=%d  %s" % (total, bad, " ".join("%s=%d" % kv for kv in sorted(agg.items()) if not kv[0].startswith("code"))))
    print("loader error codes agreed on (code=texts): " +
          " ".join("%s=%d" % (k[4:], v) for k, v in sorted(agg.items(), key=lambda kv: int(kv[0][4:]) if kv[0].startswith("code") else -1) if k.startswith("code")))
    return 1 if bad else 0


if __name__ == "__main__":
    sys.exit(main())
