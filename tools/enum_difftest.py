#!/usr/bin/env python3
"""Differential validation of the Coq model of the enum-rule scanner (coq/theories/Enum/EnumScanner.v,
extracted into build/modelrun, entry enum_model) against the real Go library (build/implrun).

For every input text the four wire modes are compared:
  n  raw event stream of the scanner            (reference: `implrun json`  AND `implrun enumx`)
  N  the same in scannerComputeLength mode      (reference: `implrun enumx`)
  l  Enum.Len()                                 (reference: `implrun enumx`)
  c  Enum.Check()                               (reference: `implrun enumx`)

Categories:
  exhaustive   every byte string of length <= 5 over the 23-symbol alphabet
  sampled      200k random strings of length 6..7 over the same alphabet
  structured   >= 20k random valid enum texts; for each one every truncation and 3 single-byte mutations
  prefixed     300k random strings "[" + 5..10 symbols (extra category, not required by the task)
  seeds        the texts of seed_texts.txt (one hex per line), if present

usage: difftest.py [--jobs N] [--structured N] [--sampled N] [--maxlen N] [--seed N] [--only cat,cat]
"""
import argparse, itertools, os, random, subprocess, sys, tempfile
from concurrent.futures import ProcessPoolExecutor

HERE = os.path.dirname(os.path.dirname(os.path.abspath(__file__)))
IMPL = os.path.join(HERE, "build", "implrun")
MODEL = os.path.join(HERE, "build", "modelrun")
SHARD_TEXTS = 12000          # 4 lines per text -> 48k lines per file

ALPHABET = [b"[", b"]", b",", b'"', b"\\", b"/", b"*", b"\n", b"\r", b" ", b"1", b"0", b"-", b".",
            b"e", b"t", b"n", b"a", b"#", b"{", b"}", b"\x00", b"\x7f"]
MODES = "nNlc"


def hx(t: bytes) -> str:
    return t.hex() if t else "-"


def norm(s: str) -> str:
    # the l / c modes of the harness report a panic with its message
    i = s.find("PANIC(")
    if i >= 0:
        return s[:i] + "PANIC"
    return s


def run_filter(cmd, path):
    with open(path, "rb") as f:
        out = subprocess.run(cmd, stdin=f, capture_output=True, check=True).stdout
    return out.decode("latin-1").split("\n")


def run_shard(texts):
    """texts: list of bytes.  Returns (n_lines, mismatches[(mode, text, impl, model)])."""
    lines = []
    for t in texts:
        h = hx(t)
        for m in MODES:
            lines.append(f"{m} {h}")
    nlines = [l for l in lines if l[0] == "n"]
    with tempfile.TemporaryDirectory(dir="/tmp") as d:
        p_all = os.path.join(d, "all.txt")
        p_n = os.path.join(d, "n.txt")
        with open(p_all, "w") as f:
            f.write("\n".join(lines) + "\n")
        with open(p_n, "w") as f:
            f.write("\n".join(nlines) + "\n")
        ref = run_filter([IMPL, "enumx"], p_all)
        mod = run_filter([MODEL, "enum_model"], p_all)
        refn = run_filter([IMPL, "json"], p_n)
    bad = []
    if len(ref) < len(lines) or len(mod) < len(lines) or len(refn) < len(nlines):
        bad.append(("?", b"", f"short output {len(ref)} {len(mod)} {len(refn)}", f"{len(lines)}"))
        return len(lines), bad
    for i, l in enumerate(lines):
        r, m = norm(ref[i]), norm(mod[i])
        if r != m:
            bad.append((l[0], texts[i // 4], r, m))
    for i, l in enumerate(nlines):
        r, m = norm(refn[i]), norm(mod[4 * i])
        if r != m:
            bad.append(("n(json)", texts[i], r, m))
    return len(lines) + len(nlines), bad


# ---------- generators ----------
def gen_exhaustive(maxlen):
    for n in range(0, maxlen + 1):
        for t in itertools.product(ALPHABET, repeat=n):
            yield b"".join(t)


def gen_sampled(rng, count):
    for _ in range(count):
        n = rng.choice((6, 7))
        yield b"".join(rng.choice(ALPHABET) for _ in range(n))


EXTRA = [b"u", b"r", b"l", b"s", b"f", b"E", b"2", b"\t", b"\xc3", b"@"]


def gen_prefixed(rng, count):
    """'[' followed by 5..10 symbols: gets past stateBegin, which the uniform sample rarely does"""
    for _ in range(count):
        n = rng.randrange(5, 11)
        pool = ALPHABET if rng.random() < 0.7 else ALPHABET + EXTRA
        yield rng.choice((b"[", b"[", b" [", b"[1", b'["', b"[]", b"[/")) + b"".join(rng.choice(pool) for _ in range(n))


STR_PIECES = ["a", "b", "c", " ", "x y", "true", "null", "1", "é", "ü", "/", "//", "/*", "*/", "[", "]", ",",
              "\\\"", "\\\\", "\\/", "\\b", "\\f", "\\n", "\\r", "\\t", "\\u0041", "\\u00e9", "\\u00E9",
              "\\ud83d\\ude00", "\\ud800", "\\uFFFD", "q\\\"uote", "#", "{", "}", "\x7f", "'"]


def gen_string(rng):
    k = rng.choice((0, 1, 1, 1, 2, 2, 3, 5))
    return '"' + "".join(rng.choice(STR_PIECES) for _ in range(k)) + '"'


def gen_number(rng):
    s = "-" if rng.random() < 0.25 else ""
    s += rng.choice(("0", "1", "2", "7", "10", "12", "100", "123", "9007199254740993", "18446744073709551616"))
    r = rng.random()
    if r < 0.3:
        s += "." + rng.choice(("0", "5", "00", "50", "25", "000001", "10"))
    elif r < 0.36:          # exponent forms: refused by this scanner
        s += rng.choice(("e5", "E5", "e+5", "e-5", ".5e1", ".0E0"))
    return s


def gen_value(rng, pool):
    r = rng.random()
    if pool and r < 0.08:   # a duplicate (possibly spelled differently)
        v = rng.choice(pool)
        if v.startswith('"') and rng.random() < 0.5:
            v = v.replace("a", "\\u0061", 1).replace("é", "\\u00e9", 1)
        return v
    if r < 0.45:
        v = gen_string(rng)
    elif r < 0.8:
        v = gen_number(rng)
    else:
        v = rng.choice(("true", "false", "null"))
        if v in pool:       # unintended duplicates only through the branch above
            v = gen_number(rng)
    pool.append(v)
    return v


def gen_comment_text(rng):
    return rng.choice(("", " ", "c", " a value", " lead", "x y ", " tail", "*", "* /", "/", "//", " é", "\t t", " [1,2]", ' "s"'))


def gen_structured(rng):
    nl = rng.choice(("\n", "\n", "\r\n", "\r"))
    multi = rng.random() < 0.55
    n = rng.choice((0, 1, 1, 2, 2, 3, 3, 4, 5, 6, 8))
    pool = []
    sp = lambda: rng.choice(("", "", " ", "  ", "\t"))
    out = [rng.choice(("", "", "", " ", "\n", "  ", "\t", nl))]
    out.append("[")

    def inline():
        return "//" + gen_comment_text(rng) + nl

    def block():
        t = gen_comment_text(rng)
        if rng.random() < 0.2:
            t += nl + " more"
        return "/*" + t + "*/"

    if multi:
        out.append(sp() + nl)
    for i in range(n):
        if multi and rng.random() < 0.2:      # comment on its own line
            out.append("  " + (inline() if rng.random() < 0.7 else block() + nl))
        out.append(("  " if multi else sp()) + gen_value(rng, pool) + sp())
        if rng.random() < 0.12:
            out.append(block() + sp())
        if i + 1 < n:
            out.append(",")
        if multi:
            r = rng.random()
            if r < 0.3:
                out.append(" " + inline())
            else:
                out.append(sp() + nl)
        else:
            if rng.random() < 0.05:
                out.append(" " + inline())
    if rng.random() < 0.1:
        out.append(sp() + block())
    out.append("]")
    r = rng.random()
    if r < 0.25:
        out.append(rng.choice((" ", nl, "  " + nl, nl + nl, "\t")))
    elif r < 0.4:
        out.append(rng.choice((" // tail", " // tail" + nl, " /* t */", nl + "x", " x", nl + "  " + nl + "}", " ]",
                               nl + "// c" + nl + "next", " /* a */ /* b */ z", "/", " //", " // " + nl + "x" + nl + "y")))
    return "".join(out).encode("utf-8")


def variants(rng, t):
    yield t
    for i in range(len(t)):
        yield t[:i]
    for _ in range(3):
        if not t:
            break
        i = rng.randrange(len(t))
        r = rng.random()
        if r < 0.6:
            c = rng.choice(ALPHABET)
        elif r < 0.8:
            c = bytes([rng.randrange(256)])
        else:
            c = rng.choice((b"u", b"f", b"r", b"l", b"s", b"E", b"+", b"'", b"\t", b"@", b"9", b"\xff", b"\xc3"))
        yield t[:i] + c + t[i + 1:]


def gen_structured_all(rng, count):
    for _ in range(count):
        t = gen_structured(rng)
        yield from variants(rng, t)


def gen_seeds():
    p = os.path.join(HERE, "seed_texts.txt")
    if not os.path.exists(p):
        return
    with open(p) as f:
        for line in f:
            line = line.strip()
            if not line:
                continue
            try:
                yield bytes.fromhex("" if line == "-" else line)
            except ValueError:
                pass


def shards(it):
    cur = []
    for t in it:
        cur.append(t)
        if len(cur) >= SHARD_TEXTS:
            yield cur
            cur = []
    if cur:
        yield cur


def run_category(name, it, jobs):
    inputs = lines = 0
    bad = []
    with ProcessPoolExecutor(max_workers=jobs) as ex:
        pending = []
        for sh in shards(it):
            inputs += len(sh)
            pending.append(ex.submit(run_shard, sh))
            if len(pending) >= 4 * jobs:
                n, b = pending.pop(0).result()
                lines += n
                bad.extend(b)
        for f in pending:
            n, b = f.result()
            lines += n
            bad.extend(b)
    print(f"[{name}] inputs={inputs} compared_lines={lines} mismatches={len(bad)}", flush=True)
    for mode, t, r, m in bad[:20]:
        print(f"   mode {mode} text {t!r} (hex {hx(t)})\n      impl : {r}\n      model: {m}")
    return inputs, lines, len(bad)


def main():
    ap = argparse.ArgumentParser()
    ap.add_argument("--jobs", type=int, default=max(1, (os.cpu_count() or 2) - 2))
    ap.add_argument("--structured", type=int, default=20000)
    ap.add_argument("--sampled", type=int, default=200000)
    ap.add_argument("--prefixed", type=int, default=300000)
    ap.add_argument("--maxlen", type=int, default=5)
    ap.add_argument("--seed", type=int, default=20261001)
    ap.add_argument("--only", default="")
    a = ap.parse_args()
    only = set(x for x in a.only.split(",") if x)
    rng = random.Random(a.seed)
    cats = [
        ("seeds", lambda: gen_seeds()),
        ("structured", lambda: gen_structured_all(rng, a.structured)),
        ("sampled", lambda: gen_sampled(rng, a.sampled)),
        ("prefixed", lambda: gen_prefixed(rng, a.prefixed)),
        ("exhaustive", lambda: gen_exhaustive(a.maxlen)),
    ]
    total_bad = 0
    for name, mk in cats:
        if only and name not in only:
            continue
        _, _, b = run_category(name, mk(), a.jobs)
        total_bad += b
    print("TOTAL mismatches:", total_bad)
    sys.exit(1 if total_bad else 0)


if __name__ == "__main__":
    main()
