#!/usr/bin/env python3
"""tools/seed_confirm.py Cxx a|b ... : confirm a seeded change in a scratch worktree of /repo HEAD:
patch applies, suite unchanged with the patch, demonstration passes without and fails with it.
On success writes /verif/seeded/<id><v>/{patch.diff, demo file, meta.json}. The worktree is removed afterwards."""
import json, os, re, shutil, subprocess, sys
ENV = dict(os.environ, GOFLAGS="-mod=mod", GOPROXY="off", GOSUMDB="off", GOTOOLCHAIN="local")
WT = "/tmp/seedwt"
MUT = os.environ.get("MUTROOT", "/tmp/mut")           # where the sub-agents delivered
SUFFIX = {"a": os.environ.get("SEED_A", "a"), "b": os.environ.get("SEED_B", "b"), "c": os.environ.get("SEED_C", "c")}   # stored variant letter


def sh(cmd, cwd=None, timeout=900):
    p = subprocess.run(cmd, shell=True, cwd=cwd, env=ENV, stdout=subprocess.PIPE, stderr=subprocess.STDOUT, timeout=timeout)
    return p.returncode, p.stdout.decode("utf-8", "replace")


def suite(cwd):
    rc, o = sh("go test -vet=off -count=1 ./... 2>&1", cwd=cwd)
    fails = sorted(set(re.findall(r"^--- FAIL: (\S+)", o, re.M)))
    pk = sorted(set(re.findall(r"^FAIL\s+(\S+)", o, re.M)))
    return fails, pk


def confirm(pid, v):
    src = "%s/out/%s/%s" % (MUT, pid, v)
    howto = open(os.path.join(src, "HOWTO.txt")).read()
    howto = re.sub(r"\$\{?W\}?|\$\{?WT\}?", "%s/%s" % (MUT, pid), howto)
    demo_files = [f for f in os.listdir(src) if f.endswith(".go")] or ["demo"]
    OVERRIDE = {"C11": ("demo_test.go", "c11demo/demo_test.go", "go test -vet=off -count=1 ./c11demo/"),
                "C12": ("demo_test.go", "c12demo/demo_test.go", "go test -vet=off -count=1 ./c12demo/")}
    m = re.search(r"cp\s+(?:-r\s+)?(?:%s/out/%s/%s/)?(\S+)\s+(\S+)" % (re.escape(MUT), pid, v), howto)
    g = re.search(r"(go (?:test|run)[^\n#]*)", howto)
    if pid in OVERRIDE:
        class M:
            def __init__(self, a): self.a = a
            def group(self, i): return self.a[i - 1]
        m = M(OVERRIDE[pid][:2])
        g = M((OVERRIDE[pid][2],))
    if not m or not g:
        return {"ok": False, "why": "could not parse HOWTO"}
    demo_src, demo_dst = m.group(1), m.group(2)
    demo_dst = re.sub(r"^%s/%s/" % (re.escape(MUT), pid), "", demo_dst).lstrip("./")
    testcmd = g.group(1).strip()
    testcmd = re.sub(r"%s/%s" % (re.escape(MUT), pid), WT, testcmd)
    sh("git -C /repo worktree remove --force %s; rm -rf %s" % (WT, WT))
    rc, o = sh("git -C /repo worktree add -q --detach %s HEAD" % WT)
    res = {"ok": False, "demo_dst": demo_dst, "testcmd": testcmd}
    try:
        rc, o = sh("git apply --check %s/patch.diff" % src, cwd=WT)
        if rc != 0:
            rc3, o3 = sh("git apply --3way %s/patch.diff" % src, cwd=WT)
            res["apply"] = "3way" if rc3 == 0 else "FAILED: " + o[-300:]
            if rc3 != 0:
                return res
            sh("git diff HEAD > /tmp/seed_rebased.diff; git checkout -q -- . ; git reset -q", cwd=WT)
            patch = "/tmp/seed_rebased.diff"
        else:
            res["apply"] = "clean"
            patch = src + "/patch.diff"
        dst = os.path.join(WT, demo_dst)
        if demo_dst.endswith("/") or os.path.isdir(os.path.join(src, demo_src)):
            os.makedirs(dst, exist_ok=True)
        else:
            os.makedirs(os.path.dirname(dst) or WT, exist_ok=True)
        rc, o = sh("cp -r %s/%s %s" % (src, demo_src, dst))
        rc_b, o_b = sh(testcmd, cwd=WT)
        res["demo_before"] = "pass" if rc_b == 0 else "FAIL"
        res["demo_before_tail"] = o_b[-400:]
        sh("git apply %s" % patch, cwd=WT)
        rc_a, o_a = sh(testcmd, cwd=WT)
        res["demo_after"] = "pass" if rc_a == 0 else "fail"
        res["demo_after_tail"] = o_a[-600:]
        # suite with the patch, demo removed
        sh("rm -rf %s" % dst)
        fails, pk = suite(WT)
        res["suite_fails_with_patch"] = fails
        res["ok"] = res["demo_before"] == "pass" and res["demo_after"] == "fail" and [f for f in fails if not f.startswith("TestEnum_String")] == []
        if res["ok"]:
            out = "/verif/seeded/%s%s" % (pid, SUFFIX.get(v, v))
            os.makedirs(out, exist_ok=True)
            shutil.copy(patch, out + "/patch.diff")
            sh("cp -r %s/%s %s/" % (src, demo_src, out))
            shutil.copy(src + "/HOWTO.txt", out + "/HOWTO.txt")
            try:
                meta = json.load(open(src + "/meta.json"))
            except Exception:
                meta = {}
            meta.update({"property": pid, "variant": SUFFIX.get(v, v), "confirmed_on_repo_head": subprocess.check_output(["git", "-C", "/repo", "rev-parse", "--short", "HEAD"]).decode().strip(),
                         "patch_apply": res["apply"], "demo_placed_at": demo_dst, "demo_cmd": testcmd,
                         "confirmed": {"demo_without_patch": "pass", "demo_with_patch": "fail", "suite_with_patch": "only TestEnum_String fails (as baseline)"}})
            json.dump(meta, open(out + "/meta.json", "w"), indent=1)
    finally:
        sh("git -C /repo worktree remove --force %s; rm -rf %s" % (WT, WT))
    return res


if __name__ == "__main__":
    pid = sys.argv[1]
    for v in sys.argv[2:] or ["a", "b"]:
        r = confirm(pid, v)
        print(pid + v, json.dumps({k: r[k] for k in r if not k.endswith("_tail")}))
        if not r.get("ok"):
            print("   before:", r.get("demo_before_tail", "")[-300:].replace("\n", " | "))
            print("   after:", r.get("demo_after_tail", "")[-300:].replace("\n", " | "))
