#!/usr/bin/env python3
"""applies every seeded change under /verif/seeded to /repo (one at a time, undone straight afterwards), runs the quick check of its
property and records whether a VIOLATION was raised; then re-runs the checks on the unchanged tree. Writes seeded/RESULTS.md."""
import json, os, re, subprocess, sys, time
ROOT = "/verif"
rows = []
names = sorted(d for d in os.listdir(ROOT + "/seeded") if os.path.isdir(ROOT + "/seeded/" + d))
only = sys.argv[1:]
for d in names:
    if only and d not in only:
        continue
    prop = d[:3]
    patch = "%s/seeded/%s/patch.diff" % (ROOT, d)
    meta = json.load(open("%s/seeded/%s/meta.json" % (ROOT, d)))
    prop = meta.get("check_property", prop)
    subprocess.run(["git", "-C", "/repo", "checkout", "--", "."], check=True)
    a = subprocess.run(["git", "-C", "/repo", "apply", patch], capture_output=True, text=True)
    if a.returncode != 0:
        rows.append((d, prop, "PATCH DOES NOT APPLY", "", 0))
        continue
    t0 = time.time()
    p = subprocess.run([ROOT + "/bin/check", prop, "--tier", "quick"], capture_output=True, text=True, cwd=ROOT)
    dt = time.time() - t0
    subprocess.run(["git", "-C", "/repo", "checkout", "--", "."], check=True)
    vio = [l for l in p.stdout.splitlines() if l.startswith("VIOLATION")]
    first = ""
    m = re.search(r"VIOLATION[^\n]*\n\s+([^\n]*)", p.stdout + "\n" + p.stderr)
    errl = [l.strip() for l in p.stderr.splitlines() if l.startswith("   ")]
    first = errl[0][:160] if errl else ""
    rows.append((d, prop, "caught" if (p.returncode == 1 and vio) else "MISSED", first, dt))
    print(d, rows[-1][2], "%.0fs" % dt, first[:100], flush=True)
subprocess.run(["git", "-C", "/repo", "checkout", "--", "."], check=True)
subprocess.run([ROOT + "/harness/build.sh"])
subprocess.run([ROOT + "/harness/build.sh", "race"])
if only:
    # keep the rows of the seeds that were not re-run
    old = {}
    try:
        for l in open(ROOT + "/seeded/RESULTS.md"):
            m = re.match(r"\| (C\d\d\w) \| (C\d\d) \| ([^|]*) \| (.*) \| (\d+) \|$", l.strip())
            if m:
                old[m.group(1)] = (m.group(1), m.group(2), m.group(3).strip(), m.group(4).replace("\\|", "|"), float(m.group(5)))
    except OSError:
        pass
    for r in rows:
        old[r[0]] = r
    rows = [old[k] for k in sorted(old) if os.path.isdir(ROOT + "/seeded/" + k)]
with open(ROOT + "/seeded/RESULTS.md", "w") as f:
    f.write("# Seeded changes vs checks\n\nEach change under seeded/<id>/ (patch.diff, demonstration, meta.json) compiles and keeps the repository's suite green; it was applied to /repo, "
            "the quick check of its property was run, and the change was undone. Produced by tools/seed_matrix.py.\n\n| seed | property | quick check | first report | s |\n|---|---|---|---|---|\n")
    for d, prop, res, first, dt in rows:
        f.write("| %s | %s | %s | %s | %.0f |\n" % (d, prop, res, first.replace("|", "\\|"), dt))
print("caught %d / %d" % (sum(1 for r in rows if r[2] == "caught"), len(rows)))
