#!/bin/bash
cd /verif
for p in C01 C02 C03 C04 C05 C06 C07 C08 C09 C10 C11 C12 C13 C14 C15 C16 C17 C18 C19; do
  s=$(date +%s)
  (ulimit -v 14000000; timeout 2400 bin/check $p --tier quick > /tmp/runall_$p.log 2>&1; echo "rc=$?" >> /tmp/runall_$p.log)
  e=$(date +%s)
  echo "$p $(tail -1 /tmp/runall_$p.log) $((e-s))s viol=$(grep -c '^VIOLATION' /tmp/runall_$p.log) known=$(grep -c '^KNOWN' /tmp/runall_$p.log)"
done
