"""Targeted cases: one or more texts for every loader error path / special path that Loader.v models."""
CASES = [
    # ---- rule-sets without a declared JSON type / with a format type: every rule narrows the JSON types (fix 0e80d2e); items unquoted once (86f69d0)
    "\"b\" // {or: [{type: \"email\", min: 1}, {type: \"string\"}]}", "\"b\" // {or: [{type: \"email\", minItems: 1}, {type: \"string\"}]}",
    "\"b\" // {or: [{type: \"date\", additionalProperties: true}, {type: \"string\"}]}", "\"b\" // {or: [{type: \"uri\", max: 1}, {type: \"string\"}]}",
    "\"b\" // {or: [{type: \"decimal\", precision: 1, minLength: 2}, {type: \"string\"}]}", "\"b\" // {or: [{type: \"decimal\", precision: 1, minItems: 1}, {type: \"string\"}]}",
    "\"b\" // {or: [{min: 1, minItems: 2}, {type: \"string\"}]}", "\"b\" // {or: [{precision: 1, minLength: 2}, {type: \"string\"}]}", "\"b\" // {or: [{regex: \"a\", max: 3}, {type: \"string\"}]}",
    "\"b\" // {or: [{type: \"uuid\", regex: \"a\"}, {type: \"string\"}]}", "\"b\" // {or: [{minLength: 1}, {type: \"string\"}]}", "\"b\" // {or: [{min: 1, max: 3}, {type: \"string\"}]}",
    "\"b\" // {or: [{type: \"email\"}, {type: \"string\"}]}", "\"b\" // {or: [{type: \"decimal\", precision: 2}, {type: \"string\"}]}", "\"b\" // {or: [{nullable: true, min: 1, minLength: 1}, {type: \"string\"}]}",
    "\"b\" // {or: [{type: \"any\", min: 1}, {type: \"string\"}]}", "\"b\" // {or: [{type: \"mixed\", min: 1, minLength: 1}, {type: \"string\"}]}", "\"b\" // {or: [{type: \"enum\", enum: [1], min: 1}, {type: \"string\"}]}",
    "\"b\" // {or: [{const: true, minItems: 1}, {type: \"string\"}]}", "\"b\" // {or: [{additionalProperties: true, minItems: 1}, {type: \"string\"}]}",
    "1 // {or: [\"\\\"string\\\"\", \"@a\"]}", "1 // {or: [\"\\\"@b\\\"\", \"@a\"]}", "1 // {or: [\"\\u0073tring\", \"@a\"]}", "1 // {or: [\"string\", \"\\u0040a\"]}",
    "1 // {or: [{\"enum\": [1, 2]}, {type: \"string\"}]}", "1 // {or: [{enum : [1, 2]}, {type: \"string\"}]}", "1 // {or: [{\"\\u0065num\": [1, 2]}, {type: \"string\"}]}",
    "@a | @b // {type: \"integer\", type: \"mixed\"}", "@a | @b // {type: \"mixed\", type: \"integer\"}", "@a | @b // {type: \"mixed\", type: \"mixed\"}", "@a // {type: \"@a\", type: \"mixed\"}",
    "1 /* {enum: [ // zero\n // one\n 1 // two\n]} */", "1 /* {enum: [ // zero\n]} */",
    # ---- no example / annotation first
    "", " ", "\n", "# c", "// {min: 1}", "// note", "/* {min: 1} */", "// {min: 1}\n1", "\n// {}\n1", "// {}", "// {} - x",
    # ---- 803 rule without example, 804 several nodes
    "{\n \"a\": 1\n // {min: 1}\n}", "[\n 1,\n // {min: 1}\n 2]", "{\"a\": 1 // {min: 1}\n}", "{\"a\": {\"b\": 1} // {optional: true}\n}",
    "{\"a\": 1, \"b\": 2 // {min: 1}\n}", "[1, 2] // note", "[1,\n 2 // {min: 1}\n]", "{ // {additionalProperties: true}\n}",
    "{\"a\": { // {nullable: true}\n}\n}", "{\"a\": @a | @b // {optional: true}\n}", "{\n\"a\": @a | @b // {optional: true}\n}",
    "{\n\"a\": @a // {optional: true} - n\n}", "[1, 2 // note only\n]", "{\"a\": [] // {minItems: 0}\n}", "{\n\"a\": [] // {minItems: 0}\n}",
    "{\n\"a\": {} // {additionalProperties: true}\n}", "1 // {}\n// {min: 1}", "1 /* {min: 1} */ // {max: 2}", "1 // {min: 1}\n/* {max: 2} */",
    "{\n \"a\": 1 /* {min: 1} */, \"b\": 2 // {min: 1}\n}", "{\n \"a\": 1, /* {min: 1}\n */ \"b\": 2 // {min: 1}\n}",
    # ---- 402 duplicate keys
    "{\"a\": 1, \"a\": 2}", "{\"a\": 1, \"\\u0061\": 2}", "{\"@a\": 1, @a: 2}", "{@a: 1, @a: 2}", "{@a: 1, \"@a\": 2, \"@a\": 3}", "{\"\": 1, \"\": 2}",
    "{\"a\": {\"a\": 1}, \"b\": {\"a\": 2}}", "{\"a\\\"\": 1, \"a\\u0022\": 2}",
    # ---- 501 duplicate rules
    "1 // {min: 1, min: 2}", "1 // {min: 1, \"min\": 2}", "1 // {enum: [1], enum: [2]}", "1 // {or: [\"@a\", \"@b\"], or: [\"@a\", \"@b\"]}",
    "{} // {allOf: \"@a\", allOf: \"@b\"}", "1 // {type: \"integer\", type: \"integer\"}",
    "@a // {type: \"@a\"}", "@a // {type: \"@b\"}", "@a // {type: \"mixed\"}", "@a // {type: \"@a\", type: \"@a\"}", "@a | @b // {type: \"mixed\"}",
    "@a // {or: [\"@a\", \"@b\"]}", "@a | @b // {or: [\"@a\", \"@b\"]}", "@a // {type: \"@a\", or: [\"@b\", \"@c\"]}", "@a // {or: [\"@b\", \"@c\"], type: \"mixed\"}",
    "@a // {or: [{type: \"integer\"}, \"@b\"]}", "@a // {enum: [1]}", "@a // {min: 1}", "@a // {optional: true}", "@a // note", "@a | @b // - n",
    # ---- 601 unknown rule
    "1 // {foo: 1}", "1 // {\"foo\": 1}", "1 // {minlength: 1}", "1 // {\"min \": 1}", "1 // {\" min\": 1}", "1 // {\"\\u006din\": 5}", "1 // {types: 1}", "1 // {\"required-keys\": 1}", "1 // {any: true}",
    # ---- 604 / 605 / 0 / 103 values
    "\"a\" // {minLength: -1}", "\"a\" // {minLength: 1.0}", "\"a\" // {minLength: \"1\"}", "\"a\" // {minLength: true}", "\"a\" // {minLength: 1e1}",
    "\"a\" // {minLength: 18446744073709551617}", "\"a\" // {maxLength: 18446744073709551616}", "1.1 // {precision: 0}", "1.1 // {precision: 18446744073709551616}",
    "1.1 // {precision: 2}", "1 // {min: \"a\"}", "1 // {min: true}", "1 // {max: null}", "1 // {min: 1e2}", "1 // {min: -0.0}", "1 // {min: 1E+2, max: 100}",
    "1 // {optional: 1}", "1 // {optional: \"true\"}", "1 // {nullable: null}", "1 // {const: 0}", "1 // {exclusiveMinimum: 1}", "1 // {exclusiveMaximum: \"x\"}",
    "[] // {minItems: -1}", "[] // {maxItems: 1.5}", "{} // {additionalProperties: \"foo\"}", "{} // {additionalProperties: 1}", "{} // {additionalProperties: null}",
    "{} // {additionalProperties: \"true\"}", "{} // {additionalProperties: \"false\"}", "{} // {additionalProperties: \"@a\"}", "{} // {additionalProperties: \"comment\"}",
    "{} // {additionalProperties: \"@\"}", "{} // {additionalProperties: \"any\"}", "{} // {additionalProperties: true}",
    "\"a\" // {regex: 1}", "\"a\" // {regex: true}", "\"a\" // {regex: null}", "\"a\" // {regex: \"a\\\\d\\u0041\"}", "\"a\" // {regex: \"\"}",
    "1 // {type: 1}", "1 // {type: null}", "1 // {type: \"\"}", "1 // {type: \"@\"}", "1 // {type: \"@a b\"}",
    # ---- 802 rule value type
    "1 // {min: [1]}", "1 // {min: {}}", "1 // {min: @a}", "1 // {type: @a}", "1 // {type: @a | @b}", "1 // {foo: [1]}", "1 // {foo: {}}",
    # ---- enum 806 807 810 1602
    "1 // {enum: 1}", "1 // {enum: \"a\"}", "1 // {enum: {}}", "1 // {enum: [[1]]}", "1 // {enum: [{}]}", "1 // {enum: [@a]}", "1 // {enum: [1, 1]}", "1 // {enum: [1, 1.0]}",
    "1 // {enum: [\"a\", \"\\u0061\"]}", "1 // {enum: [1, \"1\"]}", "1 // {enum: []}", "1 // {enum: [null, true, false, 1.5, -0, \"\"]}", "1 // {enum: @e}", "1 // {enum: @e | @f}",
    "1 // {enum: @e, min: 1}", "1 // {enum: [1], min: 1}", "1 /* {enum: [1, // one\n 2 // two\n]} */", "1 /* {enum: [ // zero\n 1]} */", "1 /* {enum: [1 // one\n, 2]} */",
    "1 /* {enum: [1, // {a:1}\n 2]} */", "1 /* {enum: [1, //\n 2]} */", "1 /* {enum: [\n1,\n2\n]\n} */",
    # ---- allOf 808 702
    "{} // {allOf: 1}", "{} // {allOf: true}", "{} // {allOf: {}}", "{} // {allOf: [1]}", "{} // {allOf: [[]]}", "{} // {allOf: \"a\"}", "{} // {allOf: [\"a\"]}", "{} // {allOf: \"@\"}",
    "{} // {allOf: \"@a\"}", "{} // {allOf: [\"@a\"]}", "{} // {allOf: [\"@a\", \"@b\"]}", "{} // {allOf: []}", "{} // {allOf: @a}", "{} // {allOf: [\"@a\", \"@a\"]}", "{} // {allOf: \"@a b\"}",
    # ---- or 901..905, 904, 1102 and the nested compile
    "1 // {or: 1}", "1 // {or: \"@a\"}", "1 // {or: {}}", "1 // {or: @a | @b}", "1 // {or: []}", "1 // {or: [\"@a\"]}", "1 // {or: [{type: \"@a\"}]}", "1 // {or: [1, 2]}", "1 // {or: [[1], 2]}",
    "1 // {or: [true, \"@a\"]}", "1 // {or: [null, \"@a\"]}", "1 // {or: [@a, @b]}", "1 // {or: [{}, \"@a\"]}", "1 // {or: [\"@a\", {}]}", "1 // {or: [\"@a\", \"@b\"]}", "1 // {or: [\"@a\", \"@a\"]}",
    "1 // {or: [\"integer\", \"string\"]}", "1 // {or: [\"foo\", \"string\"]}", "1 // {or: [\"\", \"string\"]}", "1 // {or: [\"decimal\", \"string\"]}", "1 // {or: [\"mixed\", \"string\"]}", "1 // {or: [\"enum\", \"string\"]}",
    "1 // {or: [\"any\", \"email\", \"uri\", \"uuid\", \"date\", \"datetime\", \"object\", \"array\", \"null\", \"boolean\", \"float\"]}", "1 // {or: [\"\\\"string\\\"\", \"@a\"]}", "1 // {or: [\"@a b\", \"@a\"]}",
    "{} // {or: [\"@a\", \"@b\"]}", "[] // {or: [\"integer\", \"string\"]}", "{} // {or: [{type: \"object\"}, \"@a\"]}", "\"s\" // {or: [{minLength: 1}, \"@a\"]}",
    "1 // {or: [{type: \"integer\", min: 0}, \"@t\"], optional: true}", "1 // {optional: true, or: [\"@a\", \"@b\"]}", "1 // {type: \"mixed\", or: [\"@a\", \"@b\"]}",
    "1 // {or: [{type: \"integer\"\n}, \"@a\"]}", "1 /* {or: [{type: \"integer\",\n min: 1},\n \"@a\"\n]} */", "1 /* {or: [{type: \"integer\" // x\n}, \"@a\"]} */",
    "1 // {or: [{type: [1]}, \"@a\"]}", "1 // {or: [{type: {}}, \"@a\"]}", "1 // {or: [{type: @a}, \"@a\"]}", "1 // {or: [{enum: 1}, \"@a\"]}", "1 // {or: [{enum: [1, 1]}, \"@a\"]}", "1 // {or: [{enum: [[1]]}, \"@a\"]}",
    "1 // {or: [{enum: [1]}, \"@a\"]}", "1 // {or: [{enum: [1], type: \"enum\"}, \"@a\"]}", "1 // {or: [{enum: [1], type: \"integer\"}, \"@a\"]}", "1 // {or: [{enum: [1], min: 1}, \"@a\"]}",
    "1 // {or: [{enum: [1], optional: true}, \"@a\"]}", "1 // {or: [{enum: [1], const: true, nullable: true}, \"@a\"]}", "1 // {or: [{\"enum\": [1]}, \"@a\"]}", "1 // {or: [{\"enum\": 1}, \"@a\"]}",
    "1 // {or: [{enum: @e}, \"@a\"]}", "1 // {or: [{enum: [1], enum: [2]}, \"@a\"]}", "1 // {or: [{or: [\"@a\", \"@b\"]}, \"@a\"]}", "1 // {or: [{allOf: \"@a\"}, \"@a\"]}",
    "1 // {or: [{type: \"@a\"}, \"@b\"]}", "1 // {or: [{type: \"@a\", optional: true}, \"@b\"]}", "1 // {or: [{type: \"@a\", nullable: true}, \"@b\"]}", "1 // {or: [{type: \"@a\", min: 1}, \"@b\"]}",
    "1 // {or: [{type: \"@a\", nullable: false}, \"@b\"]}", "1 // {or: [{type: \"@a\", const: false}, \"@b\"]}",
    "1 // {or: [{type: \"mixed\"}, \"@b\"]}", "1 // {or: [{type: \"enum\"}, \"@b\"]}", "1 // {or: [{type: \"decimal\"}, \"@b\"]}", "1 // {or: [{type: \"decimal\", precision: 1}, \"@b\"]}",
    "1 // {or: [{type: \"float\", precision: 1}, \"@b\"]}", "1 // {or: [{precision: 1}, \"@b\"]}", "1 // {or: [{type: \"any\"}, \"@b\"]}", "1 // {or: [{type: \"any\", const: true}, \"@b\"]}",
    "1 // {or: [{type: \"any\", const: false}, \"@b\"]}", "1 // {or: [{type: \"any\", min: 1}, \"@b\"]}", "1 // {or: [{type: \"any\", nullable: true, optional: false}, \"@b\"]}",
    "1 // {or: [{type: \"email\", minLength: 1}, \"@b\"]}", "1 // {or: [{type: \"uri\", maxLength: 1}, \"@b\"]}", "1 // {or: [{type: \"date\", regex: \"a\"}, \"@b\"]}", "1 // {or: [{type: \"datetime\", regex: \"a\"}, \"@b\"]}",
    "1 // {or: [{type: \"uuid\", minLength: 1}, \"@b\"]}", "1 // {or: [{type: \"email\"}, \"@b\"]}", "1 // {or: [{type: \"email\", min: 1}, \"@b\"]}", "1 // {or: [{type: \"foo\"}, \"@b\"]}", "1 // {or: [{type: 1}, \"@b\"]}",
    "1 // {or: [{type: \"\"}, \"@b\"]}", "1 // {or: [{exclusiveMinimum: true}, \"@b\"]}", "1 // {or: [{exclusiveMaximum: true}, \"@b\"]}", "1 // {or: [{exclusiveMinimum: false, min: 1}, \"@b\"]}",
    "1 // {or: [{min: 1, max: 1}, \"@b\"]}", "1 // {or: [{min: 1, max: 1, exclusiveMaximum: true}, \"@b\"]}", "1 // {or: [{min: 1, max: 1, exclusiveMinimum: true}, \"@b\"]}", "1 // {or: [{min: 1.0, max: 1}, \"@b\"]}",
    "1 // {or: [{min: 2, max: 1}, \"@b\"]}", "1 // {or: [{min: 1e1, max: 9}, \"@b\"]}", "1 // {or: [{min: -1, max: -2}, \"@b\"]}", "1 // {or: [{min: 1, max: 2, exclusiveMaximum: false, exclusiveMinimum: false}, \"@b\"]}",
    "1 // {or: [{minLength: 2, maxLength: 1}, \"@b\"]}", "1 // {or: [{minLength: 1, maxLength: 1}, \"@b\"]}", "1 // {or: [{minItems: 2, maxItems: 1}, \"@b\"]}", "1 // {or: [{optional: true}, \"@b\"]}", "1 // {or: [{optional: false}, \"@b\"]}",
    "1 // {or: [{type: \"string\", min: 1}, \"@b\"]}", "1 // {or: [{type: \"integer\", minLength: 1}, \"@b\"]}", "1 // {or: [{type: \"integer\", precision: 1}, \"@b\"]}", "1 // {or: [{type: \"object\", min: 1}, \"@b\"]}",
    "1 // {or: [{type: \"object\", const: true}, \"@b\"]}", "1 // {or: [{type: \"array\", const: true}, \"@b\"]}", "1 // {or: [{type: \"string\", const: true}, \"@b\"]}", "1 // {or: [{type: \"object\", enum: [1]}, \"@b\"]}",
    "1 // {or: [{type: \"array\", minItems: 1}, \"@b\"]}", "1 // {or: [{type: \"string\", minItems: 1}, \"@b\"]}", "1 // {or: [{type: \"object\", additionalProperties: \"any\"}, \"@b\"]}", "1 // {or: [{type: \"string\", additionalProperties: true}, \"@b\"]}",
    "1 // {or: [{type: \"null\", nullable: true}, \"@b\"]}", "1 // {or: [{type: \"boolean\", regex: \"a\"}, \"@b\"]}", "1 // {or: [{type: \"string\", regex: \"a\", minLength: 1, maxLength: 2}, \"@b\"]}",
    "1 // {or: [{type: \"float\", min: 1.5, max: 2, exclusiveMaximum: true}, \"@b\"]}", "1 // {or: [{min: 1, foo: 2}, \"@b\"]}", "1 // {or: [{foo: 2}, \"@b\"]}", "1 // {or: [{min: 1, min: 2}, \"@b\"]}",
    "1 // {or: [{min: \"a\"}, \"@b\"]}", "1 // {or: [{minLength: -1}, \"@b\"]}", "1 // {or: [{min: [1]}, \"@b\"]}", "1 // {or: [{min: {}}, \"@b\"]}", "1 // {or: [{const: true}, \"@b\"]}", "1 // {or: [{const: 1}, \"@b\"]}",
    "1 // {or: [{nullable: false}, \"@b\"]}", "1 // {or: [{nullable: false, const: false}, \"@b\"]}", "1 // {or: [{nullable: true}, \"@b\"]}", "1 // {or: [{type: \"@a\", nullable: false, const: false}, \"@b\"]}",
    "\"s\" // {or: [{type: \"string\"}, \"integer\"]}", "true // {or: [{min: 1}, \"@a\"]}", "null // {or: [{type: \"null\"}, \"@a\"]}", "[] // {or: [{minItems: 1}, \"@a\"]}", "{} // {or: [{additionalProperties: true}, \"@a\"]}",
    # ---- 801 loader errors reachable from scanner output
    "1 // {min: 1} {max: 2}", "1 // {} {}", "1 /* {min: 1}\n {max: 2} */", "1 /* x */", "1 /* {min: 1 // {a: 1}\n} */", "1 /* {min: // {a: 1}\n 1} */", "1 /* { // x\n min: 1} */", "1 /* {min: 1} // x\n */",
    "1 /* {enum: [1]} // x\n */", "1 /* {or: [\"@a\", // x\n \"@b\"]} */", "{} /* {allOf: [\"@a\", // x\n \"@b\"]} */", "1 /* {or: [{min: 1, // x\n max: 2}, \"@b\"]} */", "1 /* {enum: [1] // x\n } */",
    "1 /* {min: 1, // x\n max: 2} */", "1 /* // x\n {min: 1} */", "1 /* {min: 1}\n // x\n */", "1 /* - x */", "1 // - x", "1 // {} - ", "1 /* {} - */", "1 /* {}\n\n - x\n\n y */",
    # ---- key shortcuts, type shortcuts, notes on nested nodes
    "{@a: 1}", "{@a : @b}", "{@a: @b | @c, \"k\": @d}", "[@a, @b | @c]", "@a", "@a | @b", "@a|@b|@c", "@a | @a", "[1, [2, [3]]] // note", "{\"a\": [1, {\"b\": 2}]} // deep", "[[[]]] // n",
    "{\n \"a\": 1, // first\n \"b\": \"x\" // second\n}", "{\n \"a\": 1 // {min: 0, max: 5} - first\n}", "[\n 1, // {min: 0}\n \"s\" // {minLength: 1}\n]",
    "{\n \"a\": { // {additionalProperties: \"string\"} - obj\n  \"b\": [ // {minItems: 1, maxItems: 3} - arr\n   1 // {min: 1}\n  ]\n }\n}",
    "{\n @k: 1 // {optional: true}\n}", "{\n @k: @v // {optional: true}\n}", "{\n \"a\": @v | @w // {optional: true}\n}", "{\n \"a\": 1.50 // {precision: 2, type: \"decimal\"}\n}",
    # ---- literal kinds and json type of the example behind the unnamed types
    "1e2 // {or: [\"integer\", \"@a\"]}", "1.0 // {or: [\"integer\", \"@a\"]}", "-0 // {or: [{min: 0}, \"@a\"]}", "1e400 // {min: 1}", "1E-2 // {precision: 2}",
    "\"\\u0041\" // {const: true}", "true // {const: true}", "null // {nullable: true}", "\"a\" // {type: \"string\", minLength: 1, maxLength: 1, regex: \"a\", const: false, nullable: false, optional: false}",
    # ---- invalid UTF-8 and odd bytes in notes, keys, values
    b"\"\xff\" // {const: true} - \xfe note", b"{\"\xc3\": 1, \"\xc3\x28\": 2}", b"1 // {regex: \"\xff\"}", b"1 // {enum: [\"\xed\xa0\x80\", \"\xef\xbf\xbd\"]}", b"{\"\xe9\": 1, \"\\u00e9\": 2}",
    b"1 // {type: \"\xe2\x82\"}", b"{} // {allOf: \"@\xc3\xa9\"}", b"1 // note \xf0\x9f\x98\x80", b"1 // {min: 1} - \xc0\xaf",
]

# texts loaded with the enum rules @e = [1, "a"], @f = ["x", 2.5, null, true] (with a comment), @empty = []
ENUM_CASES = [
    "1 // {enum: @e}", "\"a\" // {enum: @e}", "1 // {enum: @f}", "1 // {enum: @empty}", "1 // {enum: @nope}", "1 // {enum: @e | @f}", "1 // {enum:  @e }",
    "1 // {enum: @e, optional: true}", "1 // {enum: @e, min: 1}", "1 // {enum: @e, enum: @f}", "1 // {enum: \"@e\"}", "1 // {enum: [@e]}",
    "1 // {or: [{enum: @e}, \"@a\"]}", "1 // {or: [{enum: @e, type: \"enum\"}, \"@a\"]}", "1 // {or: [{enum: @nope}, \"@a\"]}", "1 // {or: [{enum: @e}, {enum: @f}]}",
    "1 // {or: [{enum: @e, min: 1}, \"@a\"]}", "{\n \"a\": 1, // {enum: @e}\n \"b\": \"x\" // {enum: @f} - n\n}", "1 /* {enum: @e\n} */", "1 /* {enum:\n @e} */",
    "@e // {enum: @e}", "[1, 2] // {enum: @e}", "1 // {enum: @e} - note", "1 // {type: \"enum\", enum: @e}", "1 // {enum: @e, type: \"enum\"}",
]
