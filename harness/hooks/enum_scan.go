//go:build verif

package enum

import (
	stdErrors "errors"
	"fmt"

	jerr "github.com/jsightapi/jsight-schema-go-library/errors"
	"github.com/jsightapi/jsight-schema-go-library/fs"
)

// VerifEv is a lexical event: type code, begin, end.
type VerifEv struct{ T, B, E int }

// VerifEvents runs the enum-rule scanner over src: events and the way the stream ended.
func VerifEvents(src []byte, computeLength bool) (evs []VerifEv, end string) {
	defer func() {
		if r := recover(); r != nil {
			end = fmt.Sprintf("PANIC(%v)", r)
		}
	}()
	var s *scanner
	if computeLength {
		s = newScanner(fs.NewFile("e", src), scannerComputeLength)
	} else {
		s = newScanner(fs.NewFile("e", src))
	}
	for i := 0; i < 8*len(src)+32; i++ {
		lex, err := s.Next()
		if err != nil {
			if stdErrors.Is(err, errEOS) {
				return evs, "eof"
			}
			if e, ok := err.(jerr.DocumentError); ok {
				return evs, fmt.Sprintf("E%d@%d", e.ErrCode(), e.Position())
			}
			return evs, fmt.Sprintf("FOREIGN(%T)", err)
		}
		evs = append(evs, VerifEv{int(lex.Type()), int(lex.Begin()), int(lex.End())})
	}
	return evs, "NOEOF"
}
