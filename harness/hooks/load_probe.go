//go:build verif

package verifx

import (
	"fmt"

	jschema "github.com/jsightapi/jsight-schema-go-library"
	jerr "github.com/jsightapi/jsight-schema-go-library/errors"
	"github.com/jsightapi/jsight-schema-go-library/fs"
	"github.com/jsightapi/jsight-schema-go-library/notations/jschema/internal/loader"
	"github.com/jsightapi/jsight-schema-go-library/notations/jschema/internal/scanner"
)

// LoadOnly runs loader.LoadSchemaWithoutCompile (what jschema.Schema.load() runs first) and then
// root.ASTNode() (what buildASTNode does), and nothing else: no CompileBasic of the whole schema,
// no CompileAllOf, no checker.
// end: "ok" | "empty" (no root node) | "E<code>@<pos>" | "PANIC(...)".
func LoadOnly(src []byte, rules map[string]jschema.Rule) (an jschema.ASTNode, end string) {
	defer func() {
		if r := recover(); r != nil {
			if e, ok := r.(jerr.DocumentError); ok {
				end = fmt.Sprintf("E%d@%d", e.ErrCode(), e.Position())
				return
			}
			end = fmt.Sprintf("PANIC(%v)", r)
		}
	}()
	sc := loader.LoadSchemaWithoutCompile(scanner.New(fs.NewFile("root", src)), nil, rules)
	root := sc.RootNode()
	if root == nil {
		return jschema.ASTNode{Rules: &jschema.RuleASTNodes{}}, "empty"
	}
	a, err := root.ASTNode()
	if err != nil {
		return a, "ASTERR(" + err.Error() + ")"
	}
	return a, "ok"
}
