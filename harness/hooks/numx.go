//go:build verif

// Package verifx (module root) re-exports internal/json's number API for the harness.
package verifx

import (
	ijson "github.com/jsightapi/jsight-schema-go-library/internal/json"
)

// NumInfo: ok=false when NewNumber fails.
type NumInfo struct {
	OK        bool
	Str       string
	FraLen    uint
	IsInteger bool
	IsFloat   bool
}

func Num(b []byte) NumInfo {
	g := ijson.Guess(b)
	r := NumInfo{IsInteger: g.IsInteger(), IsFloat: g.IsFloat()}
	n, err := ijson.NewNumber(b)
	if err != nil {
		return r
	}
	r.OK, r.Str, r.FraLen = true, n.String(), n.LengthOfFractionalPart()
	return r
}

// NumCmp returns (cmp, true) or (0,false) when either numeral is rejected.
func NumCmp(a, b []byte) (int, bool) {
	x, err := ijson.NewNumber(a)
	if err != nil {
		return 0, false
	}
	y, err := ijson.NewNumber(b)
	if err != nil {
		return 0, false
	}
	c := x.Cmp(y)
	// the derived predicates must agree with Cmp
	if x.Equal(y) != (c == 0) || x.GreaterThan(y) != (c == 1) || x.LessThan(y) != (c == -1) ||
		x.GreaterThanOrEqual(y) != (c >= 0) || x.LessThanOrEqual(y) != (c <= 0) {
		return 99, true
	}
	return c, true
}
