//go:build verif

package verifx

import (
	"fmt"

	jerr "github.com/jsightapi/jsight-schema-go-library/errors"
	"github.com/jsightapi/jsight-schema-go-library/fs"
	"github.com/jsightapi/jsight-schema-go-library/notations/jschema/internal/scanner"
)

// Ev is a lexical event: type code, begin, end.
type Ev struct{ T, B, E int }

// SchemaEvents runs the schema scanner over src and returns every event Next() delivers and how the stream ended:
// "eof" or "E<code>@<pos>" or "PANIC(...)".
func SchemaEvents(src []byte, computeLength bool) (evs []Ev, end string) {
	defer func() {
		if r := recover(); r != nil {
			if e, ok := r.(jerr.DocumentError); ok {
				end = fmt.Sprintf("E%d@%d", e.ErrCode(), e.Position())
				return
			}
			end = fmt.Sprintf("PANIC(%v)", r)
		}
	}()
	var s *scanner.Scanner
	if computeLength {
		s = scanner.New(fs.NewFile("s", src), scanner.ComputeLength)
	} else {
		s = scanner.New(fs.NewFile("s", src))
	}
	for i := 0; i < 8*len(src)+32; i++ {
		lex, ok := s.Next()
		if !ok {
			return evs, "eof"
		}
		evs = append(evs, Ev{int(lex.Type()), int(lex.Begin()), int(lex.End())})
	}
	return evs, "NOEOF"
}
