//go:build verif

// Package verifx exposes, for the verification harness only, the internal ordered map
// schema.Constraints through an int-keyed/int-valued adapter. Injected with go build -overlay;
// never committed to the repository.
package verifx

import (
	"encoding/json"
	"strconv"

	jschema "github.com/jsightapi/jsight-schema-go-library"
	ijson "github.com/jsightapi/jsight-schema-go-library/internal/json"
	"github.com/jsightapi/jsight-schema-go-library/notations/jschema/internal/schema"
	"github.com/jsightapi/jsight-schema-go-library/notations/jschema/internal/schema/constraint"
)

type fakeC struct{ n int }

func (f fakeC) Type() constraint.Type                    { return constraint.Type(0) }
func (f fakeC) IsJsonTypeCompatible(ijson.Type) bool     { return true }
func (f fakeC) String() string                           { return strconv.Itoa(f.n) }
func (f fakeC) ASTNode() jschema.RuleASTNode             { return jschema.RuleASTNode{} }
func (f fakeC) MarshalJSON() ([]byte, error)             { return []byte(strconv.Itoa(f.n)), nil }

var _ json.Marshaler = fakeC{}

func unwrap(c constraint.Constraint) int {
	if c == nil {
		return 0
	}
	return c.(fakeC).n
}

// ConstraintsMap adapts *schema.Constraints.
type ConstraintsMap struct{ m *schema.Constraints }

func NewConstraintsMap() *ConstraintsMap { return &ConstraintsMap{m: &schema.Constraints{}} }

func (a *ConstraintsMap) Set(k, v int) { a.m.Set(constraint.Type(k), fakeC{v}) }
func (a *ConstraintsMap) Update(k int, f func(int) int) {
	a.m.Update(constraint.Type(k), func(c constraint.Constraint) constraint.Constraint { return fakeC{f(unwrap(c))} })
}
func (a *ConstraintsMap) Delete(k int) { a.m.Delete(constraint.Type(k)) }
func (a *ConstraintsMap) Filter(f func(k, v int) bool) {
	a.m.Filter(func(k constraint.Type, c constraint.Constraint) bool { return f(int(k), unwrap(c)) })
}
func (a *ConstraintsMap) Map(f func(k, v int) (int, error)) error {
	return a.m.Map(func(k constraint.Type, c constraint.Constraint) (constraint.Constraint, error) {
		n, err := f(int(k), unwrap(c))
		if err != nil {
			return nil, err
		}
		return fakeC{n}, nil
	})
}
func (a *ConstraintsMap) Find(f func(k, v int) bool) (int, int, bool) {
	it, ok := a.m.Find(func(k constraint.Type, c constraint.Constraint) bool { return f(int(k), unwrap(c)) })
	return int(it.Key), unwrap(it.Value), ok
}
func (a *ConstraintsMap) Each(f func(k, v int) error) error {
	return a.m.Each(func(k constraint.Type, c constraint.Constraint) error { return f(int(k), unwrap(c)) })
}
func (a *ConstraintsMap) EachSafe(f func(k, v int)) {
	a.m.EachSafe(func(k constraint.Type, c constraint.Constraint) { f(int(k), unwrap(c)) })
}
func (a *ConstraintsMap) Get(k int) (int, bool) {
	c, ok := a.m.Get(constraint.Type(k))
	return unwrap(c), ok
}
func (a *ConstraintsMap) GetValue(k int) int { return unwrap(a.m.GetValue(constraint.Type(k))) }
func (a *ConstraintsMap) Has(k int) bool     { return a.m.Has(constraint.Type(k)) }
func (a *ConstraintsMap) Len() int           { return a.m.Len() }
func (a *ConstraintsMap) Marshal() ([]byte, error) { return a.m.MarshalJSON() }
