module verifharness

go 1.21

require github.com/jsightapi/jsight-schema-go-library v0.0.0

replace github.com/jsightapi/jsight-schema-go-library => /repo
