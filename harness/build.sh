#!/bin/sh
# builds /verif/build/implrun against /repo's working tree with the verif overlay
set -e
cd "$(dirname "$0")"
export GOFLAGS=-mod=mod GOPROXY=off GOSUMDB=off GOTOOLCHAIN=local
mkdir -p ../build
cp /repo/go.sum go.sum
python3 - <<'PY'
import json,os
rep={}
for l in open('hooks/MAP'):
    l=l.strip()
    if not l or l.startswith('#'): continue
    src,dst=l.split()
    rep[os.path.join('/repo',dst)]=os.path.abspath(os.path.join('hooks',src))
json.dump({"Replace":rep},open('../build/overlay.json','w'),indent=1)
PY
if [ "$1" = race ]; then
  go build -race -tags verif -overlay ../build/overlay.json -o ../build/implrun-race ./cmd/implrun
else
  go build -tags verif -overlay ../build/overlay.json -o ../build/implrun ./cmd/implrun
fi
