package main

import (
	"encoding/json"
	"fmt"
	"strings"

	jschema "github.com/jsightapi/jsight-schema-go-library"
	js "github.com/jsightapi/jsight-schema-go-library/notations/jschema"
	"github.com/jsightapi/jsight-schema-go-library/notations/regex"
	"github.com/jsightapi/jsight-schema-go-library/rules/enum"
)

// shared {"enum": "<rule text>" | "", "type": ["@T", "<text>"] | null, "schemas": ["...", "..."], "probes": ["doc", ...]}
// One enum rule object @E and/or one user-type object are created ONCE and added to every schema in turn
// (sequentially). Output: the rule's Values before, then per schema [check, verdicts...], then the rule's Values
// after each schema. The driver compares with the same schemas run against fresh objects.
func init() {
	commands["shared"] = func(args []string, line string) string {
		var c struct {
			Enum    string   `json:"enum"`
			Type    []string `json:"type"`
			Schemas []string `json:"schemas"`
			Probes  []string `json:"probes"`
		}
		if json.Unmarshal([]byte(line), &c) != nil {
			return `["BADCASE"]`
		}
		var res []interface{}
		func() {
			defer func() {
				if r := recover(); r != nil {
					res = append(res, strings.ReplaceAll(fmt.Sprintf("PANIC(%v)", r), "\n", " "))
				}
			}()
			var e *enum.Enum
			vals := func() string {
				if e == nil {
					return "-"
				}
				vs, err := e.Values()
				if err != nil {
					return errInfo(err)
				}
				var out []string
				for _, v := range vs {
					out = append(out, string(v.Type)+":"+string(v.Value)+":"+v.Comment)
				}
				a, err := e.GetAST()
				if err != nil {
					return errInfo(err)
				}
				for _, ch := range a.Children {
					out = append(out, "A"+ch.TokenType+":"+ch.Value+":"+ch.Comment)
				}
				return strings.Join(out, "|")
			}
			if c.Enum != "" {
				e = enum.New("@E", []byte(c.Enum))
			}
			var t jschema.Schema
			if len(c.Type) == 2 {
				if strings.HasPrefix(c.Type[1], "/") {
					t = regex.New(c.Type[0], []byte(c.Type[1]), regex.WithGeneratorSeed(1))
				} else {
					t = js.New(c.Type[0], []byte(c.Type[1]))
				}
			}
			res = append(res, vals())
			for _, st := range c.Schemas {
				s := js.New("root", []byte(st))
				var one []string
				var setupErr error
				if e != nil {
					setupErr = s.AddRule("@E", e)
				}
				if t != nil && setupErr == nil {
					setupErr = s.AddType(c.Type[0], t)
				}
				if setupErr != nil {
					one = append(one, "SETUP-"+errInfo(setupErr))
				} else {
					one = append(one, errInfo(s.Check()))
					for _, p := range c.Probes {
						one = append(one, errInfo(validateDoc(s, p)))
					}
				}
				res = append(res, one, vals())
			}
		}()
		b, _ := json.Marshal(res)
		return string(b)
	}
}
