package main

import (
	"encoding/hex"
	"fmt"
	"strings"

	"github.com/jsightapi/jsight-schema-go-library/rules/enum"
)

// enumx <mode> <hex | ->: N = raw event stream of the enum-rule scanner in computeLength mode, n = without it,
// l = Enum.Len(), c = Enum.Check()
func init() {
	commands["enumx"] = func(args []string, line string) string {
		return guard(func() string {
			f := strings.Fields(line)
			if len(f) != 2 {
				return "?"
			}
			src, _ := hex.DecodeString(strings.TrimPrefix(f[1], "-"))
			switch f[0] {
			case "n", "N":
				evs, end := enum.VerifEvents(src, f[0] == "N")
				var out []string
				for _, e := range evs {
					out = append(out, fmt.Sprintf("%d:%d:%d", e.T, e.B, e.E))
				}
				if strings.HasPrefix(end, "PANIC") {
					end = "PANIC"
				}
				return strings.Join(out, ",") + "|" + end
			case "l":
				n, err := enum.New("e", src).Len()
				if err != nil {
					return errInfo(err)
				}
				return fmt.Sprintf("%d", n)
			case "c":
				return errInfo(enum.New("e", src).Check())
			}
			return "?"
		})
	}
}
