package main

import (
	"encoding/hex"
	"encoding/json"
	"fmt"
	"strings"

	jschema "github.com/jsightapi/jsight-schema-go-library"
	fjson "github.com/jsightapi/jsight-schema-go-library/formats/json"
	js "github.com/jsightapi/jsight-schema-go-library/notations/jschema"
	"github.com/jsightapi/jsight-schema-go-library/notations/regex"
	"github.com/jsightapi/jsight-schema-go-library/rules/enum"
)

// history: {"schemas":[{"text":..., "types":[[name,text]...]}...], "docs":[text...], "enums":[text...], "regexes":[text...],
//
//	"ops":[["check",0],["validate",0,1],["example",1],["ast",0],["used",0],["len",0],["dcheck",1],["dlen",1],["dlex",1],
//	       ["echeck",0],["evalues",0],["elen",0],["rcheck",0],["rlen",0],["rexample",0]]}
//
// Every op is run (a) on the shared pool in history order and (b) on freshly built objects; values handed out in (a) are kept and
// re-rendered after the whole history. Output: one entry per op: [result_in_history, result_on_fresh_objects, result_re_rendered_at_the_end].
type histCase struct {
	Schemas []struct {
		Text  string      `json:"text"`
		Types [][2]string `json:"types"`
		// Nested: user types that bring their OWN types: [name, text, [nested...]] (recursively); they are added to the root only,
		// and each nested list only to its owner (the library merges the tables when the root compiles)
		Nested []json.RawMessage `json:"nested"`
		// RegexTypes: [name, "/pattern/"] regex types added to this schema's root
		RegexTypes [][2]string `json:"regex_types"`
		// UseShared: names of the shared types added to this schema (absent = all of them)
		UseShared []string `json:"use_shared"`
	} `json:"schemas"`
	// SharedTypes are built once and added to EVERY schema of the pool (and to each other): the same
	// user-type objects serve several schemas.
	SharedTypes [][2]string     `json:"shared_types"`
	Docs        []string        `json:"docs"`
	Enums       []string        `json:"enums"`
	Regexes     []string        `json:"regexes"`
	Ops         [][]interface{} `json:"ops"`
	// Scribble: the caller writes into every example it receives
	Scribble bool `json:"scribble"`
}

// scribble: every Example() result is overwritten and appended to by the "caller" (set per case)
var scribble bool

type pool struct {
	schemas []*js.Schema
	docs    []jschema.Document
	enums   []*enum.Enum
	regexes []*regex.Schema
}

func buildPool(c *histCase) *pool {
	p := &pool{}
	var shared []*js.Schema
	for _, t := range c.SharedTypes {
		shared = append(shared, js.New(t[0], t[1]))
	}
	for _, x := range shared {
		for i, t := range c.SharedTypes {
			_ = x.AddType(t[0], shared[i])
		}
	}
	for _, s := range c.Schemas {
		root := js.New("root", s.Text)
		var ts []*js.Schema
		for _, t := range s.Types {
			ts = append(ts, js.New(t[0], t[1]))
		}
		var rts [][2]interface{}
		for _, t := range s.RegexTypes {
			rts = append(rts, [2]interface{}{t[0], regex.New(t[0], t[1])})
		}
		all := append([]*js.Schema{root}, ts...)
		for _, x := range all {
			for i, t := range s.Types {
				_ = x.AddType(t[0], ts[i])
			}
			for i, t := range c.SharedTypes {
				use := s.UseShared == nil
				for _, u := range s.UseShared {
					use = use || u == t[0]
				}
				if use {
					_ = x.AddType(t[0], shared[i])
				}
			}
		}
		for _, rt := range rts {
			_ = root.AddType(rt[0].(string), rt[1].(*regex.Schema))
		}
		for _, raw := range s.Nested {
			if name, t := buildNested(raw); t != nil {
				_ = root.AddType(name, t)
			}
		}
		p.schemas = append(p.schemas, root)
	}
	for _, d := range c.Docs {
		p.docs = append(p.docs, fjson.New("d", d))
	}
	for _, e := range c.Enums {
		p.enums = append(p.enums, enum.New("e", e))
	}
	for _, r := range c.Regexes {
		p.regexes = append(p.regexes, regex.New("r", r))
	}
	return p
}

// runOp returns the canonical result and, for values the caller keeps, a function that renders the kept value again later.
func runOp(p *pool, op []interface{}) (res string, again func() string) {
	defer func() {
		if r := recover(); r != nil {
			res = strings.ReplaceAll(fmt.Sprintf("PANIC(%v)", r), "\n", " ")
			again = nil
		}
	}()
	idx := func(i int) int { return int(op[i].(float64)) }
	name := op[0].(string)
	switch name {
	case "check":
		return keepErr(p.schemas[idx(1)].Check())
	case "len":
		n, err := p.schemas[idx(1)].Len()
		if err != nil {
			return errInfo(err), nil
		}
		return fmt.Sprintf("%d", n), nil
	case "example":
		b, err := p.schemas[idx(1)].Example()
		if err != nil {
			return errInfo(err), nil
		}
		first := "X:" + hex.EncodeToString(b)
		if scribble {
			// the caller owns the returned bytes: writing into them and appending to them must not reach the schema
			for i := range b {
				b[i] ^= 0x20
			}
			b = append(b, "\r\n/*"...)
			return first, nil
		}
		return first, func() string { return "X:" + hex.EncodeToString(b) }
	case "ast":
		a, err := p.schemas[idx(1)].GetAST()
		if err != nil {
			return errInfo(err), nil
		}
		render := func() string { x, _ := json.Marshal(astJSON(a)); return "A:" + string(x) }
		return render(), render
	case "used":
		u, err := p.schemas[idx(1)].UsedUserTypes()
		if err != nil {
			return errInfo(err), nil
		}
		render := func() string { return "U:" + strings.Join(u, ",") }
		return render(), render
	case "validate":
		// a document is a cursor: every validation gets its own fresh document over the same text (C12 wording: "each with its own document")
		return keepErr(p.schemas[idx(1)].Validate(fjson.New("d", docText(p, idx(2)))))
	case "validateshared":
		return keepErr(p.schemas[idx(1)].Validate(p.docs[idx(2)]))
	case "dcheck":
		return keepErr(p.docs[idx(1)].Check())
	case "dlen":
		n, err := p.docs[idx(1)].Len()
		if err != nil {
			return errInfo(err), nil
		}
		return fmt.Sprintf("%d", n), nil
	case "echeck":
		return keepErr(p.enums[idx(1)].Check())
	case "elen":
		n, err := p.enums[idx(1)].Len()
		if err != nil {
			return errInfo(err), nil
		}
		return fmt.Sprintf("%d", n), nil
	case "evalues":
		vs, err := p.enums[idx(1)].Values()
		if err != nil {
			return errInfo(err), nil
		}
		render := func() string {
			var out []string
			for _, v := range vs {
				out = append(out, string(v.Type)+":"+string(v.Value))
			}
			return "V:" + strings.Join(out, "|")
		}
		return render(), render
	case "rcheck":
		return keepErr(p.regexes[idx(1)].Check())
	case "rlen":
		n, err := p.regexes[idx(1)].Len()
		if err != nil {
			return errInfo(err), nil
		}
		return fmt.Sprintf("%d", n), nil
	case "rexample":
		b, err := p.regexes[idx(1)].Example()
		if err != nil {
			return errInfo(err), nil
		}
		return "X:" + hex.EncodeToString(b), func() string { return "X:" + hex.EncodeToString(b) }
	}
	return "?", nil
}

var docTexts []string

func docText(p *pool, i int) string { return docTexts[i] }

func init() {
	commands["history"] = func(args []string, line string) string {
		var c histCase
		if err := json.Unmarshal([]byte(line), &c); err != nil {
			return `["BADCASE"]`
		}
		docTexts = c.Docs
		scribble = c.Scribble
		shared := buildPool(&c)
		type ent struct {
			hist, fresh string
			again       func() string
		}
		var ents []ent
		for _, op := range c.Ops {
			h, again := runOp(shared, op)
			f, _ := runOp(buildPool(&c), op)
			ents = append(ents, ent{h, f, again})
		}
		var out [][3]string
		for _, e := range ents {
			late := ""
			if e.again != nil {
				late = e.again()
			}
			out = append(out, [3]string{e.hist, e.fresh, late})
		}
		b, _ := json.Marshal(out)
		return string(b)
	}
}

// repeatcheck: the history case format plus "n": Check / Example / UsedUserTypes of every schema on n freshly built pools;
// output = the distinct result tuples (one element = deterministic).
func init() {
	commands["repeatcheck"] = func(args []string, line string) string {
		var c histCase
		var n struct {
			N int `json:"n"`
		}
		if json.Unmarshal([]byte(line), &c) != nil || json.Unmarshal([]byte(line), &n) != nil {
			return `["BADCASE"]`
		}
		if n.N <= 0 {
			n.N = 100
		}
		docTexts = c.Docs
		seen := map[string]bool{}
		var out []string
		for i := 0; i < n.N; i++ {
			p := buildPool(&c)
			var parts []string
			for si := range p.schemas {
				r1, _ := runOp(p, []interface{}{"check", float64(si)})
				r2, _ := runOp(p, []interface{}{"example", float64(si)})
				r3, _ := runOp(p, []interface{}{"used", float64(si)})
				one := core(r1) + "/" + core(r2) + "/" + r3
				for di := range p.docs {
					rv, _ := runOp(p, []interface{}{"validate", float64(si), float64(di)})
					one += "/" + core(rv)
				}
				parts = append(parts, one)
			}
			k := strings.Join(parts, ";")
			if !seen[k] {
				seen[k] = true
				out = append(out, k)
			}
		}
		b, _ := json.Marshal(out)
		return string(b)
	}
}

// keepErr: the error value is handed to the caller, who may look at it later: code, position AND rendered text are re-read after the whole history
func keepErr(err error) (string, func() string) {
	render := func() (out string) {
		defer func() {
			if r := recover(); r != nil {
				out = "ERRORPANIC"
			}
		}()
		if err == nil {
			return "ok"
		}
		txt := err.Error()
		// the other fields a caller can read: the type the error is attributed to
		if u, ok := err.(interface{ IncorrectUserType() string }); ok && u.IncorrectUserType() != "" {
			txt += " [type " + u.IncorrectUserType() + "]"
		}
		return errInfo(err) + "#" + hex.EncodeToString([]byte(txt))
	}
	first := render()
	return first, render
}

func buildNested(raw json.RawMessage) (string, *js.Schema) {
	var parts []json.RawMessage
	if json.Unmarshal(raw, &parts) != nil || len(parts) < 2 {
		return "", nil
	}
	var name, text string
	_ = json.Unmarshal(parts[0], &name)
	_ = json.Unmarshal(parts[1], &text)
	t := js.New(name, text)
	if len(parts) > 2 {
		var subs []json.RawMessage
		_ = json.Unmarshal(parts[2], &subs)
		for _, sub := range subs {
			if n2, t2 := buildNested(sub); t2 != nil {
				_ = t.AddType(n2, t2)
			}
		}
	}
	return name, t
}

// core: code and position of an error result (the rendered text after '#' is compared only with its own later rendering)
func core(r string) string {
	if i := strings.Index(r, "#"); i >= 0 && (strings.HasPrefix(r, "E") || strings.HasPrefix(r, "ok")) {
		return r[:i]
	}
	return r
}
