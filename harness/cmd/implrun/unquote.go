package main

import (
	"encoding/hex"
	"fmt"
	"strings"

	jbytes "github.com/jsightapi/jsight-schema-go-library/bytes"
)

// unquote <hex of a token | ->  ->  hex of Bytes(token).Unquote() (| - for empty)
func init() {
	commands["unquote"] = func(args []string, line string) (out string) {
		defer func() {
			if r := recover(); r != nil {
				out = strings.ReplaceAll(fmt.Sprintf("PANIC(%v)", r), "\n", " ")
			}
		}()
		if line == "-" {
			line = ""
		}
		b, err := hex.DecodeString(line)
		if err != nil {
			return "BAD"
		}
		r := jbytes.Bytes(b).Unquote()
		if len(r) == 0 {
			return "-"
		}
		return hex.EncodeToString(r)
	}
}
