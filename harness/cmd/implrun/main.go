// implrun — runs the real library on cases read from stdin, one case per line, and prints
// one canonical result line per case. Sub-command = area. Built with -tags verif and the
// overlay listed in harness/hooks/MAP against /repo's current working tree.
package main

import (
	"bufio"
	"fmt"
	"os"
	"runtime/debug"
)

type lineFn func(args []string, line string) string

var commands = map[string]lineFn{}

func main() {
	// a runaway recursion in the library should end the process quickly (the default limit is 1 GB)
	debug.SetMaxStack(64 << 20)
	if len(os.Args) < 2 {
		fmt.Fprintln(os.Stderr, "usage: implrun <area> [args]")
		os.Exit(2)
	}
	if sp, ok := specials[os.Args[1]]; ok {
		os.Exit(sp(os.Args[2:]))
	}
	fn, ok := commands[os.Args[1]]
	if !ok {
		fmt.Fprintln(os.Stderr, "unknown area", os.Args[1])
		os.Exit(2)
	}
	in := bufio.NewReaderSize(os.Stdin, 1<<20)
	out := bufio.NewWriterSize(os.Stdout, 1<<20)
	defer out.Flush()
	sc := bufio.NewScanner(in)
	sc.Buffer(make([]byte, 1<<20), 1<<26)
	for sc.Scan() {
		out.WriteString(fn(os.Args[2:], sc.Text()))
		out.WriteByte('\n')
	}
}

// specials are sub-commands that do not follow the line protocol (stress runs etc.).
var specials = map[string]func(args []string) int{}
