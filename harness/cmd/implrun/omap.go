package main

import (
	"bytes"
	"encoding/json"
	"errors"
	"fmt"
	"regexp"
	"strconv"
	"strings"
	"time"

	jschema "github.com/jsightapi/jsight-schema-go-library"
	"github.com/jsightapi/jsight-schema-go-library/notations/jschema/verifx"
)

// ---- callback families: mirror of coq/theories/Omap/OmapRun.v ----
func zpred(id int) func(k, v int) bool {
	return func(k, v int) bool {
		switch id {
		case 0:
			return v%2 == 0
		case 1:
			return k != 1
		case 2:
			return v > 2
		case 3:
			return false
		case 4:
			return true
		case 5:
			return k == 0
		default:
			return v <= k
		}
	}
}
func zupd(id int) func(v int) int {
	return func(v int) int {
		switch id {
		case 0:
			return v + 1
		case 1:
			return v * 2
		default:
			return 0
		}
	}
}

var errStop = errors.New("stop")

func zmap(id int) func(k, v int) (int, error) {
	return func(k, v int) (int, error) {
		switch id {
		case 0:
			return v + 10, nil
		case 1:
			if k == 1 {
				return 0, errStop
			}
			return v + 1, nil
		case 2:
			if v%2 != 0 {
				return 0, errStop
			}
			return v + 3, nil
		default:
			return k, nil
		}
	}
}

type omapAdapter interface {
	Set(k, v int)
	Update(k int, f func(int) int)
	Delete(k int)
	Filter(f func(k, v int) bool)
	Map(f func(k, v int) (int, error)) error
	Find(f func(k, v int) bool) (int, int, bool)
	Each(f func(k, v int) error) error
	EachSafe(f func(k, v int))
	Get(k int) (int, bool)
	GetValue(k int) int
	Has(k int) bool
	Len() int
	Marshal() ([]byte, error)
	// parseMarshal turns the marshalled text back into pairs, strictly.
	ParseMarshal(b []byte) ([][2]int, bool)
}

func keyS(k int) string { return "k" + strconv.Itoa(k) }
func keyI(s string) int {
	n, err := strconv.Atoi(strings.TrimPrefix(s, "k"))
	if err != nil {
		return -1
	}
	return n
}
func valS(v int) string { return strconv.Itoa(v) }
func valI(s string) int {
	if s == "" {
		return 0
	}
	n, err := strconv.Atoi(s)
	if err != nil {
		return -999999
	}
	return n
}

// ---- ASTNodes ----
type astAdapter struct{ m *jschema.ASTNodes }

func (a astAdapter) Set(k, v int) { a.m.Set(keyS(k), jschema.ASTNode{Value: valS(v)}) }
func (a astAdapter) Update(k int, f func(int) int) {
	a.m.Update(keyS(k), func(n jschema.ASTNode) jschema.ASTNode { return jschema.ASTNode{Value: valS(f(valI(n.Value)))} })
}
func (a astAdapter) Delete(k int) { a.m.Delete(keyS(k)) }
func (a astAdapter) Filter(f func(k, v int) bool) {
	a.m.Filter(func(k string, n jschema.ASTNode) bool { return f(keyI(k), valI(n.Value)) })
}
func (a astAdapter) Map(f func(k, v int) (int, error)) error {
	return a.m.Map(func(k string, n jschema.ASTNode) (jschema.ASTNode, error) {
		r, err := f(keyI(k), valI(n.Value))
		if err != nil {
			return jschema.ASTNode{}, err
		}
		return jschema.ASTNode{Value: valS(r)}, nil
	})
}
func (a astAdapter) Find(f func(k, v int) bool) (int, int, bool) {
	it, ok := a.m.Find(func(k string, n jschema.ASTNode) bool { return f(keyI(k), valI(n.Value)) })
	return keyI(it.Key), valI(it.Value.Value), ok
}
func (a astAdapter) Each(f func(k, v int) error) error {
	return a.m.Each(func(k string, n jschema.ASTNode) error { return f(keyI(k), valI(n.Value)) })
}
func (a astAdapter) EachSafe(f func(k, v int)) {
	a.m.EachSafe(func(k string, n jschema.ASTNode) { f(keyI(k), valI(n.Value)) })
}
func (a astAdapter) Get(k int) (int, bool) { n, ok := a.m.Get(keyS(k)); return valI(n.Value), ok }
func (a astAdapter) GetValue(k int) int    { return valI(a.m.GetValue(keyS(k)).Value) }
func (a astAdapter) Has(k int) bool        { return a.m.Has(keyS(k)) }
func (a astAdapter) Len() int              { return a.m.Len() }
func (a astAdapter) Marshal() ([]byte, error) { return a.m.MarshalJSON() }
func (a astAdapter) ParseMarshal(b []byte) ([][2]int, bool) {
	return parseObjStrict(b, func(raw json.RawMessage) (int, []byte, bool) {
		var n jschema.ASTNode
		if json.Unmarshal(raw, &n) != nil {
			return 0, nil, false
		}
		re, err := json.Marshal(jschema.ASTNode{Value: n.Value})
		return valI(n.Value), re, err == nil
	})
}

// ---- RuleASTNodes ----
type ruleAdapter struct{ m *jschema.RuleASTNodes }

func (a ruleAdapter) Set(k, v int) { a.m.Set(keyS(k), jschema.RuleASTNode{Value: valS(v)}) }
func (a ruleAdapter) Update(k int, f func(int) int) {
	a.m.Update(keyS(k), func(n jschema.RuleASTNode) jschema.RuleASTNode {
		return jschema.RuleASTNode{Value: valS(f(valI(n.Value)))}
	})
}
func (a ruleAdapter) Delete(k int) { a.m.Delete(keyS(k)) }
func (a ruleAdapter) Filter(f func(k, v int) bool) {
	a.m.Filter(func(k string, n jschema.RuleASTNode) bool { return f(keyI(k), valI(n.Value)) })
}
func (a ruleAdapter) Map(f func(k, v int) (int, error)) error {
	return a.m.Map(func(k string, n jschema.RuleASTNode) (jschema.RuleASTNode, error) {
		r, err := f(keyI(k), valI(n.Value))
		if err != nil {
			return jschema.RuleASTNode{}, err
		}
		return jschema.RuleASTNode{Value: valS(r)}, nil
	})
}
func (a ruleAdapter) Find(f func(k, v int) bool) (int, int, bool) {
	it, ok := a.m.Find(func(k string, n jschema.RuleASTNode) bool { return f(keyI(k), valI(n.Value)) })
	return keyI(it.Key), valI(it.Value.Value), ok
}
func (a ruleAdapter) Each(f func(k, v int) error) error {
	return a.m.Each(func(k string, n jschema.RuleASTNode) error { return f(keyI(k), valI(n.Value)) })
}
func (a ruleAdapter) EachSafe(f func(k, v int)) {
	a.m.EachSafe(func(k string, n jschema.RuleASTNode) { f(keyI(k), valI(n.Value)) })
}
func (a ruleAdapter) Get(k int) (int, bool) { n, ok := a.m.Get(keyS(k)); return valI(n.Value), ok }
func (a ruleAdapter) GetValue(k int) int    { return valI(a.m.GetValue(keyS(k)).Value) }
func (a ruleAdapter) Has(k int) bool        { return a.m.Has(keyS(k)) }
func (a ruleAdapter) Len() int              { return a.m.Len() }
func (a ruleAdapter) Marshal() ([]byte, error) { return a.m.MarshalJSON() }
func (a ruleAdapter) ParseMarshal(b []byte) ([][2]int, bool) {
	return parseObjStrict(b, func(raw json.RawMessage) (int, []byte, bool) {
		var n jschema.RuleASTNode
		if json.Unmarshal(raw, &n) != nil {
			return 0, nil, false
		}
		re, err := json.Marshal(jschema.RuleASTNode{Value: n.Value})
		return valI(n.Value), re, err == nil
	})
}

// parseObjStrict decodes {"k<i>":<value>,...} keeping order, and insists that re-rendering the
// decoded pairs gives back exactly the same bytes (no stray separators, blanks or members).
func parseObjStrict(b []byte, val func(json.RawMessage) (int, []byte, bool)) ([][2]int, bool) {
	dec := json.NewDecoder(bytes.NewReader(b))
	t, err := dec.Token()
	if err != nil || t != json.Delim('{') {
		return nil, false
	}
	var pairs [][2]int
	var re bytes.Buffer
	re.WriteByte('{')
	for dec.More() {
		kt, err := dec.Token()
		if err != nil {
			return nil, false
		}
		ks, ok := kt.(string)
		if !ok {
			return nil, false
		}
		var raw json.RawMessage
		if dec.Decode(&raw) != nil {
			return nil, false
		}
		v, rv, ok := val(raw)
		if !ok {
			return nil, false
		}
		if len(pairs) > 0 {
			re.WriteByte(',')
		}
		kb, _ := json.Marshal(ks)
		re.Write(kb)
		re.WriteByte(':')
		re.Write(rv)
		pairs = append(pairs, [2]int{keyI(ks), v})
	}
	t, err = dec.Token()
	if err != nil || t != json.Delim('}') {
		return nil, false
	}
	if _, err := dec.Token(); err == nil {
		return nil, false
	}
	re.WriteByte('}')
	if !bytes.Equal(re.Bytes(), b) {
		return nil, false
	}
	return pairs, true
}

// ---- Constraints (internal; through the overlay package) ----
type consAdapter struct{ *verifx.ConstraintsMap }

var consRe = regexp.MustCompile(`^\{((\d+):(-?\d+)(,(\d+):(-?\d+))*)?\}$`)
var consItem = regexp.MustCompile(`(\d+):(-?\d+)`)

func (a consAdapter) ParseMarshal(b []byte) ([][2]int, bool) {
	if !consRe.Match(b) {
		return nil, false
	}
	var pairs [][2]int
	for _, m := range consItem.FindAllSubmatch(b, -1) {
		k, _ := strconv.Atoi(string(m[1]))
		v, _ := strconv.Atoi(string(m[2]))
		pairs = append(pairs, [2]int{k, v})
	}
	return pairs, true
}

func newOmap(kind string) omapAdapter {
	switch kind {
	case "ast":
		return astAdapter{&jschema.ASTNodes{}}
	case "rule":
		return ruleAdapter{&jschema.RuleASTNodes{}}
	case "cons":
		return consAdapter{verifx.NewConstraintsMap()}
	}
	panic("unknown omap kind " + kind)
}

func pairsS(p [][2]int) string {
	var sb strings.Builder
	for i, kv := range p {
		if i > 0 {
			sb.WriteByte(',')
		}
		fmt.Fprintf(&sb, "%d=%d", kv[0], kv[1])
	}
	return sb.String()
}
func boolS(b bool) string {
	if b {
		return "T"
	}
	return "F"
}

func omapApply(m omapAdapter, op string) (res string) {
	defer func() {
		if r := recover(); r != nil {
			res = fmt.Sprintf("PANIC(%v)", r)
		}
	}()
	f := strings.Fields(op)
	arg := func(i int) int { n, _ := strconv.Atoi(f[i]); return n }
	switch f[0] {
	case "S":
		m.Set(arg(1), arg(2))
		return "-"
	case "U":
		m.Update(arg(1), zupd(arg(2)))
		return "-"
	case "D":
		m.Delete(arg(1))
		return "-"
	case "F":
		var tr [][2]int
		p := zpred(arg(1))
		m.Filter(func(k, v int) bool { tr = append(tr, [2]int{k, v}); return p(k, v) })
		return "p:" + pairsS(tr)
	case "M":
		var tr [][2]int
		g := zmap(arg(1))
		err := m.Map(func(k, v int) (int, error) { tr = append(tr, [2]int{k, v}); return g(k, v) })
		return "q:" + pairsS(tr) + "|" + boolS(err == nil)
	case "N":
		k, v, ok := m.Find(zpred(arg(1)))
		if !ok {
			return "i:-"
		}
		return fmt.Sprintf("i:%d=%d", k, v)
	case "E":
		var tr [][2]int
		p := zpred(arg(1))
		err := m.Each(func(k, v int) error {
			tr = append(tr, [2]int{k, v})
			if p(k, v) {
				return errStop
			}
			return nil
		})
		return "q:" + pairsS(tr) + "|" + boolS(err == nil)
	case "A":
		var tr [][2]int
		m.EachSafe(func(k, v int) { tr = append(tr, [2]int{k, v}) })
		return "p:" + pairsS(tr)
	case "G":
		v, ok := m.Get(arg(1))
		if !ok {
			return "o:-"
		}
		return "o:" + strconv.Itoa(v)
	case "V":
		return "v:" + strconv.Itoa(m.GetValue(arg(1)))
	case "H":
		return "b:" + boolS(m.Has(arg(1)))
	case "L":
		return "n:" + strconv.Itoa(m.Len())
	case "J":
		b, err := m.Marshal()
		if err != nil {
			return "p:!err"
		}
		pairs, ok := m.ParseMarshal(b)
		if !ok {
			return "p:!malformed(" + string(b) + ")"
		}
		return "p:" + pairsS(pairs)
	}
	return "?"
}

func init() {
	commands["omap"] = func(args []string, line string) string {
		// a case that does not come back (a lock that is never released) must not hang the whole run
		if omapHangs >= 3 {
			return "HANG-SKIPPED#" // three cases already hung in this process: the rest is not run
		}
		done := make(chan string, 1)
		go func() { done <- omapCase(args, line) }()
		select {
		case r := <-done:
			return r
		case <-time.After(2 * time.Second):
			omapHangs++
			return "HANG#"
		}
	}
}

var omapHangs int

func omapCase(args []string, line string) string {
	{
		kind := "ast"
		if len(args) > 0 {
			kind = args[0]
		}
		m := newOmap(kind)
		var outs []string
		for _, op := range strings.Split(line, ";") {
			if strings.TrimSpace(op) == "" {
				continue
			}
			outs = append(outs, omapApply(m, op))
		}
		var fin [][2]int
		func() {
			defer func() { recover() }()
			m.EachSafe(func(k, v int) { fin = append(fin, [2]int{k, v}) })
		}()
		return strings.Join(outs, ";") + "#" + pairsS(fin)
	}
}
