package main

import (
	"fmt"
	"strings"

	jschema "github.com/jsightapi/jsight-schema-go-library"
	jerr "github.com/jsightapi/jsight-schema-go-library/errors"
	js "github.com/jsightapi/jsight-schema-go-library/notations/jschema"
	"github.com/jsightapi/jsight-schema-go-library/verifx"
)

func tf(b bool) string {
	if b {
		return "T"
	}
	return "F"
}

func errCode(err error) string {
	if err == nil {
		return "ok"
	}
	if e, ok := err.(jerr.Error); ok {
		return fmt.Sprintf("E%d", e.ErrCode())
	}
	if e, ok := err.(interface{ Code() jerr.ErrorCode }); ok {
		return fmt.Sprintf("E%d", int(e.Code()))
	}
	return "EFOREIGN(" + fmt.Sprintf("%T", err) + ")"
}

func guard(f func() string) (res string) {
	defer func() {
		if r := recover(); r != nil {
			res = fmt.Sprintf("PANIC(%v)", r)
		}
	}()
	return f()
}

func init() {
	commands["num"] = func(args []string, line string) string {
		return guard(func() string {
			f := strings.Split(line, " ")
			switch f[0] {
			case "N":
				i := verifx.Num([]byte(f[1]))
				// the public guesser must agree with the internal one
				pub := "-"
				if t, err := jschema.GuessSchemaType([]byte(f[1])); err == nil {
					pub = string(t)
				}
				agree := (pub == "integer") == i.IsInteger && (pub == "float") == i.IsFloat
				if !agree {
					return "GUESSERS-DISAGREE(" + pub + ")"
				}
				if !i.OK {
					return "ERR|" + tf(i.IsInteger) + tf(i.IsFloat)
				}
				return fmt.Sprintf("%s|%d|%s%s", i.Str, i.FraLen, tf(i.IsInteger), tf(i.IsFloat))
			case "C":
				c, ok := verifx.NumCmp([]byte(f[1]), []byte(f[2]))
				if !ok {
					return "ERR"
				}
				return fmt.Sprintf("%d", c)
			case "A": // A <rule> <bound> <value>: Check of the schema  VALUE // {rule: BOUND ...}
				var rules string
				switch f[1] {
				case "min":
					rules = "min: " + f[2]
				case "minx":
					rules = "min: " + f[2] + ", exclusiveMinimum: true"
				case "max":
					rules = "max: " + f[2]
				case "maxx":
					rules = "max: " + f[2] + ", exclusiveMaximum: true"
				case "prec":
					rules = "type: \"decimal\", precision: " + f[2]
				}
				s := js.New("s", f[3]+" // {"+rules+"}")
				return errCode(s.Check())
			case "D": // D <rule> <bound> <example> <doc>: Validate doc against  EXAMPLE // {rule}
				var rules string
				switch f[1] {
				case "min":
					rules = "min: " + f[2]
				case "minx":
					rules = "min: " + f[2] + ", exclusiveMinimum: true"
				case "max":
					rules = "max: " + f[2]
				case "maxx":
					rules = "max: " + f[2] + ", exclusiveMaximum: true"
				}
				s := js.New("s", f[3]+" // {"+rules+"}")
				if err := s.Check(); err != nil {
					return "SCHEMA-" + errCode(err)
				}
				return errCode(validateDoc(s, f[4]))
			}
			return "?"
		})
	}
}
