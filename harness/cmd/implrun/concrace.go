package main

import (
	"encoding/hex"
	"fmt"
	"github.com/jsightapi/jsight-schema-go-library/notations/regex"
	"github.com/jsightapi/jsight-schema-go-library/rules/enum"
	"math/rand"
	"strconv"
	"sync"
	"sync/atomic"
	"time"

	fjson "github.com/jsightapi/jsight-schema-go-library/formats/json"
	js "github.com/jsightapi/jsight-schema-go-library/notations/jschema"
)

// concrace <seconds> <seed> <goroutines> <mode>: goroutines issue random operation mixes against shared schemas (setup finished
// before they start) while others create, compile and use private schemas; mode "shared-types" additionally builds the
// private schemas from the SAME user-type objects. Every result is compared with the sequential result on fresh objects.
type concSpec struct {
	text  string
	types [][2]string
	docs  []string
}

var concSpecs = []concSpec{
	{"{\n  \"id\": 1, // {min: 0}\n  \"name\": \"abc\", // {minLength: 1}\n  \"tags\": [\"x\"],\n  \"owner\": @user // {optional: true}\n}",
		[][2]string{{"@user", "{\n  \"login\": \"u\",\n  \"friend\": @user // {optional: true}\n}"}},
		[]string{`{"id":5,"name":"zz","tags":["a","b"]}`, `{"id":-1,"name":"zz","tags":[]}`, `{"id":1,"name":"n","tags":[],"owner":{"login":"l"}}`, `[1`, `{"id":1}`}},
	{"@a | @b", [][2]string{{"@a", "{\n  \"k\": 1\n}"}, {"@b", "[1, 2]"}}, []string{`{"k":2}`, `[3]`, `"s"`, `{}`}},
	{"{ // {allOf: \"@base\"}\n  \"own\": true\n}", [][2]string{{"@base", "{\n  \"b\": 1,\n  \"c\": \"s\" // {optional: true}\n}"}}, []string{`{"own":false,"b":2}`, `{"own":true}`, `{"b":1,"own":true,"c":"x"}`}},
	{"{\n  \"bad\": 1 // {min: 5}\n}", nil, []string{`{"bad":7}`}},
	{"[ // {minItems: 1}\n  1.5 // {type: \"decimal\", precision: 2}\n]", nil, []string{`[1.25, 2]`, `[1.255]`, `[]`}},
	// unnamed keys decided by a schema type name: every value goes through the package-level type guesser
	{"{ // {additionalProperties: \"integer\"}\n  \"a\": 1\n}", nil, []string{`{"a":1,"x":5,"y":7}`, `{"a":1,"x":"s"}`, `{"a":1,"p":2.5}`, `{"a":2,"q":true,"r":3}`}},
	{"{ // {additionalProperties: \"string\"}\n}", nil, []string{`{"x":"1.5","y":"a.b"}`, `{"x":1}`, `{"k":"v","l":"w","m":"z"}`, `{"x":null}`}},
}

func buildConc(sp concSpec, sharedTypes map[string]*js.Schema) *js.Schema {
	root := js.New("root", sp.text)
	var ts []*js.Schema
	for _, t := range sp.types {
		if sharedTypes != nil {
			if s, ok := sharedTypes[t[0]+"\x00"+t[1]]; ok {
				ts = append(ts, s)
				continue
			}
		}
		ts = append(ts, js.New(t[0], t[1]))
	}
	for i, t := range sp.types {
		_ = root.AddType(t[0], ts[i])
	}
	return root
}

func concOp(s *js.Schema, sp concSpec, op, di int) string {
	defer func() { recover() }()
	switch op {
	case 0:
		return "check:" + errInfo(s.Check())
	case 1:
		return "validate:" + errInfo(s.Validate(fjson.New("d", sp.docs[di%len(sp.docs)])))
	case 2:
		n, err := s.Len()
		return fmt.Sprintf("len:%d:%s", n, errInfo(err))
	case 3:
		b, err := s.Example()
		return "example:" + hex.EncodeToString(b) + ":" + errInfo(err)
	case 4:
		a, err := s.GetAST()
		return fmt.Sprintf("ast:%s:%d:%s", a.SchemaType, len(a.Children), errInfo(err))
	default:
		u, err := s.UsedUserTypes()
		return fmt.Sprintf("used:%v:%s", u, errInfo(err))
	}
}

// objects other than JSight schemas that are shared too: a regex type and an enum rule
const concRegex = "/[a-c]{3}-\\d+x?/"
const concEnum = "[\n  \"a\", // first\n  2,\n  null\n]"

func regexOp(r *regex.Schema, op int) string {
	defer func() { recover() }()
	switch op % 4 {
	case 0:
		b, err := r.Example()
		return "rexample:" + hex.EncodeToString(b) + ":" + errInfo(err)
	case 1:
		n, err := r.Len()
		return fmt.Sprintf("rlen:%d:%s", n, errInfo(err))
	case 2:
		return "rcheck:" + errInfo(r.Check())
	default:
		p, err := r.Pattern()
		return "rpattern:" + p + ":" + errInfo(err)
	}
}

func enumOp(e *enum.Enum, op int) string {
	defer func() { recover() }()
	switch op % 3 {
	case 0:
		vs, err := e.Values()
		return fmt.Sprintf("evalues:%d:%s", len(vs), errInfo(err))
	case 1:
		n, err := e.Len()
		return fmt.Sprintf("elen:%d:%s", n, errInfo(err))
	default:
		return "echeck:" + errInfo(e.Check())
	}
}

// a private schema that uses the shared regex type and the shared enum rule
func buildWithShared(r *regex.Schema, e *enum.Enum) string {
	defer func() { recover() }()
	s := js.New("root", "{\n  \"code\": \"abc-1\", // {type: \"@rx\"}\n  \"v\": 2 // {enum: @en}\n}")
	if err := s.AddRule("@en", e); err != nil {
		return "addrule:" + errInfo(err)
	}
	if err := s.AddType("@rx", r); err != nil {
		return "addtype:" + errInfo(err)
	}
	b, err := s.Example()
	return "check:" + errInfo(s.Check()) + ":validate:" + errInfo(s.Validate(fjson.New("d", `{"code":"bca-77","v":"a"}`))) + ":example:" + hex.EncodeToString(b) + ":" + errInfo(err)
}

func init() {
	specials["concrace"] = func(args []string) int {
		secs, _ := strconv.Atoi(args[0])
		seed, _ := strconv.Atoi(args[1])
		ng, _ := strconv.Atoi(args[2])
		mode := args[3]
		// sequential oracle
		oracle := map[string]string{}
		for si, sp := range concSpecs {
			for op := 0; op < 6; op++ {
				for di := range sp.docs {
					oracle[fmt.Sprintf("%d/%d/%d", si, op, di)] = concOp(buildConc(sp, nil), sp, op, di)
				}
			}
		}
		for op := 0; op < 4; op++ {
			oracle[fmt.Sprintf("regex/%d", op)] = regexOp(regex.New("rx", concRegex, regex.WithGeneratorSeed(1)), op)
		}
		for op := 0; op < 3; op++ {
			oracle[fmt.Sprintf("enum/%d", op)] = enumOp(enum.New("en", concEnum), op)
		}
		oracle["withshared"] = buildWithShared(regex.New("rx", concRegex, regex.WithGeneratorSeed(1)), enum.New("en", concEnum))
		var bad int32
		var ops int64
		deadline := time.Now().Add(time.Duration(secs) * time.Second)
		round := 0
		for time.Now().Before(deadline) {
			round++
			// fresh shared objects per round, so that the first use (compile) is raced again and again
			shared := make([]*js.Schema, len(concSpecs))
			sharedTypes := map[string]*js.Schema{}
			for si, sp := range concSpecs {
				if mode == "shared-types" {
					for _, t := range sp.types {
						k := t[0] + "\x00" + t[1]
						if _, ok := sharedTypes[k]; !ok {
							sharedTypes[k] = js.New(t[0], t[1])
						}
					}
					shared[si] = buildConc(sp, sharedTypes)
				} else {
					shared[si] = buildConc(sp, nil)
				}
			}
			sharedRegex := regex.New("rx", concRegex, regex.WithGeneratorSeed(1))
			sharedEnum := enum.New("en", concEnum)
			var wg sync.WaitGroup
			start := make(chan struct{})
			for g := 0; g < ng; g++ {
				wg.Add(1)
				go func(g int) {
					defer wg.Done()
					rng := rand.New(rand.NewSource(int64(seed)*1000 + int64(round)*64 + int64(g)))
					<-start
					for i := 0; i < 40; i++ {
						if k := rng.Intn(10); k < 3 {
							// the shared regex type / enum rule objects, directly or through a private schema built from them
							var got, key string
							switch k {
							case 0:
								o := rng.Intn(4)
								got, key = regexOp(sharedRegex, o), fmt.Sprintf("regex/%d", o)
							case 1:
								o := rng.Intn(3)
								got, key = enumOp(sharedEnum, o), fmt.Sprintf("enum/%d", o)
							default:
								got, key = buildWithShared(sharedRegex, sharedEnum), "withshared"
							}
							if got != oracle[key] {
								if atomic.AddInt32(&bad, 1) <= 5 {
									fmt.Printf("INCONSISTENT shared object %s: concurrent %q sequential %q\n", key, got, oracle[key])
								}
							}
							atomic.AddInt64(&ops, 1)
							continue
						}
						si := rng.Intn(len(concSpecs))
						sp := concSpecs[si]
						op, di := rng.Intn(6), rng.Intn(len(sp.docs))
						var s *js.Schema
						if g%3 == 2 { // this goroutine creates, compiles and uses its own schemas
							if mode == "shared-types" {
								s = buildConc(sp, sharedTypes)
							} else {
								s = buildConc(sp, nil)
							}
						} else {
							s = shared[si]
						}
						got := concOp(s, sp, op, di)
						want := oracle[fmt.Sprintf("%d/%d/%d", si, op, di)]
						if got != want {
							if atomic.AddInt32(&bad, 1) <= 5 {
								fmt.Printf("INCONSISTENT schema#%d op=%d doc=%d: concurrent %q sequential %q\n", si, op, di, got, want)
							}
						}
						atomic.AddInt64(&ops, 1)
						if rng.Intn(4) == 0 {
							time.Sleep(time.Microsecond)
						}
					}
				}(g)
			}
			close(start)
			wg.Wait()
		}
		fmt.Printf("concrace: mode=%s goroutines=%d rounds=%d operations=%d inconsistent=%d\n", mode, ng, round, ops, bad)
		if bad != 0 {
			return 1
		}
		return 0
	}
}
