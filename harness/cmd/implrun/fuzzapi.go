package main

import (
	"encoding/hex"
	"errors"
	"fmt"
	"io"
	"os"
	"strings"
	"time"

	jschema "github.com/jsightapi/jsight-schema-go-library"
	jerr "github.com/jsightapi/jsight-schema-go-library/errors"
	fjson "github.com/jsightapi/jsight-schema-go-library/formats/json"
	"github.com/jsightapi/jsight-schema-go-library/fs"
	"github.com/jsightapi/jsight-schema-go-library/kit"
	js "github.com/jsightapi/jsight-schema-go-library/notations/jschema"
	"github.com/jsightapi/jsight-schema-go-library/notations/regex"
	"github.com/jsightapi/jsight-schema-go-library/rules/enum"
)

// classify an error returned by a public method on a source of srcLen bytes:
//
//	ok | L<code>@<pos>  library error with position inside the source |  V<code> library validation error without position
//	BADPOS(<code>@<pos>/<len>) | FOREIGN(<type>) | ERRORPANIC(<code>: <panic>) | NOPOS(<code>)  -- violations of C07
func classify(err error, srcLen int) (res string) {
	if err == nil {
		return "ok"
	}
	if errors.Is(err, io.EOF) {
		return "eof"
	}
	// the kit's converter (kit.ConvertError, the SDK entry point for callers that want code / position / file) must give the
	// code and position of the library error, also when AddType wrapped it with fmt.Errorf("...: %w", libErr)
	orig := err
	defer func() {
		if strings.HasPrefix(res, "L") || strings.HasPrefix(res, "V") {
			func() {
				defer func() {
					if r := recover(); r != nil {
						res = fmt.Sprintf("KITPANIC(%v)", r)
					}
				}()
				k := kit.ConvertError(fs.NewFile("caller-file", []byte("x")), orig)
				var wantCode int
				var wantPos uint
				if e, ok := err.(interface{ ErrCode() int }); ok {
					wantCode = e.ErrCode()
				} else if e, ok := err.(interface{ Code() jerr.ErrorCode }); ok {
					wantCode = int(e.Code())
				}
				if p, ok := err.(interface{ Position() uint }); ok {
					wantPos = p.Position()
				}
				if k.ErrCode() != wantCode || k.Position() != wantPos {
					res = fmt.Sprintf("KITLOSS(%d@%d->%d@%d)", wantCode, wantPos, k.ErrCode(), k.Position())
				}
			}()
		}
	}()
	// fmt.Errorf("...: %w", libErr) wrappers (AddType) expose the library error through errors.Unwrap
	for i := 0; i < 8; i++ {
		if _, ok := err.(interface{ ErrCode() int }); ok {
			break
		}
		if _, ok := err.(interface{ Code() jerr.ErrorCode }); ok {
			break
		}
		u := errors.Unwrap(err)
		if u == nil {
			break
		}
		err = u
	}
	msg := func() (s string) {
		defer func() {
			if r := recover(); r != nil {
				s = fmt.Sprintf("\x00%v", r)
			}
		}()
		_ = err.Error()
		if m, ok := err.(interface{ Message() string }); ok {
			_ = m.Message()
		}
		return ""
	}()
	code := -1
	if e, ok := err.(interface{ ErrCode() int }); ok {
		code = e.ErrCode()
	} else if e, ok := err.(interface{ Code() jerr.ErrorCode }); ok {
		code = int(e.Code())
	}
	if msg != "" {
		return fmt.Sprintf("ERRORPANIC(%d: %s)", code, strings.ReplaceAll(msg[1:], " ", "_"))
	}
	// "every non-nil error is a library error exposing code, message and a position": an empty message says nothing
	if m, ok := err.(interface{ Message() string }); ok && m.Message() == "" {
		return fmt.Sprintf("EMPTYMSG(%d)", code)
	}
	// a recovered Go runtime panic (index out of range, makeslice: cap out of range, nil dereference...) handed back as the message of a
	// library error is a panic all the same: the call did not decide anything about its input
	if t := err.Error(); strings.Contains(t, "runtime error:") {
		i := strings.Index(t, "runtime error:")
		e := i + 60
		if e > len(t) {
			e = len(t)
		}
		return fmt.Sprintf("RUNTIME(%d: %s)", code, strings.ReplaceAll(strings.ReplaceAll(t[i:e], " ", "_"), "\n", "_"))
	}
	if code < 0 {
		return fmt.Sprintf("FOREIGN(%T)", err)
	}
	if p, ok := err.(interface{ Position() uint }); ok {
		pos := int(p.Position())
		lim := srcLen
		if lim == 0 {
			lim = 1
		}
		if pos >= lim {
			return fmt.Sprintf("BADPOS(%d@%d/%d)", code, pos, srcLen)
		}
		return fmt.Sprintf("L%d@%d", code, pos)
	}
	// "every non-nil error ... exposing code, message and a position": a library error without a position
	return fmt.Sprintf("NOPOS(%d)", code)
}

func call(name string, srcLen int, f func() error) (res string) {
	defer func() {
		if r := recover(); r != nil {
			res = name + ":" + fmt.Sprintf("PANIC(%v)", r)
			res = strings.ReplaceAll(res, " ", "_")
		}
	}()
	return name + ":" + classify(f(), srcLen)
}

// fuzzapi line:  <kind> <hex source> [<hex second source>]
//
//	schema S [D]  : Len, Check, GetAST, UsedUserTypes, Example, Validate(D)   (D defaults to "null")
//	schemaT S T   : schema S with type @t := T added (AddType), then Check, Validate("1"), Example
//	enum S, regex S, json S, jsont S (json with trailing characters allowed)
func init() {
	commands["fuzzapi"] = func(args []string, line string) string {
		f := strings.Fields(line)
		if len(f) < 2 {
			return "?"
		}
		unhex := func(s string) []byte { b, _ := hex.DecodeString(s); return b }
		src := unhex(strings.TrimPrefix(f[1], "-"))
		var second []byte
		if len(f) > 2 {
			second = unhex(strings.TrimPrefix(f[2], "-"))
		}
		var third []byte
		if len(f) > 3 {
			third = unhex(strings.TrimPrefix(f[3], "-"))
		}
		done := make(chan string, 1)
		go func() {
			if f[0] == "schemaTT" || f[0] == "schemaTT0" {
				done <- fuzzTT(src, second, third, f[0] == "schemaTT0")
				return
			}
			done <- fuzzOne(f[0], src, second)
		}()
		select {
		case r := <-done:
			return r
		case <-time.After(10 * time.Second):
			fmt.Fprintf(os.Stdout, "HANG\n")
			os.Stdout.Sync()
			os.Exit(3)
		}
		return "?"
	}
}

// schemaTT R D P: root R with the types @d := D and @p := P, each added to all three (D typically inherits from @p with allOf):
// AddType, Check, Validate, Example, GetAST; an error may point into any of the three texts
// schemaTT0: the same with every file unnamed (New("", ...), as the library's own tests do)
func fuzzTT(r, d, p []byte, unnamed bool) string {
	var out []string
	lim := maxInt(len(r), maxInt(len(d), len(p)))
	root, sd, sp := js.New("root", r), js.New("@d", d), js.New("@p", p)
	if unnamed {
		root, sd, sp = js.New("", r), js.New("", d), js.New("", p)
	}
	for _, x := range []*js.Schema{root, sd, sp} {
		x := x
		out = append(out, call("AddType", lim, func() error { return x.AddType("@d", sd) }))
		out = append(out, call("AddType", lim, func() error { return x.AddType("@p", sp) }))
	}
	out = append(out, call("Check", lim, func() error { return root.Check() }))
	out = append(out, call("Validate", lim, func() error { return root.Validate(fjson.New("doc", "{}")) }))
	out = append(out, call("Example", lim, func() error { _, e := root.Example(); return e }))
	out = append(out, call("GetAST", lim, func() error { _, e := root.GetAST(); return e }))
	out = append(out, call("Check", lim, func() error { return sd.Check() }))
	return strings.Join(out, ";")
}

func fuzzOne(kind string, src, second []byte) string {
	n := len(src)
	var out []string
	add := func(s string) { out = append(out, s) }
	switch kind {
	case "schema":
		doc := second
		if doc == nil {
			doc = []byte("null")
		}
		for _, order := range []string{"LCAUEV", "VEUACL"} {
			s := js.New("s", src)
			for _, m := range order {
				switch m {
				case 'L':
					add(call("Len", n, func() error { _, e := s.Len(); return e }))
				case 'C':
					add(call("Check", n, func() error { return s.Check() }))
				case 'A':
					add(call("GetAST", n, func() error { _, e := s.GetAST(); return e }))
				case 'U':
					add(call("Used", n, func() error { _, e := s.UsedUserTypes(); return e }))
				case 'E':
					add(call("Example", n, func() error { _, e := s.Example(); return e }))
				case 'V':
					// a validation error refers to the document
					add(call("Validate", maxInt(n, len(doc)), func() error { return s.Validate(fjson.New("d", doc)) }))
				}
			}
		}
	case "schemaT":
		s := js.New("s", src)
		t := js.New("t", second)
		add(call("AddType", len(second), func() error { return s.AddType("@t", t) }))
		add(call("Check", maxInt(n, len(second)), func() error { return s.Check() }))
		add(call("Validate", maxInt(n, len(second)), func() error { return s.Validate(fjson.New("d", "1")) }))
		add(call("Example", maxInt(n, len(second)), func() error { _, e := s.Example(); return e }))
	case "enum":
		for _, order := range []string{"LCAV", "VACL"} {
			e := enum.New("e", src)
			for _, m := range order {
				switch m {
				case 'L':
					add(call("Len", n, func() error { _, err := e.Len(); return err }))
				case 'C':
					add(call("Check", n, func() error { return e.Check() }))
				case 'A':
					add(call("GetAST", n, func() error { _, err := e.GetAST(); return err }))
				case 'V':
					add(call("Values", n, func() error { _, err := e.Values(); return err }))
				}
			}
		}
	case "regex":
		r := regex.New("r", src)
		add(call("Len", n, func() error { _, e := r.Len(); return e }))
		add(call("Check", n, func() error { return r.Check() }))
		add(call("Pattern", n, func() error { _, e := r.Pattern(); return e }))
		add(call("Example", n, func() error { _, e := r.Example(); return e }))
		add(call("GetAST", n, func() error { _, e := r.GetAST(); return e }))
		s := js.New("s", `"x" // {type: "@r"}`)
		add(call("AddType", n, func() error { return s.AddType("@r", r) }))
	case "json", "jsont":
		var d jschema.Document
		if kind == "jsont" {
			d = fjson.New("d", src, fjson.AllowTrailingNonSpaceCharacters())
		} else {
			d = fjson.New("d", src)
		}
		add(call("Len", n, func() error { _, e := d.Len(); return e }))
		add(call("Check", n, func() error { return d.Check() }))
		add(call("Lexemes", n, func() error {
			for i := 0; i < 4*n+8; i++ {
				_, e := d.NextLexeme()
				if e != nil {
					return e
				}
			}
			return fmt.Errorf("no EOF after %d lexemes", 4*n+8)
		}))
		// a caller that keeps asking after the stream ended (io.EOF or an error) gets an error again, never a panic
		add(call("LexemesAfterEnd", n, func() error {
			var last error
			for i := 0; i < 3; i++ {
				_, last = d.NextLexeme()
				if last == nil {
					return fmt.Errorf("NextLexeme delivers a lexeme after the stream has ended")
				}
			}
			if errors.Is(last, io.EOF) {
				return nil
			}
			return last
		}))
	}
	return strings.Join(out, ";")
}

func maxInt(a, b int) int {
	if a > b {
		return a
	}
	return b
}
