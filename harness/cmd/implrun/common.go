package main

import (
	"errors"
	"fmt"

	jschema "github.com/jsightapi/jsight-schema-go-library"
	jerr "github.com/jsightapi/jsight-schema-go-library/errors"
	fjson "github.com/jsightapi/jsight-schema-go-library/formats/json"
)

// errInfo: canonical rendering of an error: "ok" | "E<code>@<pos>" | "FOREIGN(<type>)".
func errInfo(err error) string {
	if err == nil {
		return "ok"
	}
	for i := 0; i < 8; i++ { // fmt.Errorf("...: %w", libErr) wrappers (AddType)
		if _, ok := err.(jerr.Error); ok {
			break
		}
		if _, ok := err.(interface{ Code() jerr.ErrorCode }); ok {
			break
		}
		u := errors.Unwrap(err)
		if u == nil {
			break
		}
		err = u
	}
	if e, ok := err.(jerr.Error); ok {
		return fmt.Sprintf("E%d@%d", e.ErrCode(), e.Position())
	}
	if e, ok := err.(interface{ Code() jerr.ErrorCode }); ok {
		return fmt.Sprintf("E%d", int(e.Code()))
	}
	if e, ok := err.(interface{ ErrCode() int }); ok { // library validation error without a position
		return fmt.Sprintf("E%d", e.ErrCode())
	}
	return fmt.Sprintf("FOREIGN(%T)", err)
}

func validateDoc(s jschema.Schema, doc string) error {
	return s.Validate(fjson.New("doc", doc))
}
