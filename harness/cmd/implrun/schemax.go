package main

import (
	"encoding/hex"
	"fmt"
	"strings"

	js "github.com/jsightapi/jsight-schema-go-library/notations/jschema"
	jsverifx "github.com/jsightapi/jsight-schema-go-library/notations/jschema/verifx"
)

// schemax <mode> <hex | ->: s = raw event stream of the schema scanner, S = in ComputeLength mode, l = Schema.Len()
func init() {
	commands["schemax"] = func(args []string, line string) string {
		return guard(func() string {
			f := strings.Fields(line)
			if len(f) != 2 {
				return "?"
			}
			src, _ := hex.DecodeString(strings.TrimPrefix(f[1], "-"))
			switch f[0] {
			case "s", "S":
				evs, end := jsverifx.SchemaEvents(src, f[0] == "S")
				var out []string
				for _, e := range evs {
					out = append(out, fmt.Sprintf("%d:%d:%d", e.T, e.B, e.E))
				}
				if strings.HasPrefix(end, "PANIC") {
					end = "PANIC"
				}
				return strings.Join(out, ",") + "|" + end
			case "l":
				n, err := js.New("s", src).Len()
				if err != nil {
					return errInfo(err)
				}
				return fmt.Sprintf("%d", n)
			}
			return "?"
		})
	}
}
