package main

import (
	"encoding/hex"
	"errors"
	"fmt"
	"io"
	"strings"

	jschema "github.com/jsightapi/jsight-schema-go-library"
	fjson "github.com/jsightapi/jsight-schema-go-library/formats/json"
	jsverifx "github.com/jsightapi/jsight-schema-go-library/notations/jschema/verifx"
	"github.com/jsightapi/jsight-schema-go-library/rules/enum"
)

// json <mode> <hex>: c/C Check, l/L Len, e/E NextLexeme stream (upper case: trailing characters allowed)
func init() {
	commands["json"] = func(args []string, line string) string {
		return guard(func() string {
			f := strings.Fields(line)
			if len(f) != 2 {
				return "?"
			}
			src, _ := hex.DecodeString(strings.TrimPrefix(f[1], "-"))
			mk := func(allow bool) jschema.Document {
				if allow {
					return fjson.New("d", src, fjson.AllowTrailingNonSpaceCharacters())
				}
				return fjson.New("d", src)
			}
			switch f[0] {
			case "c", "C":
				return errInfo(mk(f[0] == "C").Check())
			case "l", "L":
				n, err := mk(f[0] == "L").Len()
				if err != nil {
					return errInfo(err)
				}
				return fmt.Sprintf("%d", n)
			case "s": // the schema scanner's raw event stream
				evs, end := jsverifx.SchemaEvents(src, false)
				var out []string
				for _, e := range evs {
					out = append(out, fmt.Sprintf("%d:%d:%d", e.T, e.B, e.E))
				}
				return strings.Join(out, ",") + "|" + end
			case "n": // the enum-rule scanner's raw event stream
				evs, end := enum.VerifEvents(src, false)
				var out []string
				for _, e := range evs {
					out = append(out, fmt.Sprintf("%d:%d:%d", e.T, e.B, e.E))
				}
				return strings.Join(out, ",") + "|" + end
			case "x": // NextLexeme stream: fresh // after Check // after Len // after a partial read followed by Check
				stream := func(d jschema.Document) string {
					var evs []string
					for i := 0; i < 4*len(src)+16; i++ {
						lex, err := d.NextLexeme()
						if err != nil {
							if errors.Is(err, io.EOF) {
								return strings.Join(evs, ",") + "|eof"
							}
							return strings.Join(evs, ",") + "|" + errInfo(err)
						}
						evs = append(evs, fmt.Sprintf("%d:%d:%d", int(lex.Type()), int(lex.Begin()), int(lex.End())))
					}
					return "NOEOF"
				}
				d0 := mk(false)
				d1 := mk(false)
				d1.Check()
				d2 := mk(false)
				d2.Len()
				d3 := mk(false)
				d3.NextLexeme()
				d3.NextLexeme()
				d3.Check()
				s3 := stream(d3)
				_ = s3 // after a partial read the stream legitimately continues from where it was; Check rewinds to the start
				out := stream(d0) + "//" + stream(d1) + "//" + stream(d2) + "//" + s3
				// k events read (the scanner may hold queued events of the current step), then Rewind: the stream starts over
				for k := 1; k <= 6; k++ {
					d := mk(false)
					for i := 0; i < k; i++ {
						if _, err := d.NextLexeme(); err != nil {
							break
						}
					}
					if r, ok := d.(interface{ Rewind() }); ok {
						r.Rewind()
					} else {
						d = mk(false)
					}
					out += "//" + stream(d)
				}
				return out
			case "g", "G":
				// history probes for Len: Len after k reads, after reading everything, after Check; every part must equal Len on a fresh document
				var parts []string
				for _, pre := range []string{"one", "two", "three", "all", "check"} {
					d := mk(f[0] == "G")
					switch pre {
					case "one", "two", "three":
						for i := 0; i < map[string]int{"one": 1, "two": 2, "three": 3}[pre]; i++ {
							if _, err := d.NextLexeme(); err != nil {
								break
							}
						}
					case "all":
						for i := 0; i < 4*len(src)+16; i++ {
							if _, err := d.NextLexeme(); err != nil {
								break
							}
						}
					case "check":
						d.Check()
					}
					n, err := d.Len()
					if err != nil {
						parts = append(parts, errInfo(err))
					} else {
						parts = append(parts, fmt.Sprintf("%d", n))
					}
				}
				return strings.Join(parts, "/")
			case "h", "H":
				// history probes: Check after (1) one NextLexeme, (2) reading everything, (3) Len, (4) Check;
				// and Len after Check. Every part must equal the result on a fresh document.
				var parts []string
				for _, pre := range []string{"one", "two", "three", "four", "five", "all", "len", "check"} {
					d := mk(f[0] == "H")
					switch pre {
					case "one", "two", "three", "four", "five":
						for i := 0; i < map[string]int{"one": 1, "two": 2, "three": 3, "four": 4, "five": 5}[pre]; i++ {
							if _, err := d.NextLexeme(); err != nil {
								break
							}
						}
					case "all":
						for i := 0; i < 4*len(src)+16; i++ {
							if _, err := d.NextLexeme(); err != nil {
								break
							}
						}
					case "len":
						d.Len()
					case "check":
						d.Check()
					}
					parts = append(parts, errInfo(d.Check()))
				}
				return strings.Join(parts, "/")
			case "e", "E":
				d := mk(f[0] == "E")
				var evs []string
				for i := 0; i < 4*len(src)+16; i++ {
					lex, err := d.NextLexeme()
					if err != nil {
						if errors.Is(err, io.EOF) {
							return strings.Join(evs, ",") + "|eof"
						}
						return strings.Join(evs, ",") + "|" + errInfo(err)
					}
					evs = append(evs, fmt.Sprintf("%d:%d:%d", int(lex.Type()), int(lex.Begin()), int(lex.End())))
				}
				return strings.Join(evs, ",") + "|NOEOF"
			}
			return "?"
		})
	}
}
