package main

import (
	"encoding/hex"
	"encoding/json"
	"regexp"
	"strings"

	jschema "github.com/jsightapi/jsight-schema-go-library"
	jsverifx "github.com/jsightapi/jsight-schema-go-library/notations/jschema/verifx"
	"github.com/jsightapi/jsight-schema-go-library/rules/enum"
)

// loadprobe — the schema LOADER alone (loader.LoadSchemaWithoutCompile + ASTNode of the root; no compile passes, no checker):
// line = hex of the schema text (or "-") [ <namehex>=<enum text hex>,... registered enum rules ]   or  "R <hex of a JSON token>"
// (what constraint.NewRegex makes of it: ok | bad:<hex of the pattern> | nostring);
// output = A:<json as astJSON> | EMPTY | E<code>@<pos> | PANIC(...)
func init() {
	commands["loadprobe"] = func(args []string, line string) string {
		return guard(func() string {
			f := strings.Fields(line)
			if len(f) == 2 && f[0] == "R" {
				tok, _ := hex.DecodeString(f[1])
				var str string
				if err := json.Unmarshal(tok, &str); err != nil {
					return "nostring"
				}
				if _, err := regexp.Compile(str); err != nil {
					return "bad:" + hex.EncodeToString([]byte(str))
				}
				return "ok"
			}
			if len(f) == 0 {
				f = []string{"-"}
			}
			src, _ := hex.DecodeString(strings.TrimPrefix(f[0], "-"))
			rules := map[string]jschema.Rule{}
			if len(f) > 1 {
				for _, spec := range strings.Split(f[1], ",") {
					kv := strings.SplitN(spec, "=", 2)
					if len(kv) != 2 {
						continue
					}
					n, _ := hex.DecodeString(kv[0])
					t, _ := hex.DecodeString(kv[1])
					rules[string(n)] = enum.New(string(n), t)
				}
			}
			an, end := jsverifx.LoadOnly(src, rules)
			switch end {
			case "ok":
				b, _ := json.Marshal(astJSON(an))
				return "A:" + string(b)
			case "empty":
				return "EMPTY"
			}
			return strings.ReplaceAll(end, "\n", " ")
		})
	}
}
