package main

import (
	"encoding/hex"
	"encoding/json"
	"fmt"
	"sort"
	"strings"

	jschema "github.com/jsightapi/jsight-schema-go-library"
	js "github.com/jsightapi/jsight-schema-go-library/notations/jschema"
	"github.com/jsightapi/jsight-schema-go-library/notations/regex"
	"github.com/jsightapi/jsight-schema-go-library/rules/enum"
)

// schema: one JSON object per line
//   {"schema": "<text>", "hex": false, "optional": false,
//    "types": [["@a", "<text>"], ["@r", "/regex/"]...], "enums": [["@e", "<text>"]...],
//    "ops": [["check"], ["validate", "<doc>"], ["example"], ["ast"], ["used"], ["len"], ["addtype", "@n", "<text>"]]}
// texts are plain strings, or hex when "hex" is true. Output: JSON array with one result string per op.
// Types are added to the root schema and to every other type (the way jAPI does), unless "roottypes" is true.
type schemaCase struct {
	Schema    string      `json:"schema"`
	Hex       bool        `json:"hex"`
	Optional  bool        `json:"optional"`
	RootTypes bool        `json:"roottypes"`
	RootName  string      `json:"rootname"`
	Private   [][3]string `json:"private"`
	Types     [][2]string `json:"types"`
	Enums     [][2]string `json:"enums"`
	Ops       [][]string  `json:"ops"`
	// TypeFile: the file name of every type (the types of one API file share its name); absent = the type's own name
	TypeFile string `json:"type_file"`
	// Preload: type objects queried (UsedUserTypes) before anything is added anywhere: they are loaded earlier than the others
	Preload []string `json:"preload"`
	// Hold: types declared in "types" but not added by the set-up (op "addknown" adds one later)
	Hold []string `json:"hold"`
}

func astJSON(n jschema.ASTNode) interface{} {
	m := map[string]interface{}{"tt": n.TokenType, "st": n.SchemaType}
	if n.Key != "" || n.IsKeyShortcut {
		m["key"] = n.Key
	}
	if n.IsKeyShortcut {
		m["ks"] = true
	}
	if n.Value != "" {
		m["v"] = n.Value
	}
	if n.Comment != "" {
		m["c"] = n.Comment
	}
	if n.Rules != nil && n.Rules.Len() > 0 {
		m["rules"] = rulesJSON(n.Rules)
	}
	if len(n.Children) > 0 {
		var cs []interface{}
		for _, c := range n.Children {
			cs = append(cs, astJSON(c))
		}
		m["ch"] = cs
	}
	return m
}

func ruleJSON(r jschema.RuleASTNode) interface{} {
	m := map[string]interface{}{"tt": r.TokenType, "src": int(r.Source)}
	if r.Value != "" {
		m["v"] = r.Value
	}
	if r.Comment != "" {
		m["c"] = r.Comment
	}
	if r.Properties != nil && r.Properties.Len() > 0 {
		m["props"] = rulesJSON(r.Properties)
	}
	if len(r.Items) > 0 {
		var it []interface{}
		for _, x := range r.Items {
			it = append(it, ruleJSON(x))
		}
		m["items"] = it
	}
	return m
}

func rulesJSON(rs *jschema.RuleASTNodes) interface{} {
	var out []interface{}
	rs.EachSafe(func(k string, v jschema.RuleASTNode) {
		out = append(out, []interface{}{k, ruleJSON(v)})
	})
	return out
}

func init() {
	commands["schema"] = func(args []string, line string) string {
		var c schemaCase
		if err := json.Unmarshal([]byte(line), &c); err != nil {
			return `["BADCASE"]`
		}
		dec := func(s string) []byte {
			if c.Hex {
				b, _ := hex.DecodeString(s)
				return b
			}
			return []byte(s)
		}
		var res []string
		func() {
			defer func() {
				if r := recover(); r != nil {
					res = append(res, strings.ReplaceAll(fmt.Sprintf("PANIC(%v)", r), "\n", " "))
				}
			}()
			mk := func(name string, text []byte) *js.Schema {
				if c.Optional {
					return js.New(name, text, js.KeysAreOptionalByDefault())
				}
				return js.New(name, text)
			}
			rootName := "root"
			if c.RootName != "" {
				rootName = c.RootName
			}
			root := mk(rootName, dec(c.Schema))
			enums := map[string]*enum.Enum{}
			for _, e := range c.Enums {
				enums[e[0]] = enum.New(e[0], dec(e[1]))
			}
			types := map[string]jschema.Schema{}
			var order []string
			for _, t := range c.Types {
				text := dec(t[1])
				fname := t[0]
				if c.TypeFile != "" {
					fname = c.TypeFile
				}
				if len(text) > 0 && text[0] == '/' {
					types[t[0]] = regex.New(t[0], text, regex.WithGeneratorSeed(1))
				} else {
					types[t[0]] = mk(fname, text)
				}
				held := false
				for _, h := range c.Hold {
					held = held || h == t[0]
				}
				if !held {
					order = append(order, t[0])
				}
			}
			for _, n := range c.Preload {
				if t, ok := types[n].(*js.Schema); ok {
					_, _ = t.UsedUserTypes()
				}
			}
			var setupErr error
			// private types: [owner, name, text] - a type added to the owner type only (before the owner is added anywhere)
			for _, pt := range c.Private {
				if owner, ok := types[pt[0]]; ok {
					if err := owner.AddType(pt[1], mk(pt[1], dec(pt[2]))); err != nil && setupErr == nil {
						setupErr = err
					}
				}
			}
			all := []jschema.Schema{root}
			if !c.RootTypes {
				for _, n := range order {
					all = append(all, types[n])
				}
			}
			for _, s := range all {
				for n, e := range enums {
					if err := s.AddRule(n, e); err != nil && setupErr == nil {
						setupErr = err
					}
				}
			}
			for _, s := range all {
				for _, n := range order {
					if err := s.AddType(n, types[n]); err != nil && setupErr == nil {
						setupErr = err
					}
				}
			}
			for _, op := range c.Ops {
				if setupErr != nil {
					res = append(res, "SETUP-"+errInfo(setupErr))
					continue
				}
				switch op[0] {
				case "check":
					res = append(res, errInfo(root.Check()))
				case "validate":
					res = append(res, errInfo(validateDoc(root, string(dec(op[1])))))
				case "example":
					b, err := root.Example()
					if err != nil {
						res = append(res, errInfo(err))
					} else {
						res = append(res, "X:"+hex.EncodeToString(b))
					}
				case "valex": // validate the schema's own Example()
					b, err := root.Example()
					if err != nil {
						res = append(res, "NOEX-"+errInfo(err))
					} else {
						res = append(res, errInfo(validateDoc(root, string(append([]byte(nil), b...)))))
					}
				case "exampleagain": // Example(); Example() of another schema; Example() again: must be identical and still valid
					b1, err := root.Example()
					if err != nil {
						res = append(res, "NOEX-"+errInfo(err))
						break
					}
					c1 := append([]byte(nil), b1...)
					other := js.New("other", "{\n  \"address\": {\n    \"street\": \"x\",\n    \"no\": [1, 2, 3]\n  },\n  \"flag\": false\n}")
					_, _ = other.Example()
					b2, err := root.Example()
					if err != nil {
						res = append(res, "SECOND-"+errInfo(err))
						break
					}
					c2 := append([]byte(nil), b2...)
					if string(c1) != string(c2) {
						res = append(res, "DIFF:"+hex.EncodeToString(c1)+":"+hex.EncodeToString(c2))
					} else if string(b1) != string(c1) {
						res = append(res, "FIRST-RESULT-CHANGED:"+hex.EncodeToString(c1)+":"+hex.EncodeToString(b1))
					} else {
						res = append(res, "same")
					}
				case "len":
					n, err := root.Len()
					if err != nil {
						res = append(res, errInfo(err))
					} else {
						res = append(res, fmt.Sprintf("%d", n))
					}
				case "used":
					u, err := root.UsedUserTypes()
					if err != nil {
						res = append(res, errInfo(err))
					} else {
						res = append(res, "U:"+strings.Join(u, ","))
					}
				case "usedsorted":
					u, err := root.UsedUserTypes()
					if err != nil {
						res = append(res, errInfo(err))
					} else {
						u2 := append([]string(nil), u...)
						sort.Strings(u2)
						res = append(res, "U:"+strings.Join(u2, ","))
					}
				case "ast":
					a, err := root.GetAST()
					if err != nil {
						res = append(res, errInfo(err))
					} else {
						b, _ := json.Marshal(astJSON(a))
						res = append(res, "A:"+string(b))
					}
				case "addtype":
					res = append(res, errInfo(root.AddType(op[1], mk(op[1], dec(op[2])))))
				case "checkfull": // code, position, rendered text and the type the error is attributed to
					first, _ := keepErr(root.Check())
					res = append(res, first)
				case "addrule": // AddRule after the earlier ops of the history
					res = append(res, errInfo(root.AddRule(op[1], enum.New(op[1], dec(op[2])))))
				case "addknown": // AddType of one of the case's type objects (declared in "types" but held back by "hold")
					if t, ok := types[op[1]]; ok {
						res = append(res, errInfo(root.AddType(op[1], t)))
					} else {
						res = append(res, "?")
					}
				case "typecheck", "typeexample", "typeast", "typeused": // an operation on a type object itself
					t, ok := types[op[1]].(*js.Schema)
					if !ok {
						res = append(res, "?")
						break
					}
					switch op[0] {
					case "typecheck":
						res = append(res, errInfo(t.Check()))
					case "typeexample":
						_, err := t.Example()
						res = append(res, errInfo(err))
					case "typeast":
						_, err := t.GetAST()
						res = append(res, errInfo(err))
					default:
						_, err := t.UsedUserTypes()
						res = append(res, errInfo(err))
					}
				default:
					res = append(res, "?")
				}
			}
		}()
		b, _ := json.Marshal(res)
		return string(b)
	}
}
