package main

import (
	"encoding/hex"
	"encoding/json"
	"fmt"
	"regexp"
	"strings"

	"github.com/jsightapi/jsight-schema-go-library/notations/regex"
	"github.com/jsightapi/jsight-schema-go-library/rules/enum"
)

// enumrule {"text": "...", "hex": false}: Check, Len, Values (type:value in source order), GetAST children
// regextype {"text": "/p/..."}: Check, Len, Pattern, Example, whether the example matches the pattern (Go regexp)
func init() {
	commands["enumrule"] = func(args []string, line string) string {
		var c struct {
			Text string `json:"text"`
			Hex  bool   `json:"hex"`
		}
		if json.Unmarshal([]byte(line), &c) != nil {
			return `["BADCASE"]`
		}
		text := []byte(c.Text)
		if c.Hex {
			text, _ = hex.DecodeString(c.Text)
		}
		var res []string
		func() {
			defer func() {
				if r := recover(); r != nil {
					res = append(res, strings.ReplaceAll(fmt.Sprintf("PANIC(%v)", r), "\n", " "))
				}
			}()
			e := enum.New("e", text)
			res = append(res, errInfo(e.Check()))
			n, err := e.Len()
			if err != nil {
				res = append(res, errInfo(err))
			} else {
				res = append(res, fmt.Sprintf("%d", n))
			}
			vs, err := e.Values()
			if err != nil {
				res = append(res, errInfo(err))
			} else {
				var out []string
				for _, v := range vs {
					out = append(out, string(v.Type)+":"+string(v.Value)+":"+v.Comment)
				}
				res = append(res, "V:"+strings.Join(out, "|"))
			}
			a, err := e.GetAST()
			if err != nil {
				res = append(res, errInfo(err))
			} else {
				var out []string
				for _, ch := range a.Children {
					out = append(out, ch.TokenType+":"+ch.Value+":"+ch.Comment)
				}
				res = append(res, "A:"+a.TokenType+"/"+a.SchemaType+":"+strings.Join(out, "|"))
			}
		}()
		b, _ := json.Marshal(res)
		return string(b)
	}
	commands["regextype"] = func(args []string, line string) string {
		var c struct {
			Text string `json:"text"`
		}
		if json.Unmarshal([]byte(line), &c) != nil {
			return `["BADCASE"]`
		}
		var res []string
		func() {
			defer func() {
				if r := recover(); r != nil {
					res = append(res, strings.ReplaceAll(fmt.Sprintf("PANIC(%v)", r), "\n", " "))
				}
			}()
			r := regex.New("r", c.Text, regex.WithGeneratorSeed(7))
			res = append(res, errInfo(r.Check()))
			n, err := r.Len()
			if err != nil {
				res = append(res, errInfo(err))
			} else {
				res = append(res, fmt.Sprintf("%d", n))
			}
			p, err := r.Pattern()
			if err != nil {
				res = append(res, errInfo(err))
				return
			}
			res = append(res, "P:"+p)
			ex, err := r.Example()
			if err != nil {
				res = append(res, errInfo(err))
				return
			}
			re, err := regexp.Compile(p)
			if err != nil {
				res = append(res, "NOCOMPILE")
				return
			}
			res = append(res, fmt.Sprintf("X:%s:%v", hex.EncodeToString(ex), re.Match(ex)))
		}()
		b, _ := json.Marshal(res)
		return string(b)
	}
}
