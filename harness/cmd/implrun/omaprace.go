package main

import (
	"fmt"
	"math/rand"
	"strconv"
	"sync"
	"sync/atomic"
	"time"
)

// omaprace <seconds> <seed>: goroutines hammer one shared map of each kind with random
// operations; meant to run in the -race build. Also checks what can be checked under
// concurrency: one iteration pass never shows a key twice, marshalled text always parses.
func init() {
	specials["omaprace"] = func(args []string) int {
		secs, _ := strconv.Atoi(args[0])
		seed, _ := strconv.Atoi(args[1])
		var ops int64
		bad := int32(0)
		for _, kind := range []string{"ast", "rule", "cons"} {
			m := newOmap(kind)
			stop := time.Now().Add(time.Duration(secs) * time.Second / 3)
			var wg sync.WaitGroup
			for g := 0; g < 8; g++ {
				wg.Add(1)
				go func(g int) {
					defer wg.Done()
					rng := rand.New(rand.NewSource(int64(seed)*100 + int64(g)))
					for time.Now().Before(stop) {
						for i := 0; i < 200; i++ {
							k := rng.Intn(6)
							switch rng.Intn(14) {
							case 0, 1, 2:
								m.Set(k, rng.Intn(10))
							case 3, 4:
								m.Delete(k)
							case 5:
								m.Update(k, zupd(rng.Intn(3)))
							case 6:
								m.Filter(zpred(rng.Intn(7)))
							case 7:
								_ = m.Map(zmap(rng.Intn(4)))
							case 8:
								seen := map[int]bool{}
								m.EachSafe(func(k, v int) {
									if seen[k] {
										atomic.StoreInt32(&bad, 1)
										fmt.Printf("INCONSISTENT %s: key %d visited twice in one EachSafe pass\n", kind, k)
									}
									seen[k] = true
								})
							case 9:
								_ = m.Each(func(k, v int) error { return nil })
							case 10:
								m.Find(zpred(rng.Intn(7)))
							case 11:
								m.Get(k)
								m.Has(k)
								m.GetValue(k)
								m.Len()
							default:
								b, err := m.Marshal()
								if err == nil {
									if _, ok := m.ParseMarshal(b); !ok {
										atomic.StoreInt32(&bad, 1)
										fmt.Printf("INCONSISTENT %s: marshalled text malformed: %s\n", kind, b)
									}
								}
							}
							atomic.AddInt64(&ops, 1)
						}
					}
				}(g)
			}
			wg.Wait()
		}
		fmt.Printf("omaprace: %d operations, 8 goroutines x 3 maps, inconsistent=%d\n", ops, bad)
		if bad != 0 {
			return 1
		}
		return 0
	}
}
