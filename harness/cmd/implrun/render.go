package main

import (
	"encoding/hex"
	"fmt"
	"strconv"
	"strings"

	jbytes "github.com/jsightapi/jsight-schema-go-library/bytes"
	jerr "github.com/jsightapi/jsight-schema-go-library/errors"
	"github.com/jsightapi/jsight-schema-go-library/fs"
)

// render "<hex content> <position>": what a DocumentError at that index renders:
// "<line>|<hex of the shown source line>|<number of dashes before the caret>"  or PANIC(...)
func init() {
	commands["render"] = func(args []string, line string) string {
		return guard(func() string {
			f := strings.Fields(line)
			content, _ := hex.DecodeString(strings.TrimPrefix(f[0], "-"))
			p, _ := strconv.Atoi(f[1])
			e := jerr.NewDocumentError(fs.NewFile("f", content), jerr.Format(jerr.ErrGeneric, "m"))
			e.SetIndex(jbytes.Index(p))
			s := e.Error()
			// ERROR: m\n\tin line %d on file f\n\t> %s\n\t--%s
			i := strings.Index(s, "\n\t> ")
			j := strings.LastIndex(s, "\n\t--")
			if i < 0 || j < i {
				return "UNPARSEABLE(" + hex.EncodeToString([]byte(s)) + ")"
			}
			head := s[:i]
			text := s[i+4 : j]
			caret := s[j+4:]
			if !strings.HasSuffix(caret, "^") || strings.Trim(caret[:len(caret)-1], "-") != "" {
				return "BADCARET(" + caret + ")"
			}
			ln := head[strings.Index(head, "in line ")+8:]
			ln = ln[:strings.Index(ln, " ")]
			if strconv.Itoa(int(e.Line())) != ln || e.SourceSubString() != text {
				return "INCONSISTENT"
			}
			return fmt.Sprintf("%s|%s|%d", ln, hex.EncodeToString([]byte(text)), len(caret)-1)
		})
	}
}

// rendermove "<hex content> <p1> <p2> ...": ONE DocumentError object is moved with SetIndex through the positions and rendered at
// each; output = the renderings joined by ";" (each as in "render"). A moved error must render like a fresh one.
func init() {
	commands["rendermove"] = func(args []string, line string) string {
		return guard(func() string {
			f := strings.Fields(line)
			content, _ := hex.DecodeString(strings.TrimPrefix(f[0], "-"))
			e := jerr.NewDocumentError(fs.NewFile("f", content), jerr.Format(jerr.ErrGeneric, "m"))
			var outs []string
			for _, ps := range f[1:] {
				p, _ := strconv.Atoi(ps)
				e.SetIndex(jbytes.Index(p))
				one := guard(func() string {
					ln := e.Line()
					text := e.SourceSubString()
					s := e.String()
					j := strings.LastIndex(s, "\n\t--")
					if j < 0 {
						return "UNPARSEABLE"
					}
					caret := s[j+4:]
					return fmt.Sprintf("%d|%s|%d", ln, hex.EncodeToString([]byte(text)), len(caret)-1)
				})
				outs = append(outs, one)
			}
			return strings.Join(outs, ";")
		})
	}
}
